"""C13 - console rendering never loses text and respects the width (structural clauses).

Decides (on Doc::render_console, colourless and colour builds):
 W width non-interference   the blocks reachable only through a comparison involving `max_width` mutate the output only
                   by pushing '\\n' and by truncating to the length of its own trim_end() (whitespace), and may skip a chunk
                   only when that chunk compares equal to a single space; no text is pushed there.
 O once            from the entry of the Chunk::Raw arm, every path to the next chunk passes exactly one content push of that
                   chunk's text (res.push_str(s) / color.push_str(style, &mut res, s)), except through that single-space skip.
 C constants       every other write to the output is a whitespace constant ('\\n', a slice of the all-spaces PADDING) or the
                   width-independent TermRef backtick; every truncate of the output anywhere is to its trim_end() length.
 F full            `full` only decides whether skipping starts after a Paragraph chunk (short help = first paragraph).
 P width source    monochrome() passes MAX_WIDTH, Display passes the formatter width or MAX_WIDTH, print_message its
                   parameter (run() passes info.max_width, C11).
 S splitter        Splitter::next only ever yields sub-slices of its input (text is never synthesised), a single space, or
                   structural chunks.
 W wrap condition the line break before a chunk that does not fit depends only on `position + chunk length > max_width` and on
                   the output being non-empty (no further condition can suppress it).
 K cursor / skip   the payload cursor advances exactly once per text token on every path; Skip::push at BlockStart(b) and Skip::pop
                   at BlockEnd(b) are paired for every block kind on every path (short help = exactly the first paragraph).
 S bounded cut    each step of the splitter cuts a bounded piece off the remaining input (a constant prefix, up to a found separator, a
                   computed offset): `trim*` would also eat the blank line that ends the first paragraph.
 K doc writers    see C12 (payload and token lengths stay in step).
 S fence / counter  every test against the code-fence literal is a prefix test; buffer::Skip is a depth counter (usize), not a flag.
 S splitter cuts   see C12.
 F short form      every paragraph break reaches the `full` test, and on its short-form edge Skip::enable is unconditional; W term gap: the two-blank
                   top-up between a wide term and its help can follow the ordinary padding whatever that pushed.
 S split whole     split() hands its parameter to the Splitter as it is (no trimming: a paragraph break can be the start of a fragment).
Does not decide: the numeric bound on line length (byte vs char counts)."""
import re
from core import *
from dataflow import *
from cfgq import *
from parsers import *

LEVEL = 'other'
EXPLANATION = __doc__
ASSUMPTIONS = ['String::push/push_str/truncate and str::trim_end behave as documented']
FLOORS = {'W.width': 5, 'O.once': 2, 'C.constants': 5, 'F.full': 4, 'P.width-source': 3, 'S.splitter': 4, 'K.cursor': 2, 'K.skip-pairing': 3}

def run(ctx):
    cfgs = ['none', 'dull'] if ctx.tier == 'quick' else ['none', 'dull', 'bright', 'all']
    ctx.preload(cfgs)
    for cfg in cfgs:
        fs = ctx.facts(cfg)
        ctx.guard(console, ctx, cfg, fs)
        ctx.guard(width_source, ctx, cfg, fs)
        ctx.guard(term_gap, ctx, cfg, fs)
        ctx.guard(split_whole, ctx, cfg, fs)
        ctx.guard(splitter, ctx, cfg, fs)
        import docwalk
        ctx.guard(docwalk.cursor_advance, ctx, cfg, fs, 'K.cursor', r'render_console$|Doc::first_line$')
        ctx.guard(docwalk.payload_writers, ctx, cfg, fs, 'K.cursor')
        import c04 as c04_, c08 as c08_
        ctx.guard(c08_.keep_only, ctx, lambda: c04_.str_index(ctx, cfg, fs), lambda o: 'Splitter' in o.key, 'S.splitter')
        ctx.guard(c08_.keep_only, ctx, lambda: c04_.str_cut(ctx, cfg, fs), lambda o: 'Splitter' in o.key, 'S.splitter')
        import c12
        ctx.guard(c12.embedders, ctx, cfg, fs, 'K.skip-pairing')
        ctx.guard(docwalk.block_pairing, ctx, cfg, fs, 'K.skip-pairing', r'impl buffer::Doc>::render_console$', [('skip', r'buffer::Skip::push$', r'buffer::Skip::pop$')])

def res_local(b):
    for c in b.calls():
        if c.is_(r'^std::string::String::new$') and c.dest and not c.dest[1] and b.name_of(c.dest[0]) == 'res':
            return c.dest[0]
    # fall back: the String that is returned
    for i, k, st in b.stmts():
        if st['k'] == 'assign' and st['lhs'] == [0, []] and st['rv']['k'] == 'use':
            pl = op_place(st['rv']['op'])
            if pl and b.local_ty(pl[0]) == 'std::string::String':
                return pl[0]
    raise Broken('render_console: output String not found')

def console(ctx, cfg, fs):
    b = ctx.look(fs.one(r'buffer::console::<impl buffer::Doc>::render_console$'))
    res = res_local(b)
    def on_res(c, pos=0):
        if len(c.args) <= pos: return False
        rs = provenance(b, c.args[pos], c.bb, 'term', through=None)
        return bool(rs) and all(r.kind == 'call' and r.call.dest == [res, []] for r in rs)
    writes = []
    for c in b.calls():
        if c.is_(r'^std::string::String::(push|push_str|truncate|insert|insert_str|clear|pop|remove|drain|retain|replace_range|extend)$') and on_res(c):
            writes.append(c)
        elif c.is_(r'^buffer::console::Color::push_str$') and on_res(c, 2):
            writes.append(c)
    if not writes:
        raise Broken('render_console: no writes to the output found')
    # width-dependent region
    wsw = []
    for sw in switches(b):
        if sw.kind != 'bool': continue
        def dep(rs, d=0):
            for r in rs:
                if r.kind == 'param' and r.what == 'max_width': return True
                if r.kind == 'bin' and d < 4:
                    if dep(provenance(b, r.extra['a'], r.site[0], r.site[1], through=None), d + 1) or dep(provenance(b, r.extra['b'], r.site[0], r.site[1], through=None), d + 1):
                        return True
            return False
        if dep(sw.roots):
            wsw.append(sw)
    ctx.ob('W.width', 'render_console:width-tests', len(wsw) >= 1, 'render_console has %d branch(es) that depend on max_width' % len(wsw), where=b.where(), cfg=cfg)
    W = set()
    all_blocks = b.reachable(0)
    for sw in wsw:
        for outc, t in sw.edges.items():
            other = [x for o, x in sw.edges.items() if x != t]
            # blocks reachable only through this edge
            without = reachable_edges(b, 0, removed_edges=[(sw.b, t)])
            W |= (all_blocks - without)
    content = []
    for c in writes:
        is_content = False
        if c.is_(r'Color::push_str$'):
            is_content = True; txt = c.args[3]
        elif c.is_(r'String::push_str$'):
            rs = provenance(b, c.args[1], c.bb, 'term')
            is_content = not all(r.kind == 'const' for r in rs)
            txt = c.args[1]
        if is_content:
            rs = provenance(b, txt, c.bb, 'term')
            from_chunk = bool(rs) and all(r.kind == 'call' and r.call.is_(r'Splitter.*next$') and r.path[:2] == ['as Some', '0'] for r in rs)
            pad = bool(rs) and all(r.kind == 'const' and isinstance(r.what, str) and r.what.strip(' ') == '' for r in rs)
            if pad:
                continue
            content.append(c)
            ctx.ob('C.constants', 'render_console:content-push:%s' % c.name.split('::')[-2], from_chunk, 'the text pushed by %s is the chunk produced by the splitter: %s' % (short(c.name), from_chunk), where=c.where(), cfg=cfg)
    inW = [c for c in content if c.bb in W]
    ctx.ob('W.width', 'render_console:no-content-under-width-test', not inW and bool(content), 'no text is pushed in the region that exists only because of a width comparison (%d content push site(s), %d inside)' % (len(content), len(inW)), where=b.where(), cfg=cfg)
    for c in writes:
        if c in content: continue
        where_ = 'width-region' if c.bb in W else 'elsewhere'
        if c.is_(r'String::push$'):
            rs = provenance(b, c.args[1], c.bb, 'term')
            vals = sorted({r.what for r in rs if r.kind == 'const'})
            allowed = {'\n'} if c.bb in W else {'\n', '`'}
            ok = bool(rs) and all(r.kind == 'const' for r in rs) and set(vals) <= allowed
            ctx.ob('W.width' if c.bb in W else 'C.constants', 'render_console:push:%s:%s' % (where_, '+'.join(repr(v) for v in vals)), ok, 'push(%s) in the %s' % (vals, where_), where=c.where(), cfg=cfg)
        elif c.is_(r'String::push_str$'):
            rs = provenance(b, c.args[1], c.bb, 'term')
            ok = bool(rs) and all(r.kind == 'const' and isinstance(r.what, str) and r.what.strip(' ') == '' for r in rs) and c.bb not in W
            ctx.ob('C.constants', 'render_console:padding:%s' % where_, ok, 'push_str of a slice of the all-spaces padding constant: %s' % ok, where=c.where(), cfg=cfg)
        elif c.is_(r'String::truncate$'):
            rs = provenance(b, c.args[1], c.bb, 'term', through=None)
            ok = bool(rs)
            for r in rs:
                g = r.kind == 'call' and r.call.is_(r'str::<impl str>::len$')
                if g:
                    inner = provenance(b, r.call.args[0], r.call.bb, 'term', through=None)
                    g = bool(inner) and all(q.kind == 'call' and q.call.is_(r'str::<impl str>::trim_end$') and on_res(q.call) or
                                            (q.kind == 'call' and q.call.is_(r'str::<impl str>::trim_end$') and all(z.kind == 'call' and z.call.dest == [res, []] for z in provenance(b, q.call.args[0], q.call.bb, 'term'))) for q in inner)
                ok &= g
            ctx.ob('W.width' if c.bb in W else 'C.constants', 'render_console:truncate:%s' % where_, ok, 'the output is truncated only to the length of its own trim_end() (only trailing whitespace is removed): %s' % ok, where=c.where(), cfg=cfg)
        else:
            ctx.ob('C.constants', 'render_console:other-write:%s' % c.name.split('::')[-1], False, 'unexpected mutation of the output: %s' % c.name, where=c.where(), cfg=cfg)
    # chunk loop: Raw arm
    csw = [s for s in switches(b) if s.kind == 'enum' and s.enum and s.enum.endswith('splitter::Chunk')]
    nx = [c for c in b.calls() if c.is_(r'Splitter.*Iterator>::next$')]
    # the match over the chunk is the test that dominates any further look at the same chunk (`matches!(chunk, Chunk::Paragraph)` inside a merged arm)
    main = [s_ for s_ in csw if all(b.dominates(s_.b, o_.b) for o_ in csw)]
    if len(main) != 1 or len(nx) != 1:
        raise Broken('render_console: chunk loop not found (%d switches, %d next calls)' % (len(csw), len(nx)))
    csw2 = [s_ for s_ in csw if s_ is not main[0]]
    csw = main[0]; header = nx[0].bb
    raw = csw.target('Raw')
    # the single-space skip: an edge inside W whose condition compares the chunk text with " "
    skip_edges = []
    for sw in switches(b):
        if sw.kind == 'bool' and sw.b in W | {x for x in W}:
            for r in sw.roots:
                if r.kind == 'call' and r.call.is_(r'PartialEq.*>::eq$'):
                    consts = [q.what for a in r.call.args for q in provenance(b, a, r.call.bb, 'term') if q.kind == 'const']
                    chunk = any(q.kind == 'call' and q.call.is_(r'Splitter.*next$') for a in r.call.args for q in provenance(b, a, r.call.bb, 'term'))
                    if consts == [' '] and chunk:
                        skip_edges.append((sw.b, sw.target(True)))
    # the wrap itself (newline pushed inside the width region) must happen WHENEVER the chunk does not fit: the only
    # conditions it may depend on, inside the Raw arm, are the width comparison and "the output is not empty"
    arm = reachable_edges(b, raw, avoid=[header])
    wraps = [c for c in writes if c.bb in W and c.is_(r'String::push$')]
    extra = []; n_width = 0; shape = True
    def too_wide_edge(sw):
        """the outcome of sw that means `position + length > max_width`, or None when sw is not that comparison
        (accepted spellings: sum > w, !(sum <= w), w < sum, !(w >= sum))"""
        for r in sw.roots:
            if r.kind == 'bin' and r.extra['op'] in ('Gt', 'Lt', 'Ge', 'Le'):
                sides = [provenance(b, r.extra[k_], r.site[0], r.site[1], through=None) for k_ in ('a', 'b')]
                has_w = [bool(x) and all(q.kind == 'param' and q.what == 'max_width' for q in x) for x in sides]
                has_sum = [bool(x) and all(q.kind == 'bin' and q.extra['op'].startswith('Add') for q in x) for x in sides]
                if has_sum[0] and has_w[1]:
                    return {'Gt': True, 'Le': False}.get(r.extra['op'])
                if has_w[0] and has_sum[1]:
                    return {'Lt': True, 'Ge': False}.get(r.extra['op'])
        return None
    for c in wraps:
        for (a, s_) in b.transitive_control_deps(c.bb):
            if a not in arm or a == csw.b:
                continue
            sw = Switch(b, a)
            if any(sw.b == x.b for x in wsw):
                n_width += 1
                tw = too_wide_edge(sw)
                if tw is None or s_ != sw.target(tw):
                    shape = False; extra.append('width-dependent condition at %s that is not `position + length > max_width`' % span_str(b.term(a).get('span')))
                continue
            if sw.kind == 'bool' and sw.roots and all((r.kind == 'call' and r.call.is_(r'String::is_empty$', r'str::<impl str>::is_empty$') and on_res(r.call)) or
                                                      (r.kind == 'un' and all(q.kind == 'call' and q.call.is_(r'String::is_empty$') for q in provenance(b, r.extra['a'], r.site[0], r.site[1], through=None))) for r in sw.roots):
                continue
            extra.append('%s' % span_str(b.term(a).get('span')))
    shape = shape and n_width == len(wraps)
    ctx.ob('W.width', 'render_console:wrap-whenever-too-wide', bool(wraps) and n_width >= 1 and not extra and shape,
           'the line break before a chunk that does not fit depends only on `position + chunk length > max_width` and on the output being non-empty (%d wrap site(s); other conditions at %s; comparison shape ok: %s)' % (len(wraps), extra or 'none', shape), where=b.where(), cfg=cfg)
    stop = {c.bb for c in content}
    reach = reachable_edges(b, raw, removed_edges=skip_edges, avoid=stop)
    ok = header not in reach and not any(r in reach for r in b.return_blocks())
    ctx.ob('O.once', 'render_console:raw-chunk-pushed', ok and bool(content), 'from the Chunk::Raw arm every way to the next chunk passes a push of the chunk text, except the single-space skip after a wrap (%d skip edge(s)): %s' % (len(skip_edges), ok), where=b.where(raw), cfg=cfg)
    # at most once: after a content push the next content push is only reachable through the loop header
    twice = False
    for c in content:
        r2 = reachable_edges(b, c.target, avoid=[header])
        if any(o.bb in r2 for o in content):
            twice = True
    ctx.ob('O.once', 'render_console:raw-chunk-once', not twice, 'a chunk is pushed at most once per iteration: %s' % (not twice), where=b.where(raw), cfg=cfg)
    # skip edges are the only chunk-dropping continue and they compare with a single space
    ctx.ob('W.width', 'render_console:only-space-skipped', len(skip_edges) <= 1 and all(e[0] in W for e in skip_edges), 'the only chunk that can be skipped after a wrap is one that equals " " (%d such edge)' % len(skip_edges), where=b.where(), cfg=cfg)
    # full
    fsw = [sw for sw in switches(b) if sw.kind == 'bool' and any(r.kind == 'param' and r.what == 'full' for r in sw.roots) or
           (sw.kind == 'bool' and any(r.kind == 'un' and any(q.kind == 'param' and q.what == 'full' for q in provenance(b, r.extra['a'], r.site[0], r.site[1], through=None)) for r in sw.roots))]
    par = csw.target('Paragraph')
    # edges a chunk of another kind cannot take / a Paragraph chunk cannot take, at the secondary tests of the same chunk
    dec = variant_edges(b, csw.enum, 'Paragraph', lambda s_: s_.b != csw.b) if csw2 else []
    par_only = list(dec)
    not_par = [(a_, t2) for (a_, t_) in dec for t2 in set(Switch(b, a_).edges.values()) if t2 != t_]
    others = {t_ for o_, t_ in csw.edges.items() if o_ != 'Paragraph'}
    # reached by a chunk that is not a paragraph break, before the next chunk is fetched
    foreign = set()
    for t_ in others:
        foreign |= reachable_edges(b, t_, removed_edges=par_only, avoid=[header])
    ok = len(fsw) == 1 and (only_via_edge(b, csw.b, par, fsw[0].b) if not csw2 else fsw[0].b not in foreign and fsw[0].b in reachable_edges(b, par, removed_edges=not_par, avoid=[header]))
    ctx.ob('F.full', 'render_console:full-only-after-paragraph', ok, '`full` is tested in exactly one place, inside the Paragraph arm (%d test(s)): %s' % (len(fsw), ok), where=b.where(), cfg=cfg)
    # ... and every paragraph break gets there: no way from the Paragraph arm to the next chunk (or out of the function) around the test
    nxt = [c.bb for c in b.calls() if c.is_(r'Splitter.*Iterator>?::next$') or c.is_(r'Iterator>?::next$')]
    if len(fsw) == 1:
        around = reachable_edges(b, par, removed_edges=not_par, avoid=[fsw[0].b])
        leak = sorted(x for x in around if x in nxt or b.term(x)['k'] == 'return')
        ctx.ob('F.full', 'render_console:every-paragraph-break-asks-full', par is not None and not leak and bool(nxt),
               'from the Paragraph arm every way to the next chunk passes the `full` test (a paragraph break that is not seen leaves the short form running into the second paragraph): %s' % ([b.where(x) for x in leak] or 'ok'), where=b.where(par if par is not None else 0), cfg=cfg)
    en = [c for c in b.calls() if c.is_(r'buffer::Skip::enable$')]
    ok2 = len(en) == 1 and len(fsw) == 1 and any(only_via_edge(b, fsw[0].b, t, en[0].bb) for o, t in fsw[0].edges.items())
    if len(en) == 1 and len(fsw) == 1:
        # in the short form EVERY paragraph break starts the skipping: nothing else (nesting depth, margins ..) has a say
        neg = any(r.kind == 'un' for r in fsw[0].roots)
        t_short = fsw[0].target(True) if neg else fsw[0].target(False)
        leak2 = sorted(x for x in reachable_edges(b, t_short, avoid=[en[0].bb]) if x in nxt or b.term(x)['k'] == 'return') if t_short is not None else ['?']
        ctx.ob('F.full', 'render_console:short-form-always-starts-skipping', not leak2,
               'on the short-form edge of the `full` test every way on passes Skip::enable: %s' % ([b.where(x) for x in leak2 if x != '?'] or 'ok'), where=b.where(en[0].bb), cfg=cfg)
    uses_full = [1 for c in b.calls() for a in c.args for r in provenance(b, a, c.bb, 'term', through=None) if r.kind == 'param' and r.what == 'full']
    ctx.ob('F.full', 'render_console:full-controls-skip-only', ok2 and not uses_full, 'the only effect of `full` is to start skipping after the first paragraph (Skip::enable on one edge of that test): %s' % ok2, where=b.where(), cfg=cfg)

def term_gap(ctx, cfg, fs, rule='W.width'):
    """an item's help text starts on the line of its term when the term sticks out past the tab stop; what keeps the two apart is the
    top-up to two blanks made under `pending_margin`.  That top-up must be able to run whichever way the ordinary padding to the margin
    went: also after a padding of zero or one blank (term ending exactly on, or one column before, the margin) - otherwise the last word
    of the term and the first word of the help become one word.  Structural part decided: the padding site that depends on
    `pending_margin` is reachable from the Some edge AND from the None edge of the `margin.checked_sub(char_pos)` test."""
    b = ctx.look(fs.one(r'impl buffer::Doc>::render_console$'))
    cs = [c for c in b.calls() if c.is_(r'usize>::checked_sub$')]
    pads = []
    for c in b.calls():
        if not c.is_(r'String::push_str$'): continue
        rs = provenance(b, c.args[1], c.bb, 'term')
        if not (rs and all(r.kind == 'const' and isinstance(r.what, str) and r.what.strip(' ') == '' for r in rs)): continue
        deps = [Switch(b, a_) for (a_, s_) in b.transitive_control_deps(c.bb) if b.term(a_)['k'] == 'switch']
        if any(sw.kind == 'bool' and any(r.kind in ('local', 'param') and r.what == 'pending_margin' for r in (sw.roots or [])) or
               (sw.kind == 'bool' and op_place(sw.t['op']) and b.local_names.get(op_place(sw.t['op'])[0]) == 'pending_margin') or
               (sw.kind == 'bool' and switch_reads_named_local(b, sw) and any(b.local_names.get(l_) == 'pending_margin' for l_ in _read_locals(b, sw))) for sw in deps):
            pads.append(c)
    if not cs or not pads:
        raise Broken('render_console: the margin padding (checked_sub) or the pending_margin top-up was not found (%d/%d)' % (len(cs), len(pads)))
    bad = []
    for c in cs:
        sw = switch_on_call(b, c)
        if sw is None or sw.kind != 'enum': continue
        for v in ('Some', 'None'):
            t = sw.target(v)
            if t is None or not any(p.bb in reachable_edges(b, t, avoid=[c.bb]) for p in pads):
                bad.append('not reachable after checked_sub gave %s' % v)
    ctx.ob(rule, 'render_console:term-gap-top-up-after-any-padding', not bad, 'the two-blank top-up under pending_margin (%d site(s)) can follow the padding to the margin whatever it pushed: %s' % (len(pads), bad or 'ok'), where=pads[0].where(), cfg=cfg)

def _read_locals(b, sw):
    opp = op_place(sw.t['op'])
    out = set()
    if opp is None: return out
    out.add(opp[0])
    for (_, _, k, st) in reaching_defs(b, opp[0], sw.b, 'term'):
        if k == 'assign' and st['rv']['k'] == 'use' and op_place(st['rv']['op']):
            out.add(op_place(st['rv']['op'])[0])
    return out

def split_whole(ctx, cfg, fs):
    """every text fragment gets its own splitter, and styled documents store each style run as a fragment: a paragraph break can be the
    very START of a fragment.  `split` hands the fragment to the splitter as it is - trimmed or otherwise prepared input loses
    exactly those leading line breaks (and with them the end of the first paragraph in the short form)."""
    b = ctx.look(fs.one(r'^buffer::splitter::split$'))
    ok = False; desc = 'no Splitter aggregate'
    for i, k, st in b.stmts():
        if st['k'] == 'assign' and st['rv']['k'] == 'agg' and st['rv'].get('adt', '').endswith('splitter::Splitter'):
            names = st['rv'].get('field_names') or []
            if 'input' in names:
                rs = provenance(b, st['rv']['fields'][names.index('input')], i, k, through=None)
                ok = bool(rs) and all(r.kind == 'param' and not r.path for r in rs)
                desc = sorted({(r.kind, r.what if r.kind != 'call' else r.call.name.split('::')[-1]) for r in rs})
    calls = [c.name.split('::')[-1] for c in b.calls()]
    ctx.ob('S.splitter', 'split:fragment-handed-over-whole', ok and not calls, 'split() builds the Splitter over its parameter itself (%s; calls made: %s)' % (desc, calls or 'none'), where=b.where(), cfg=cfg)

def width_source(ctx, cfg, fs):
    m = ctx.look(fs.one(r'buffer::console::<impl buffer::Doc>::monochrome$'))
    rc = [c for c in m.calls() if c.is_(r'render_console$')]
    ok = len(rc) == 1 and all(r.kind == 'const' and r.extra.get('def', '').endswith('MAX_WIDTH') or (r.kind == 'const' and r.what == 100) for r in provenance(m, rc[0].args[3], rc[0].bb, 'term'))
    ctx.ob('P.width-source', 'monochrome:max-width', ok, 'monochrome() renders with the MAX_WIDTH constant: %s' % ok, where=m.where(), cfg=cfg)
    d = ctx.look(fs.one(r'^<buffer::Doc as std::fmt::Display>::fmt$'))
    rc = [c for c in d.calls() if c.is_(r'render_console$')]
    ok = len(rc) == 1
    if ok:
        rs = provenance(d, rc[0].args[3], rc[0].bb, 'term', through=None)
        ok = bool(rs) and all(r.kind == 'call' and r.call.is_(r'Option::<.*>::unwrap_or$') for r in rs)
        for r in rs:
            if r.kind == 'call':
                a0 = provenance(d, r.call.args[0], r.call.bb, 'term', through=None); a1 = provenance(d, r.call.args[1], r.call.bb, 'term')
                ok &= all(q.kind == 'call' and q.call.is_(r'Formatter::<.*>::width$') for q in a0) and all(q.kind == 'const' for q in a1)
    ctx.ob('P.width-source', 'Display:width-or-max', ok, 'Display for Doc renders with f.width().unwrap_or(MAX_WIDTH): %s' % ok, where=d.where(), cfg=cfg)
    p = ctx.look(fs.one(r'^error::ParseFailure::print_message$'))
    rc = [c for c in p.calls() if c.is_(r'render_console$')]
    ok = len(rc) == 2 and all(all(r.kind == 'param' and r.what == 'max_width' for r in provenance(p, c.args[3], c.bb, 'term')) for c in rc)
    ctx.ob('P.width-source', 'print_message:parameter', ok, 'print_message renders with its max_width parameter (%d render calls): %s' % (len(rc), ok), where=p.where(), cfg=cfg)

# str methods whose results are sub-slices of the receiver (never new text)
STR_SUBSLICE = r'str::<impl str>::(strip_prefix|strip_suffix|split_once|rsplit_once|split_at|split_at_checked|get|get_unchecked|trim\w*|split_first\w*)$'

def splitter(ctx, cfg, fs):
    b = ctx.look(fs.one(r"^<buffer::splitter::Splitter<'a> as std::iter::Iterator>::next$"))
    raws = []
    for i, k, st in b.stmts():
        if st['k'] == 'assign' and st['rv']['k'] == 'agg' and st['rv'].get('adt', '').endswith('splitter::Chunk') and st['rv'].get('variant') == 'Raw':
            raws.append((i, k, st))
    good = bool(raws); kinds = set()
    for (i, k, st) in raws:
        rs = provenance(b, st['rv']['fields'][0], i, k, through=DEFAULT_THROUGH + [r'core::str::traits::<impl .* for str>::index$', STR_SUBSLICE])
        for r in rs:
            if r.kind == 'const' and r.what == ' ':
                kinds.add('single space')
            elif r.kind == 'param' and r.what == 'self' and r.path[:1] == ['input']:
                kinds.add('slice of the input')
            else:
                kinds.add('%s:%s' % (r.kind, r.what)); good = False
    ctx.ob('S.splitter', 'Splitter::next:raw-is-input-slice', good and 'slice of the input' in kinds, 'every Chunk::Raw carries %s (text is never synthesised or altered)' % sorted(kinds), where=b.where(), cfg=cfg)
    # input only ever shrinks to a suffix of itself
    good = True; n = 0
    for i, k, st in b.stmts():
        if st['k'] == 'assign' and place_fields(st['lhs']) == ['input']:
            n += 1
            rs = provenance(b, st['rv']['op'], i, k, through=DEFAULT_THROUGH + [r'core::str::traits::<impl .* for str>::index$', STR_SUBSLICE]) if st['rv']['k'] == 'use' else []
            good &= bool(rs) and all((r.kind == 'param' and r.what == 'self' and r.path[:1] == ['input']) or (r.kind == 'const' and r.what == '') for r in rs)
    ctx.ob('S.splitter', 'Splitter::next:input-is-suffix', good and n >= 5, 'the remaining input is always re-assigned from a sub-slice of itself or "" (%d assignments): %s' % (n, good), where=b.where(), cfg=cfg)
    # ... and each step cuts a BOUNDED piece off the front (a constant prefix, up to a separator found by search, a computed
    # offset): `trim*` removes a run of unknown length and treats '\n' as whitespace, so a blank line - the paragraph break the
    # short help ends at - can vanish together with the indentation somebody meant to drop
    STR_CUT = r'str::<impl str>::(strip_prefix|strip_suffix|split_once|rsplit_once|split_at|split_at_checked|get|get_unchecked|split_first\w*)$'
    unb = []
    for i, k, st in b.stmts():
        if st['k'] == 'assign' and place_fields(st['lhs']) == ['input'] and st['rv']['k'] == 'use':
            for r in provenance(b, st['rv']['op'], i, k, through=DEFAULT_THROUGH + [r'core::str::traits::<impl .* for str>::index$', STR_CUT]):
                if r.kind == 'call' and r.call.is_(r'str::<impl str>::trim'):
                    unb.append('%s at %s' % (r.call.name.split('::')[-1], b.where(r.call.bb)))
    ctx.ob('S.splitter', 'Splitter::next:input-cut-is-bounded', not unb, 'the remaining input never loses an unbounded run of characters (trim*): %s' % (unb or 'ok'), where=b.where(), cfg=cfg)
    # the width handed out with a word is its number of characters: in the loop form the counter is incremented on EVERY way
    # around the scan loop (no character class is exempt); in the find form it is head.chars().count()
    ci = [c for c in b.calls() if c.is_(r'CharIndices.*Iterator>::next$')]
    how = None; wok = False
    if len(ci) == 1 and ci[0].target is not None:
        loop = reachable_edges(b, ci[0].target) & {x for x in b.reachable(0) if ci[0].bb in reachable_edges(b, x)}
        incs = {i for i, k, st in b.stmts() if i in loop and st['k'] == 'assign' and st['rv']['k'] == 'bin' and st['rv']['op'].startswith('Add') and (op_const(st['rv']['b']) or {}).get('v') == 1}
        # every back edge to the next() call passes an increment
        around = reachable_edges(b, ci[0].target, avoid=list(incs))
        wok = bool(incs) and ci[0].bb not in around
        how = 'scan loop: +1 on every way around (%d increment site(s))' % len(incs)
    else:
        for (i, k, st) in raws:
            rs = provenance(b, st['rv']['fields'][1], i, k, through=None)
            if rs and any(r.kind == 'call' and r.call.is_(r'Iterator>?::count$') and 'Chars' in r.call.full for r in rs):
                wok = True; how = 'chars().count() of the word'
    ctx.ob('S.splitter', 'Splitter::next:width-counts-every-character', wok, 'the width reported with a word counts every character of it: %s' % (how or 'no counting form recognised'), where=b.where(), cfg=cfg)
    # a fenced block ends at a line that STARTS with the fence, exactly as it begins at one: every test against the fence literal is a
    # prefix test (an equality test would keep "``` " or "````" - and all the prose after it - inside the unwrapped code block)
    fence = []
    for c in b.calls():
        ks = [r.what for a in c.args for r in provenance(b, a, c.bb, 'term') if r.kind == 'const' and isinstance(r.what, str) and '```' in r.what]
        if ks:
            fence.append((c.name.split('::')[-1], c.is_(r'str::<impl str>::(starts_with|strip_prefix)')))
    ctx.ob('S.splitter', 'Splitter::next:fence-tests-are-prefix-tests', len(fence) >= 2 and all(ok_ for (_, ok_) in fence), 'the code-fence literal is used with %s' % sorted({n_ for (n_, _) in fence}), where=b.where(), cfg=cfg)
    sk = fs.adt('buffer::Skip')
    tys = [f['ty'] for f in sk['variants'][0]['fields']] if sk and sk.get('variants') else []
    ctx.ob('S.splitter', 'Skip:is-a-depth-counter', tys == ['usize'], 'buffer::Skip holds %s (inline blocks nest: "skipping since depth n" needs a counter, a flag would be cleared by the first nested block that ends)' % tys, cfg=cfg)
    ch = fs.adt('buffer::splitter::Chunk')
    ctx.ob('S.splitter', 'Chunk:variants', [v['name'] for v in ch['variants']] == ['Raw', 'Paragraph', 'LineBreak'], 'Chunk has the variants %s' % [v['name'] for v in ch['variants']], cfg=cfg)
