"""Differential MIR between two feature configurations of the same source tree: statements and terminators
are aligned by their source span (same files, same run), never by local or block numbers."""
import re
from core import *
from dataflow import *

def sig_of_stmt(body, st):
    if st['k'] == 'assign':
        rv = st['rv']; k = rv['k']
        extra = ''
        if k == 'agg':
            extra = rv.get('adt', rv.get('closure', rv['agg'])) + ('::' + rv['variant'] if rv.get('variant') else '')
        elif k in ('bin', 'un'):
            extra = rv['op']
        elif k == 'use' and rv['op'][0] == 'c':
            c = rv['op'][1]
            extra = 'const:%s' % (repr(c.get('v', c.get('fn', c.get('def', ''))))[:40])
        elif k == 'cast':
            extra = rv['kind'][:20]
        lhs_fields = '.'.join(place_fields(st['lhs']))
        return 'assign:%s:%s:%s' % (k, extra, lhs_fields)
    if st['k'] == 'setdiscr':
        return 'setdiscr:%s' % st['variant']
    return st['k']

def sig_of_term(body, bb, t):
    k = t['k']
    if k in ('call', 'tailcall'):
        c = Call(body, bb, t)
        nm = c.names[0] if c.names else 'indirect'
        nm = re.sub(r'\{closure@[^}]*\}', '{closure}', nm)
        return 'call:%s' % nm
    if k == 'switch':
        return 'switch:%s' % t['ty']
    if k == 'assert':
        return 'assert:%s' % t['msg']
    if k == 'drop':
        return 'drop'
    return k

def span_key(sp):
    return (sp['file'], sp['line'], sp['col'], sp.get('end_line'), sp.get('end_col'))

class Item:
    __slots__ = ('body', 'bb', 'idx', 'sig', 'span', 'st')
    def __init__(self, body, bb, idx, sig, span, st):
        self.body = body; self.bb = bb; self.idx = idx; self.sig = sig; self.span = span; self.st = st
    def key(self):
        return (span_key(self.span), self.sig)
    def where(self):
        return '%s (%s)' % (self.body.path, span_str(self.span))

TRIVIAL = re.compile(r'^(goto|return|unreachable|resume|drop|assign:use:const:(True|False|\(\)|None):$|assign:use:const:.*:$)')

def items_of(body):
    out = []
    for i, blk in enumerate(body.blocks):
        if blk['cleanup']:
            continue
        for k, st in enumerate(blk['stmts']):
            if st['k'] not in ('assign', 'setdiscr'):
                continue
            out.append(Item(body, i, k, sig_of_stmt(body, st), st['span'], st))
        t = blk['term']
        if t['k'] in ('goto', 'return', 'unreachable', 'resume', 'drop', 'terminate'):
            continue
        out.append(Item(body, i, 'term', sig_of_term(body, i, t), t['span'], t))
    return out

def is_flag_or_unit(item):
    """drop flags / unit temporaries: `_n = const bool` on an unnamed bool local, `_n = const ()`"""
    if item.idx == 'term' or item.st['k'] != 'assign':
        return False
    lhs = item.st['lhs']; rv = item.st['rv']
    if lhs[1] or rv['k'] != 'use' or rv['op'][0] != 'c':
        return False
    if (item.span or {}).get('exp') == 'cfg!':
        return False          # the value of `cfg!(..)`: a constant that differs between feature configurations and steers a branch
    ty = item.body.local_ty(lhs[0])
    named = lhs[0] in item.body.local_names
    if ty == '()' :
        return True
    if ty == 'bool' and not named:
        return True
    return False

def diff_bodies(a, b):
    """(only_in_a, only_in_b) lists of Items, by span+signature multiset"""
    from collections import defaultdict
    ia = defaultdict(list); ib = defaultdict(list)
    for it in items_of(a):
        if not is_flag_or_unit(it): ia[it.key()].append(it)
    for it in items_of(b):
        if not is_flag_or_unit(it): ib[it.key()].append(it)
    only_a = []; only_b = []
    for k in set(ia) | set(ib):
        na, nb = len(ia.get(k, [])), len(ib.get(k, []))
        if na > nb: only_a += ia[k][nb:]
        if nb > na: only_b += ib[k][na:]
    return only_a, only_b
