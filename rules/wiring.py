"""Wiring of the builder API: what each constructor / builder method of the combinator API puts into which field of the
parser value it returns, as a table (field <- parameter | constant | self field), computed from the MIR and compared with
the reviewed table below.  The parsers' eval functions are checked elsewhere under the assumption that `catch` is false
unless asked for, that `short('v')` ends up in the list of SHORT names, that `positional()` starts unrestricted ..: this is
where those assumptions are discharged.  A builder that stores a value in the wrong field, flips a default or forgets to
carry a field compiles, keeps every test that does not use exactly that combination green, and changes the language."""
import re
from core import *
from dataflow import *
from cfgq import *

THROUGH = DEFAULT_THROUGH + [r'Into<.*>>::into$', r'From<.*>>::from$']

def descr(b, op, i, k, depth=0):
    out = set()
    for r in provenance(b, op, i, k, through=THROUGH):
        if r.kind == 'param':
            out.add('param:%s%s' % (r.what, ('.' + '.'.join(r.path)) if r.path else ''))
        elif r.kind == 'const':
            out.add('const:%r' % (r.what,))
        elif r.kind == 'agg':
            nm = r.what.split('::')[-1]
            if nm == 'PhantomData':
                out.add('PhantomData')
            elif depth < 2 and r.extra.get('fields') is not None:
                names = r.extra.get('field_names') or [str(x) for x in range(len(r.extra['fields']))]
                inner = ','.join('%s=%s' % (n, '|'.join(sorted(descr(b, f, r.site[0], r.site[1], depth + 1)))) for n, f in zip(names, r.extra['fields'])
                                 if 'PhantomData' not in (b.local_ty((op_place(f) or [0])[0]) or '') or True)
                out.add('%s{%s}' % (nm, inner))
            else:
                out.add(nm)
        elif r.kind == 'call' and r.call.is_(r'box_assume_init_into_vec_unsafe$', r'slice::<impl \[T\]>::into_vec$', r'from_elem'):
            arrs = [(i2, k2, st2) for i2, k2, st2 in b.stmts() if st2['k'] == 'assign' and st2['rv']['k'] == 'agg' and st2['rv'].get('agg') == 'array']
            if len(arrs) == 1:
                i2, k2, st2 = arrs[0]
                out.add('vec![%s]' % ','.join('|'.join(sorted(descr(b, f, i2, k2, depth + 1))) for f in st2['rv']['fields']))
            else:
                out.add('vec![?]')
        elif r.kind == 'call':
            nm = r.call.name
            tail = '::'.join(x for x in re.sub(r'<[^<>]*>', '', re.sub(r'<[^<>]*>', '', nm)).split('::') if x)
            tail = '::'.join(tail.split('::')[-2:])
            if r.call.is_(r'^params::build_\w+$') and depth < 2:
                tail += '(%s)' % ', '.join('|'.join(sorted(descr(b, a, r.call.bb, 'term', depth + 1))) for a in r.call.args)
            out.add('call:%s%s' % (tail, ('.' + '.'.join(r.path)) if r.path else ''))
        else:
            out.add('%s:%s' % (r.kind, r.what))
    return out

def summarize(b):
    out = []
    for rb in b.return_blocks():
        for d in sorted(descr(b, ['cp', [0, []]], rb, 'term')):
            out.append('ret <- ' + d)
    for i, k, st in b.stmts():
        if st['k'] == 'assign' and st['lhs'][1]:
            fa = [pr[2] for pr in st['lhs'][1] if pr[0] == 'f']
            if not fa or fa[0] in ('value',):      # MaybeUninit internals of vec![]
                continue
            if st['rv']['k'] == 'use':
                ds = sorted(d for d in descr(b, st['rv']['op'], i, k) if not d.startswith('other:undefined'))
                if ds:
                    out.append('set .%s <- %s' % ('.'.join(fa), '|'.join(ds)))
            elif st['rv']['k'] == 'agg':
                out.append('set .%s <- %s' % ('.'.join(fa), st['rv'].get('variant') or st['rv'].get('adt')))
    for c in b.calls():
        if c.is_(r'Vec::<.*>::(push|insert)$', r'Extend<.*>>::extend$'):
            out.append('%s(%s, %s)' % (c.name.split('::')[-1], '|'.join(sorted(descr(b, c.args[0], c.bb, 'term'))), '|'.join(sorted(descr(b, c.args[-1], c.bb, 'term')))))
    return sorted(set(out))

# ---- the reviewed table.  One line of reason per group; entries are what the documentation of the method promises.
W = {}
def _w(path, *lines):
    W[path] = sorted(lines)

# repetition / optionality wrappers wrap `self` and do NOT catch conversion failures unless .catch() is called
_w('Parser::many', 'ret <- ParseMany{inner=param:self,catch=const:False}')
_w('Parser::some', 'ret <- ParseSome{inner=param:self,message=param:message,catch=const:False}')
_w('Parser::optional', 'ret <- ParseOptional{inner=param:self,catch=const:False}')
_w('Parser::collect', 'ret <- ParseCollect{inner=param:self,catch=const:False,ctx=PhantomData}')
_w('Parser::count', 'ret <- ParseCount{inner=param:self,ctx=PhantomData}')
_w('Parser::last', 'ret <- ParseLast{inner=param:self}')
for _s in ('structs::ParseMany::<P>::catch', 'structs::ParseSome::<P>::catch', 'structs::ParseOptional::<P>::catch', 'structs::ParseCollect::<P, C, T>::catch'):
    _w(_s, 'ret <- param:self', 'set .catch <- const:True')
# value transformers keep the inner parser and store the user's function / message / value
_w('Parser::map', 'ret <- ParseMap{inner=param:self,inner_res=PhantomData,map_fn=param:map,res=PhantomData}')
_w('Parser::parse', 'ret <- ParseWith{inner=param:self,inner_res=PhantomData,parse_fn=param:f,res=PhantomData,err=PhantomData}')
_w('Parser::guard', 'ret <- ParseGuard{inner=param:self,check=param:check,message=param:message}')
_w('Parser::fallback', 'ret <- ParseFallback{inner=param:self,value=param:value,value_str=call:String::new}')
_w('Parser::fallback_with', 'ret <- ParseFallbackWith{inner=param:self,inner_res=PhantomData,fallback=param:fallback,value_str=call:String::new,err=PhantomData}')
_w('Parser::hide', 'ret <- ParseHide{inner=param:self}')
_w('Parser::group_help', 'ret <- ParseGroupHelp{inner=param:self,message=param:message}')
_w('Parser::with_group_help', 'ret <- ParseWithGroupHelp{inner=param:self,f=param:f}')
_w('Parser::custom_usage', 'ret <- ParseUsage{inner=param:self,usage=param:usage}')
_w('pure', 'ret <- ParsePure{0=param:val}')
_w('pure_with', 'ret <- ParsePureWith{0=param:val}')
_w('fail', 'ret <- ParseFail{field1=param:msg,field2=PhantomData}')
# names: each constructor starts ONE list with its argument, each method appends to the list of its own kind
_w('short', 'ret <- NamedArg{short=vec![param:short],long=call:Vec::new,env=call:Vec::new,help=None{}}')
_w('long', 'ret <- NamedArg{short=call:Vec::new,long=vec![param:long],env=call:Vec::new,help=None{}}')
_w('env', 'ret <- NamedArg{short=call:Vec::new,long=call:Vec::new,env=vec![param:variable],help=None{}}')
_w('params::NamedArg::short', 'push(param:self.short, param:short)', 'ret <- param:self')
_w('params::NamedArg::long', 'push(param:self.long, param:long)', 'ret <- param:self')
_w('params::NamedArg::env', 'push(param:self.env, param:variable)', 'ret <- param:self')
_w('params::NamedArg::help', 'ret <- param:self', 'set .help <- Some{0=param:help}')
# consumers: switch = present true / absent false, flag = both given, req_flag = no absent value; argument is not adjacent-only
_w('params::NamedArg::switch', 'ret <- call:params::build_flag_parser(const:True, Some{0=const:False}, param:self)')
_w('params::NamedArg::flag', 'ret <- call:params::build_flag_parser(param:present, Some{0=param:absent}, param:self)')
_w('params::NamedArg::req_flag', 'ret <- call:params::build_flag_parser(param:present, None{}, param:self)')
_w('params::NamedArg::argument', 'ret <- call:params::build_argument(param:self, param:metavar)')
_w('params::build_flag_parser', 'ret <- ParseFlag{present=param:present,absent=param:absent,named=param:named}')
_w('params::build_argument', 'ret <- ParseArgument{ty=PhantomData,named=param:named,metavar=param:metavar,adjacent=const:False}')
_w('params::ParseArgument::<T>::adjacent', 'ret <- param:self', 'set .adjacent <- const:True')
_w('params::ParseArgument::<T>::help', 'ret <- param:self', 'set .named.help <- Some{0=param:help}')
_w('params::ParseFlag::<T>::help', 'ret <- param:self', 'set .named.help <- Some{0=param:help}')
# positionals start unrestricted and without help
_w('positional', 'ret <- call:params::build_positional(param:metavar)')
_w('params::build_positional', 'ret <- ParsePositional{metavar=param:metavar,help=None{},position=Unrestricted{},ty=PhantomData}')
_w('params::ParsePositional::<T>::help', 'ret <- param:self', 'set .help <- Some{0=param:help}')
_w('params::ParsePositional::<T>::strict', 'ret <- param:self', 'set .position <- Strict{}')
_w('params::ParsePositional::<T>::non_strict', 'ret <- param:self', 'set .position <- NonStrict{}')
# any: front-only unless .anywhere()
_w('params::ParseAny::<T>::anywhere', 'ret <- param:self', 'set .anywhere <- const:True')
_w('params::ParseAny::<T>::help', 'ret <- param:self', 'set .help <- Some{0=param:help}')
_w('params::ParseAny::<T>::metavar', 'ret <- param:self', 'set .metavar <- param:metavar')
# commands: the name given is the (first) long name, aliases go to their own lists, not adjacent unless asked
_w('params::ParseCommand::<P>::short', 'push(param:self.shorts, param:short)', 'ret <- param:self')
_w('params::ParseCommand::<P>::long', 'push(param:self.longs, param:long)', 'ret <- param:self')
_w('params::ParseCommand::<P>::help', 'ret <- param:self', 'set .help <- Some{0=param:help}')
_w('params::ParseCommand::<P>::adjacent', 'ret <- param:self', 'set .adjacent <- const:True')
_w('command', 'ret <- ParseCommand{longs=vec![param:name],shorts=call:Vec::new,help=call:Option::map,subparser=param:subparser,adjacent=const:False}')
_w('params::<impl info::OptionParser<T>>::command', 'ret <- ParseCommand{longs=vec![param:name],shorts=call:Vec::new,help=call:Option::map,subparser=param:self,adjacent=const:False}')
_w('any', 'ret <- ParseAny{metavar=array{0=tuple},help=None{},check=call:Box::new,anywhere=const:False}')
_w('Parser::hide_usage', 'ret <- ParseUsage{inner=param:self,usage=call:default}')
# OptionParser decoration: each setter stores into the Info field of its own name
for _f in ('descr', 'header', 'footer', 'usage', 'version'):
    _w('info::OptionParser::<T>::%s' % _f, 'ret <- param:self', 'set .info.%s <- Some{0=param:%s}' % (_f, _f))
_w('info::OptionParser::<T>::max_width', 'ret <- param:self', 'set .info.max_width <- param:width')
_w('info::OptionParser::<T>::fallback_to_usage', 'ret <- param:self', 'set .info.help_if_no_args <- const:True')
_w('info::OptionParser::<T>::help_parser', 'ret <- param:self', 'set .info.help_arg <- param:parser')
_w('info::OptionParser::<T>::version_parser', 'ret <- param:self', 'set .info.version_arg <- param:parser')
# completion decoration
_w('Parser::complete', 'ret <- ParseComp{inner=param:self,op=param:op,group=None{}}')
_w('Parser::complete_shell', 'ret <- ParseCompShell{inner=param:self,op=param:op}')
_w('structs::ParseComp::<P, F>::group', 'ret <- param:self', 'set .group <- Some{0=param:group}')

def builders(ctx, cfg, fs, rule, only=None):
    n = 0
    for path, want in sorted(W.items()):
        if only and not re.search(only, path):
            continue
        b = fs.bodies.get(path)
        if b is None:
            continue            # feature-gated (complete*) or absent in this configuration; the floor guards against vacuity
        ctx.look(b); n += 1
        got = summarize(b)
        ctx.ob(rule, 'wiring:%s' % path, got == want, '%s builds %s%s' % (path, '; '.join(got), '' if got == want else '  -- expected: ' + '; '.join(want)), where=b.where(), cfg=cfg)
    if n == 0:
        raise Broken('wiring: no builder function found')
