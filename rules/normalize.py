"""Normalisation of the extracted program back to the shape the rules were written against.

The rule modules anchor on function paths of the REVIEWED tree (audit/functions.json: every function with its
signature, per feature configuration).  Two kinds of behaviour-preserving edits would otherwise move those anchors:

 * a private function is renamed or moved (`check_conflicts` -> `find_conflict`, a nested fn hoisted to module level):
   a reviewed function that is missing is matched with a NEW function (one the audit does not know) of the same kind
   and signature - same last path segment preferred - and, when the match is unique, the new function (its closures,
   every call and fn-item reference to it) is renamed back to the reviewed path;
 * part of a function is extracted into a new private helper (or a local closure that is called directly): every call
   of a function the audit does not know is replaced by the callee's body (MIR-level inlining: callee locals and
   blocks are appended to the caller, parameters are assigned from the arguments, `return` becomes a jump back).
   The rules then see the same statements, on the same paths, as before the extraction.

Both steps only re-express the program; they never drop a statement, so a rule that fires after normalisation fires on
code that is really there.  What was done is recorded in facts.normalisation and printed in the evidence."""
import copy, json, os, re

VERIF = os.path.dirname(os.path.dirname(os.path.abspath(__file__)))
AUDIT_PATH = os.path.join(VERIF, 'audit', 'functions.json')
_AUDIT = None
MAX_INLINE_BLOCKS = 160
MAX_ROUNDS = 4

def audit():
    global _AUDIT
    if _AUDIT is None:
        with open(AUDIT_PATH) as fh:
            _AUDIT = json.load(fh)
    return _AUDIT

def signature(b):
    return [l['ty'] for l in b['locals'][:b['arg_count'] + 1]]

def norm_sig(sig):
    # lifetimes and closure type spans are not part of the identity of a signature
    out = []
    for t in sig:
        t = re.sub(r"'[a-z_]\w*\b", "'_", t)
        t = re.sub(r'\{closure@[^}]*\}', '{closure}', t)
        out.append(t)
    return out

def expected_in(rec, features):
    """is a reviewed function expected in a build with this feature set?  (features are additive: what exists in a
    recorded configuration exists in every configuration that enables at least the same features)"""
    feats = set(features)
    for cfg_feats in rec['cfgs']:
        if set(cfg_feats) <= feats:
            return True
    return False

# ------------------------------------------------------------------------------------------- renaming

def _sub_path(text, new, old):
    if not isinstance(text, str) or new not in text:
        return text
    return re.sub(r'(?<![\w])' + re.escape(new) + r'(?![\w])', old.replace('\\', '\\\\'), text)

def param_names(b):
    """source names of the parameters of body json b, by position (None for patterns)"""
    names = {}
    for d in b.get('debug', []):
        pl = d.get('place')
        if pl and not pl[1] and 1 <= pl[0] <= b['arg_count'] and not d.get('inlined_from'):
            names.setdefault(pl[0], d['name'])
    return [names.get(i) for i in range(1, b['arg_count'] + 1)]

def rename_params(j, notes):
    """parameters keep their position and type but may be renamed: the reviewed names come back (rules name parameters)"""
    A = audit()['functions']
    for b in j['bodies']:
        rec = A.get(b['path'])
        if rec is None or b['kind'] == 'closure':
            continue
        want = [v[1] for v in rec.get('variants', []) if v[0] == norm_sig(signature(b))]
        if not want:
            continue
        want = want[0]
        if len(want) != b['arg_count']:
            continue
        cur = param_names(b)
        # a parameter that now carries the reviewed name of ANOTHER position is a swap, not a rename: leave it to the rules
        if any(c != w and c in want for c, w in zip(cur, want)):
            continue
        for d in b.get('debug', []):
            pl = d.get('place')
            if pl and not pl[1] and 1 <= pl[0] <= b['arg_count'] and not d.get('inlined_from'):
                w = want[pl[0] - 1]
                if w and d['name'] != w:
                    notes['renamed'].append(['%s(%s)' % (b['path'], d['name']), '%s(%s)' % (b['path'], w)])
                    d['name'] = w

def _param_permutation(new_tys, new_names, old_tys, old_names):
    """perm[i_new] = i_old (0-based): by type where the type is unique, by name among parameters of the same type; None when
    that does not determine the mapping"""
    perm = []; used = set()
    for i, t in enumerate(new_tys):
        c = [k for k, ot in enumerate(old_tys) if ot == t and k not in used]
        if len(c) > 1:
            nm = new_names[i] if i < len(new_names) else None
            c2 = [k for k in c if k < len(old_names) and old_names[k] == nm and nm is not None]
            if len(c2) != 1:
                return None
            c = c2
        if len(c) != 1:
            return None
        perm.append(c[0]); used.add(c[0])
    return perm

def permute_params(j, path, perm):
    """give the parameters of body `path` the reviewed order back (perm[i_new] = i_old), in the body and at every call"""
    n = len(perm)
    def lm(l):
        return 1 + perm[l - 1] if 1 <= l <= n else l
    for b in j['bodies']:
        if b['path'] == path:
            locs = list(b['locals'])
            for i_new in range(n):
                b['locals'][1 + perm[i_new]] = locs[1 + i_new]
            for d in b.get('debug', []):
                d['place'] = _map_place(d['place'], lm)
                if d.get('arg') is not None and isinstance(d['arg'], int) and 1 <= d['arg'] <= n:
                    d['arg'] = lm(d['arg'])
            for blk in b['blocks']:
                for st in blk['stmts']:
                    st['lhs'] = _map_place(st['lhs'], lm)
                    st['rv'] = _map_rv(st['rv'], lm)
                blk['term'] = _map_term(blk['term'], lm, 0, None) if blk['term']['k'] != 'return' else blk['term']
        for blk in b['blocks']:
            t = blk['term']
            if t['k'] == 'call' and path in callee_paths(t) and len(t['args']) == n:
                a = list(t['args'])
                for i_new in range(n):
                    t['args'][perm[i_new]] = a[i_new]

def rename_function(j, new, old):
    for b in j['bodies']:
        if b['path'] == new or b['path'].startswith(new + '::{closure'):
            b['path'] = old + b['path'][len(new):]
        for blk in b['blocks']:
            for st in blk['stmts']:
                _rename_in_rv(st.get('rv'), new, old)
            t = blk['term']
            if t['k'] == 'call':
                cal = t['callee']
                for k in ('path', 'resolved', 'full'):
                    if cal.get(k):
                        cal[k] = _sub_path(cal[k], new, old)
                for a in t['args']:
                    _rename_in_op(a, new, old)

def _rename_in_op(op, new, old):
    if isinstance(op, list) and op and op[0] == 'c' and isinstance(op[1], dict):
        for k in ('fn', 'fn_full', 'def'):
            if op[1].get(k):
                op[1][k] = _sub_path(op[1][k], new, old)

def _rename_in_rv(rv, new, old):
    if not rv:
        return
    for k in ('op', 'a', 'b'):
        if k in rv:
            _rename_in_op(rv[k], new, old)
    for f in rv.get('fields', []) or []:
        _rename_in_op(f, new, old)
    if rv.get('closure'):
        rv['closure'] = _sub_path(rv['closure'], new, old)
    if rv.get('agg') and isinstance(rv['agg'], str):
        rv['agg'] = _sub_path(rv['agg'], new, old)

# ------------------------------------------------------------------------------------------- inlining

def _map_place(p, off):
    """off: either an integer offset or a function local -> local"""
    if p is None:
        return None
    lm = off if callable(off) else (lambda l: l + off)
    sub = getattr(off, 'subst', None)
    if sub and p[0] in sub and p[1] and p[1][0] == ['*']:
        # `(*param)` of an inlined helper whose argument was `&[mut] place` of the caller IS that place
        tgt = sub[p[0]]
        rest = _map_place([p[0], p[1][1:]], off)[1]
        return [tgt[0], copy.deepcopy(tgt[1]) + rest]
    proj = []
    for pr in p[1]:
        if pr and pr[0] == 'i' and len(pr) > 1 and isinstance(pr[1], int):
            proj.append(['i', lm(pr[1])] + list(pr[2:]))
        else:
            proj.append(pr)
    return [lm(p[0]), proj]

def _map_op(op, off):
    if isinstance(op, list) and op and op[0] in ('cp', 'mv'):
        return [op[0], _map_place(op[1], off)]
    return copy.deepcopy(op)

def _map_rv(rv, off):
    rv = dict(rv)
    for k in ('op', 'a', 'b'):
        if k in rv:
            rv[k] = _map_op(rv[k], off)
    if 'place' in rv:
        rv['place'] = _map_place(rv['place'], off)
    if rv.get('fields') is not None:
        rv['fields'] = [_map_op(f, off) for f in rv['fields']]
    return rv

def _map_term(t, off, boff, ret_block):
    t = dict(t)
    k = t['k']
    if k == 'return':
        return {'k': 'goto', 't': ret_block, 'span': t.get('span')}
    for key in ('t', 'otherwise'):
        if t.get(key) is not None and isinstance(t.get(key), int):
            t[key] = t[key] + boff
    if t.get('unwind') is not None and isinstance(t.get('unwind'), int):
        t['unwind'] = t['unwind'] + boff
    if k == 'switch':
        t['op'] = _map_op(t['op'], off)
        t['targets'] = [[v, tb + boff] for v, tb in t['targets']]
    elif k == 'call':
        t['args'] = [_map_op(a, off) for a in t['args']]
        t['dest'] = _map_place(t.get('dest'), off)
        t['callee'] = copy.deepcopy(t['callee'])
        if isinstance(t['callee'].get('op'), list):
            t['callee']['op'] = _map_op(t['callee']['op'], off)
    elif k == 'assert':
        if t.get('cond') is not None:
            t['cond'] = _map_op(t['cond'], off)
        t['ops'] = [_map_op(o, off) for o in t.get('ops', [])]
    elif k == 'drop':
        t['place'] = _map_place(t.get('place'), off)
    return t

def _places_of(h):
    """every place mentioned by body json h"""
    def ops(o):
        if isinstance(o, list) and o and o[0] in ('cp', 'mv'):
            yield o[1]
    for blk in h['blocks']:
        for st in blk['stmts']:
            if st.get('lhs'): yield st['lhs']
            rv = st.get('rv') or {}
            for k in ('op', 'a', 'b'):
                if k in rv: yield from ops(rv[k])
            if rv.get('place'): yield rv['place']
            for x in rv.get('fields') or []: yield from ops(x)
        t = blk['term']
        if t['k'] == 'switch': yield from ops(t['op'])
        elif t['k'] == 'call':
            for a in t['args']: yield from ops(a)
            if t.get('dest'): yield t['dest']
            if isinstance(t['callee'].get('op'), list): yield from ops(t['callee']['op'])
        elif t['k'] == 'assert':
            if t.get('cond') is not None: yield from ops(t['cond'])
            for o in t.get('ops', []): yield from ops(o)
        elif t['k'] == 'drop' and t.get('place'):
            yield t['place']

def _forwardable_refs(f, h, args):
    """parameters of helper h that are only ever dereferenced, and whose argument at this call is a temporary holding
    `&[mut] place` of the caller: {param local: caller place}.  Inlining then reads and writes the caller's place directly,
    as the code did before the helper was extracted."""
    out = {}
    for jx, a in enumerate(args[:h['arg_count']]):
        if not (isinstance(a, list) and a and a[0] == 'mv' and not a[1][1]):
            continue
        def referent(t):
            defs = [st for blk in f['blocks'] for st in blk['stmts'] if st.get('lhs') and st['lhs'][0] == t]
            defs += [blk['term'] for blk in f['blocks'] if blk['term']['k'] == 'call' and blk['term'].get('dest') and blk['term']['dest'][0] == t]
            if len(defs) != 1 or defs[0].get('k') != 'assign' or defs[0]['lhs'][1] or defs[0]['rv'].get('k') != 'ref':
                return None
            return defs[0]['rv']['place']
        tgt = referent(a[1][0])
        # reborrow chains: `_32 = &mut x; _31 = &mut (*_32); f(move _31)`
        for _ in range(4):
            if tgt is not None and tgt[1] and tgt[1][0] == ['*'] and tgt[0] < f['arg_count'] + 1:
                break
            if tgt is None or not (tgt[1] and tgt[1][0] == ['*']):
                break
            inner = referent(tgt[0])
            if inner is None:
                break
            tgt = [inner[0], list(inner[1]) + list(tgt[1][1:])]
        if tgt is None or any(pr and pr[0] == 'i' for pr in tgt[1]):
            continue
        p = 1 + jx
        uses = [pl for pl in _places_of(h) if pl[0] == p or any(pr and pr[0] == 'i' and len(pr) > 1 and pr[1] == p for pr in pl[1])]
        if uses and all(pl[0] == p and pl[1] and pl[1][0] == ['*'] for pl in uses):
            out[p] = tgt
    return out

def inline_call(f, bi, h, tag):
    """replace the call that terminates block `bi` of body json `f` by the body json `h`"""
    call = f['blocks'][bi]['term']
    base = len(f['locals']); boff = len(f['blocks'])
    f['locals'] += copy.deepcopy(h['locals'])
    dest = call.get('dest')
    direct = dest is not None and not dest[1]
    # the callee's return place IS the destination of the call when that is a plain local: `_0 = Ok(..)` in the helper
    # then reads `_0 = Ok(..)` in the caller again, exactly as before the extraction
    def off(l, base=base, direct=direct, d=(dest[0] if dest else None)):
        return d if (direct and l == 0) else base + l
    if h['kind'] != 'closure':
        off.subst = _forwardable_refs(f, h, call['args'])
    for d in h.get('debug', []):
        if not (getattr(off, 'subst', None) and d['place'] and d['place'][0] in off.subst and not d['place'][1]):
            f.setdefault('debug', []).append({'name': d['name'], 'place': _map_place(d['place'], off), 'arg': None, 'inlined_from': h['path']})
    n = len(h['blocks'])
    pre = boff + n; ret = boff + n + 1
    for blk in h['blocks']:
        nb = {'cleanup': blk.get('cleanup', False), 'stmts': [], 'term': _map_term(blk['term'], off, boff, ret), 'inlined_from': h['path']}
        for st in blk['stmts']:
            st2 = dict(st)
            st2['lhs'] = _map_place(st['lhs'], off)
            st2['rv'] = _map_rv(st['rv'], off)
            nb['stmts'].append(st2)
        f['blocks'].append(nb)
    span = call.get('span')
    args = call['args']
    stmts = []
    if h['kind'] == 'closure' and len(args) == 2 and h['arg_count'] >= 1:
        # Fn::call(&closure, (a, b, ..)): the closure body takes the environment and the unpacked tuple
        stmts.append({'k': 'assign', 'lhs': [off(1), []], 'rv': {'k': 'use', 'op': copy.deepcopy(args[0])}, 'span': span})
        tup = args[1]
        for jx in range(h['arg_count'] - 1):
            if isinstance(tup, list) and tup[0] in ('cp', 'mv'):
                src = [tup[0], [tup[1][0], list(tup[1][1]) + [['f', jx, str(jx), h['locals'][2 + jx]['ty'], 'tuple']]]]
            else:
                src = ['?', 'constant tuple']
            stmts.append({'k': 'assign', 'lhs': [off(2 + jx), []], 'rv': {'k': 'use', 'op': src}, 'span': span})
    else:
        for jx, a in enumerate(args[:h['arg_count']]):
            stmts.append({'k': 'assign', 'lhs': [off(1 + jx), []], 'rv': {'k': 'use', 'op': copy.deepcopy(a)}, 'span': span})
    f['blocks'].append({'cleanup': False, 'stmts': stmts, 'term': {'k': 'goto', 't': boff, 'span': span}, 'inlined_from': h['path']})
    rstm = []
    if call.get('dest') is not None and not direct:
        rstm.append({'k': 'assign', 'lhs': copy.deepcopy(call['dest']), 'rv': {'k': 'use', 'op': ['mv', [off(0), []]]}, 'span': span})
    if call.get('t') is not None:
        rterm = {'k': 'goto', 't': call['t'], 'span': span}
    else:
        rterm = {'k': 'unreachable', 'span': span}
    f['blocks'].append({'cleanup': False, 'stmts': rstm, 'term': rterm, 'inlined_from': h['path']})
    f['blocks'][bi]['term'] = {'k': 'goto', 't': pre, 'span': span, 'was_call_to': h['path']}
    f.setdefault('inlined', []).append(tag)

def callee_paths(t):
    cal = t['callee']
    return [x for x in (cal.get('resolved'), cal.get('path')) if x]

def rename_fields(j, notes):
    """private struct fields that were renamed (same struct path, same field types in the same order, different names) get
    their reviewed names back in every place projection, aggregate and the ADT table"""
    S = audit().get('structs', {})
    ren = {}     # struct path -> {index: (new, old)}
    for a in j['adts']:
        rec = S.get(a['path'])
        if rec is None or a['kind'] != 'struct' or not a['variants']:
            continue
        fs_ = a['variants'][0]['fields']
        if len(fs_) != len(rec) or [norm_sig([f['ty']])[0] for f in fs_] != [r[1] for r in rec]:
            continue
        m = {i: (f['name'], rec[i][0]) for i, f in enumerate(fs_) if f['name'] != rec[i][0]}
        if m:
            ren[a['path']] = m
            for i, (new, old) in m.items():
                fs_[i]['name'] = old
                notes['renamed'].append(['%s.%s' % (a['path'], new), '%s.%s' % (a['path'], old)])
    if not ren:
        return
    def base(ty):
        return re.sub(r'<.*$', '', ty or '').lstrip('&').replace('mut ', '').strip()
    def fix_place(p):
        if not p: return
        for pr in p[1]:
            if pr and pr[0] == 'f' and len(pr) >= 5:
                m = ren.get(base(pr[4]))
                if m and pr[1] in m and pr[2] == m[pr[1]][0]:
                    pr[2] = m[pr[1]][1]
    def fix_op(op):
        if isinstance(op, list) and op and op[0] in ('cp', 'mv'):
            fix_place(op[1])
    for b in j['bodies']:
        for d in b.get('debug', []):
            fix_place(d.get('place'))
        for blk in b['blocks']:
            for st in blk['stmts']:
                fix_place(st.get('lhs'))
                rv = st.get('rv') or {}
                for k in ('op', 'a', 'b'):
                    if k in rv: fix_op(rv[k])
                if 'place' in rv: fix_place(rv['place'])
                for f in rv.get('fields') or []: fix_op(f)
                if rv.get('adt') in ren and rv.get('field_names'):
                    m = ren[rv['adt']]
                    rv['field_names'] = [m[i][1] if (i in m and n == m[i][0]) else n for i, n in enumerate(rv['field_names'])]
            t = blk['term']
            for k in ('op', 'cond'):
                if k in t: fix_op(t[k])
            for a in t.get('args', []) or []: fix_op(a)
            for a in t.get('ops', []) or []: fix_op(a)
            if t.get('dest'): fix_place(t['dest'])
            if t.get('place'): fix_place(t['place'])

def normalise(j, cfg_features):
    """in-place; returns a dict describing what was done"""
    notes = {'renamed': [], 'inlined': [], 'unmatched_new': [], 'missing_reviewed': []}
    if j.get('crate') != 'bpaf' or not os.path.exists(AUDIT_PATH):
        return notes
    rename_fields(j, notes)
    A = audit()['functions']
    by = {b['path']: b for b in j['bodies']}
    fns = {p: b for p, b in by.items() if b['kind'] != 'closure'}
    missing = [p for p, rec in A.items() if p not in fns and expected_in(rec, cfg_features)]
    new = [p for p in fns if p not in A]
    # ---- renames / moves
    taken = set()
    for m in sorted(missing):
        rec = A[m]
        cands = [n for n in new if n not in taken and norm_sig(signature(fns[n])) in ([v[0] for v in rec.get('variants', [])] or [rec['sig']])]      # fn <-> associated fn is a move, not a new function
        same_name = [n for n in cands if n.split('::')[-1] == m.split('::')[-1]]
        pick = same_name if len(same_name) == 1 else cands
        if len(pick) == 1:
            rename_function(j, pick[0], m)
            taken.add(pick[0])
            notes['renamed'].append([pick[0], m])
        else:
            # free function <-> method: the same parameters in another ORDER (`f(res, cur, new)` -> `cur.f(res, new)`)
            perm = None
            if not cands:
                pc = []
                for n in new:
                    if n in taken: continue
                    sg = norm_sig(signature(fns[n]))
                    for v in rec.get('variants', []) or [[rec['sig'], rec.get('params')]]:
                        if sg[0] == v[0][0] and sorted(sg[1:]) == sorted(v[0][1:]) and sg != v[0]:
                            pm = _param_permutation(sg[1:], param_names(fns[n]), v[0][1:], v[1] or [])
                            if pm is not None:
                                pc.append((n, pm))
                if len(pc) == 1:
                    perm = pc[0]
            if perm is not None:
                rename_function(j, perm[0], m)
                permute_params(j, m, perm[1])
                taken.add(perm[0])
                notes['renamed'].append(['%s (parameters reordered %s)' % (perm[0], perm[1]), m])
            else:
                notes['missing_reviewed'].append(m)
    rename_params(j, notes)
    by = {b['path']: b for b in j['bodies']}
    fns = {p: b for p, b in by.items() if b['kind'] != 'closure'}
    new = sorted(p for p in fns if p not in A)
    # functions that gained closures: their directly called closures are inlined as well
    gained = set()
    for p, b in fns.items():
        if p in A:
            have = sum(1 for q in by if q.startswith(p + '::{closure') and q.count('{closure') == p.count('{closure') + 1)
            if have > A[p].get('closures', 0):
                gained.add(p)
    def inlinable(path):
        h = by.get(path)
        if h is None or len(h['blocks']) > MAX_INLINE_BLOCKS:
            return None
        if h['kind'] == 'closure':
            parent = path.split('::{closure')[0]
            return h if parent in gained else None
        return h if path in new else None
    def calls_itself(h):
        seen = set(); st = [h['path']]
        while st:
            x = st.pop()
            if x in seen: continue
            seen.add(x)
            bx = by.get(x)
            if not bx: continue
            for blk in bx['blocks']:
                t = blk['term']
                if t['k'] == 'call':
                    for n in callee_paths(t):
                        if n == h['path']:
                            return True
                        if n in by and (n in new or by[n]['kind'] == 'closure'):
                            st.append(n)
        return False
    recursive = {p for p in list(new) + [q for q in by if by[q]['kind'] == 'closure' and q.split('::{closure')[0] in gained] if calls_itself(by[p])}
    for _round in range(MAX_ROUNDS):
        did = False
        for f in j['bodies']:
            if f['path'] in new and f['kind'] != 'closure':
                pass   # helpers are normalised too, so that nested helpers collapse
            bi = 0
            while bi < len(f['blocks']):
                t = f['blocks'][bi]['term']
                if t['k'] == 'call' and not f['blocks'][bi].get('cleanup'):
                    tgt = None
                    for n in callee_paths(t):
                        h = inlinable(n)
                        if h is not None and n not in recursive and n != f['path'] and len(f['blocks']) < 4000:
                            tgt = h; break
                    if tgt is not None:
                        inline_call(f, bi, copy.deepcopy(tgt), tgt['path'])
                        notes['inlined'].append([tgt['path'], f['path']])
                        did = True
                bi += 1
        if not did:
            break
    done = {x[0] for x in notes['inlined']}
    for p in new:
        b = by[p]
        if p in done:
            b['inlined_everywhere'] = not any(t['k'] == 'call' and p in callee_paths(t) for f in j['bodies'] for blk in f['blocks'] for t in [blk['term']])
        else:
            notes['unmatched_new'].append(p)
    return notes
