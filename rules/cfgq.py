"""CFG queries shared by the property modules: decoded switches, edge-restricted reachability,
enum->constant tables."""
import re
from core import *
from dataflow import *

def reachable_edges(body, start=0, removed_edges=(), avoid=()):
    removed = set(removed_edges); avoid = set(avoid)
    seen = set(); st = [start]
    while st:
        x = st.pop()
        if x in seen or x in avoid:
            continue
        seen.add(x)
        for s in body.succ(x):
            if (x, s) not in removed:
                st.append(s)
    return seen

def only_via_edge(body, a, s, x):
    """every path from entry to block x uses the edge a->s"""
    return x not in reachable_edges(body, 0, removed_edges=[(a, s)])

def only_via_block(body, v, x):
    """every path from entry to x passes through block v (v dominates x)"""
    return body.dominates(v, x)

class Switch:
    """decoded SwitchInt: what is tested and a map outcome -> target"""
    def __init__(self, body, b):
        self.body = body; self.b = b
        t = body.term(b)
        self.t = t
        self.kind = None      # 'bool' | 'enum' | 'int'
        self.subject = None   # provenance roots of the tested value (for bool/int), or place str (enum)
        self.place = None     # for enum: the place whose discriminant is read
        self.edges = {}       # outcome -> target ; outcome True/False, variant name, int ; 'otherwise'
        self.enum = None
        op = t['op']
        roots = provenance(body, op, b, 'term', through=None)
        self.roots = roots
        if t['ty'] == 'bool':
            self.kind = 'bool'
            f = [tb for v, tb in t['targets'] if v == 0]
            self.edges[False] = f[0] if f else t['otherwise']
            tr = [tb for v, tb in t['targets'] if v == 1]
            self.edges[True] = tr[0] if tr else t['otherwise']
        elif len(roots) == 1 and roots[0].kind == 'discr' and 'enum' in roots[0].extra:
            self.kind = 'enum'
            self.place = roots[0].extra['place']
            self.enum = roots[0].extra['enum']['adt']
            vmap = {v: n for v, n in roots[0].extra['enum']['variants']}
            covered = set()
            for v, tb in t['targets']:
                n = vmap.get(v, v)
                self.edges[n] = tb; covered.add(n)
            rest = [n for n in vmap.values() if n not in covered]
            for n in rest:
                self.edges[n] = t['otherwise']
            self.discr_site = roots[0].site
        else:
            self.kind = 'int'
            for v, tb in t['targets']:
                self.edges[v] = tb
            self.edges['otherwise'] = t['otherwise']

    def target(self, outcome):
        return self.edges.get(outcome)

def switches(body):
    out = []
    for i in body.reachable(0):
        if body.term(i)['k'] == 'switch':
            out.append(Switch(body, i))
    return out

def switch_on_call(body, call):
    """the Switch (if any) that tests the result of `call` (bool result, or discriminant of the
    result), looking through moves"""
    if call.dest is None or call.target is None:
        return None
    for sw in switches(body):
        if sw.kind in ('bool', 'int'):
            if any(r.kind == 'call' and r.call.bb == call.bb and not r.path for r in sw.roots):
                return sw
        elif sw.kind == 'enum':
            rs = provenance(body, sw.place, sw.discr_site[0], sw.discr_site[1], through=None)
            if any(r.kind == 'call' and r.call.bb == call.bb and not r.path for r in rs):
                return sw
    return None

def enum_const_table(body):
    """for `fn f(&self) -> const` that switches on the discriminant of *self: {variant: const}"""
    for sw in switches(body):
        if sw.kind != 'enum':
            continue
        rs = provenance(body, sw.place, sw.discr_site[0], sw.discr_site[1], through=None)
        if not any(r.kind == 'param' and r.what == 'self' for r in rs):
            continue
        if not body.dominates(sw.b, sw.b):
            continue
        table = {}
        for variant, tb in sw.edges.items():
            vals = set()
            # follow the arm to the assignments of _0 reachable before the return
            seen = set(); st = [tb]
            while st:
                x = st.pop()
                if x in seen: continue
                seen.add(x)
                hit = False
                for stt in body.blocks[x]['stmts']:
                    if stt['k'] == 'assign' and stt['lhs'] == [0, []]:
                        rv = stt['rv']
                        if rv['k'] == 'use' and rv['op'][0] == 'c':
                            vals.add(rv['op'][1].get('v'))
                        else:
                            vals.add('<non-const>')
                        hit = True
                if not hit:
                    st += body.succ(x)
            table[variant] = vals.pop() if len(vals) == 1 else ('<mixed %s>' % sorted(map(str, vals)))
        if any(isinstance(v, str) and v.startswith('<mixed') for v in table.values()):
            # `if matches!(self, V(..)) { a } else { b }`: the arms meet at a temporary before the constant is chosen - evaluate the
            # function once per variant instead (abstract walk under the assumption "*self is this variant")
            from absint import Walker, show
            for variant in list(table):
                if not (isinstance(table[variant], str) and table[variant].startswith('<mixed')):
                    continue
                outs = set()
                try:
                    for p_ in Walker(body, variant_of={(1, ()): variant}, max_paths=200).run():
                        if p_.end == 'return':
                            outs.add(show(p_.ret))
                except Exception:
                    outs = set()
                if len(outs) == 1:
                    o = outs.pop()
                    table[variant] = {'True': True, 'False': False}.get(o, int(o) if re.match(r'^-?\d+$', o) else o)
        return sw.enum, table
    raise Broken('%s: no switch on the discriminant of *self' % body.path)

def fn_refs(body):
    """(bb, callee Call or None, fn path) for every fn item referenced as a value (not called)"""
    out = []
    def scan_op(op, bb):
        if op and op[0] == 'c' and 'fn' in op[1]:
            out.append((bb, op[1]['fn'], op[1].get('fn_full', op[1]['fn'])))
    for i, b in enumerate(body.blocks):
        for st in b['stmts']:
            if st['k'] != 'assign': continue
            rv = st['rv']
            for k in ('op', 'a', 'b'):
                if k in rv and isinstance(rv[k], list): scan_op(rv[k], i)
            for f in rv.get('fields', []): scan_op(f, i)
        t = b['term']
        if t['k'] in ('call', 'tailcall'):
            for a in t['args']: scan_op(a, i)
    return out


def arm_blocks(body, sw, variant):
    """blocks that belong to one arm of a (possibly loop-nested) switch: reachable from the arm entry without
    re-entering the switch or another arm's entry, minus the blocks shared with the other arms (code after the match)"""
    t = sw.target(variant)
    if t is None:
        return set()
    tg = set(sw.edges.values())
    mine = reachable_edges(body, t, avoid=[sw.b] + [x for x in tg if x != t])
    shared = set()
    for o in tg:
        if o != t:
            shared |= reachable_edges(body, o, avoid=[sw.b] + [x for x in tg if x != o])
    # variants that share this very arm entry keep it
    return mine - shared


def switch_reads_local(body, sw, local):
    """the switch tests the current value of `local` itself (`switch(copy local)`, possibly through one temporary)"""
    opp = op_place(sw.t['op'])
    if opp is None:
        return False
    if opp == [local, []]:
        return True
    defs = reaching_defs(body, opp[0], sw.b, 'term')
    return bool(defs) and all(k == 'assign' and st['rv']['k'] == 'use' and op_place(st['rv']['op']) == [local, []] for (_, _, k, st) in defs)

def switch_reads_named_local(body, sw):
    """the switch tests a named bool variable of the source (not the temporary holding a call's result)"""
    opp = op_place(sw.t['op'])
    if opp is None:
        return False
    if opp[0] in body.local_names and not opp[1]:
        return True
    defs = reaching_defs(body, opp[0], sw.b, 'term')
    return bool(defs) and all(k == 'assign' and st['rv']['k'] == 'use' and (op_place(st['rv']['op']) or [None, [1]])[0] in body.local_names and not (op_place(st['rv']['op']) or [None, [1]])[1]
                              for (_, _, k, st) in defs)

def flag_regions(body, calls, full=False):
    """`let mut f = false; loop { if call() { f = true; break } } if f {A} else {B}` (also `let mut f = first_test(); if !f
    { loop { if call() { f = true; break } } }`): a bool local that is false - or holds the outcome of one of `calls` - before
    every other of `calls`, becomes true exactly on their true edges (on every path from such an edge to a test of the
    flag), is never reset afterwards and is tested once after all of them.  Returns (local, Switch) or None."""
    if not calls:
        return None
    assigns = {}; direct = {}
    bad = set()
    for i, k, st in body.stmts():
        if st['k'] == 'assign' and not st['lhs'][1] and body.local_ty(st['lhs'][0]) == 'bool':
            c = op_const(st['rv']['op']) if st['rv']['k'] == 'use' else None
            if c is not None and isinstance(c.get('v'), bool):
                assigns.setdefault(st['lhs'][0], []).append((i, c['v']))
                continue
            rs = provenance(body, st['rv']['op'], i, k, through=None) if st['rv']['k'] == 'use' else []
            hit = [t for t in calls if rs and all(r.kind == 'call' and r.call.bb == t.bb and not r.path for r in rs)]
            if len(hit) == 1:
                direct.setdefault(st['lhs'][0], []).append((i, hit[0]))
            else:
                bad.add(st['lhs'][0])
    for c in body.calls():
        if c.dest is not None and not c.dest[1] and body.local_ty(c.dest[0]) == 'bool':
            if any(c.bb == t.bb for t in calls):
                direct.setdefault(c.dest[0], []).append((c.bb, c))
            else:
                bad.add(c.dest[0])
    for f in sorted(set(assigns) | set(direct)):
        if f not in body.local_names and f not in assigns:
            continue          # a temporary holding one call's result, not a flag
        if f in bad:
            continue
        sites = assigns.get(f, [])
        trues = [i for (i, v) in sites if v]; falses = [i for (i, v) in sites if not v]
        dsites = direct.get(f, [])
        dcalls = [t for (_, t) in dsites]
        others = [c for c in calls if not any(c.bb == t.bb for t in dcalls)]
        if not (falses or dsites) or not (trues or dsites):
            continue
        sws = [switch_on_call(body, c) for c in others]
        if any(s is None or s.kind != 'bool' for s in sws):
            continue
        if not all(any(only_via_edge(body, s.b, s.target(True), t) for s in sws) for t in trues):
            continue
        resets = falses + [i for (i, _) in dsites]
        if not all(all(body.dominates(x, c.bb) for c in others) for x in resets):
            continue
        if any(body.reaches(t, resets) for t in trues) or any(body.reaches(c.bb, [x for x in resets if x != c.bb]) for c in calls):
            continue
        readers = [s for s in switches(body) if s.kind == 'bool' and switch_reads_local(body, s, f)]
        dec = [s for s in readers if not body.reaches(s.b, [c.bb for c in calls])]
        if len(dec) != 1:
            continue
        d = dec[0]
        if any(s.target(True) not in trues and body.reaches(s.target(True), [r_.b for r_ in readers], avoid=set(trues)) for s in sws):
            continue       # a successful call can reach a test of the flag with the flag still false
        if full:
            return (f, d, readers, trues)
        return (f, d)
    return None


def variant_edges(body, enum_name, variant, place_ok=None):
    """edges (block, target) taken exactly when a value of enum `enum_name` is `variant`: the arm of a `match` (when no other
    variant shares its target), or the true / false edge of the bool produced by `matches!(x, Variant(..))` (a SwitchInt on the
    discriminant that assigns constants to a temporary which the next SwitchInt tests)"""
    out = []
    for sw in switches(body):
        if sw.kind != 'enum' or sw.enum != enum_name or sw.target(variant) is None:
            continue
        if place_ok is not None and not place_ok(sw):
            continue
        t = sw.target(variant)
        shared = [o for o, x in sw.edges.items() if x == t and o != variant]
        if shared:
            continue
        # matches!: the arm only assigns a constant bool and joins the other arms at a bool switch
        stm = body.blocks[t]['stmts']
        consts = [st for st in stm if st['k'] == 'assign' and not st['lhs'][1] and body.local_ty(st['lhs'][0]) == 'bool' and st['rv']['k'] == 'use' and isinstance((op_const(st['rv']['op']) or {}).get('v'), bool)]
        succ = body.succ(t)
        if len(consts) == 1 and len(stm) <= 2 and len(succ) == 1 and body.term(succ[0])['k'] == 'switch':
            bsw = Switch(body, succ[0])
            if bsw.kind == 'bool' and switch_reads_local(body, bsw, consts[0]['lhs'][0]):
                val = op_const(consts[0]['rv']['op'])['v']
                # every other arm assigns the opposite constant
                others = {x for o, x in sw.edges.items() if x != t}
                opp = all(any(st['k'] == 'assign' and st['lhs'] == consts[0]['lhs'] and (op_const(st['rv'].get('op', ['?'])) or {}).get('v') is (not val) for st in body.blocks[x]['stmts']) for x in others)
                if opp:
                    out.append((bsw.b, bsw.target(val)))
                    continue
        out.append((sw.b, t))
    return out
