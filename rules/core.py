"""Core of the static rule library: fact loading, CFG, dominance, control dependence,
provenance.  Works on the JSON emitted by tools/mirfacts (type-checked MIR of /repo)."""
import time, json, os, re, sys, hashlib, subprocess, fcntl, glob, shutil, time, tempfile
from collections import defaultdict, deque

REPO = os.environ.get('VERIF_REPO', '/repo')
VERIF = os.path.dirname(os.path.dirname(os.path.abspath(__file__)))
CACHE = os.path.join(VERIF, '.cache')

CONFIGS = {
    'none': '-',
    'ac': 'autocomplete',
    'doc': 'docgen',
    'bat': 'batteries',
    'dull': 'dull-color',
    'bright': 'bright-color',
    'all': 'autocomplete,docgen,batteries,dull-color',
}

class Broken(Exception):
    """The check itself cannot run (missing anchor, tool failure): exit 2, never a verdict."""

# ------------------------------------------------------------------------------------------
# tree hash + extraction

def tree_hash(repo=REPO):
    h = hashlib.sha256()
    files = []
    for root in ('src', 'bpaf_derive/src'):
        for dp, dn, fn in os.walk(os.path.join(repo, root)):
            for f in fn:
                files.append(os.path.join(dp, f))
    for f in ('Cargo.toml', 'bpaf_derive/Cargo.toml', 'Cargo.lock'):
        p = os.path.join(repo, f)
        if os.path.exists(p):
            files.append(p)
    for p in sorted(files):
        h.update(p.encode()); h.update(b'\0')
        with open(p, 'rb') as fh:
            h.update(fh.read())
        h.update(b'\0')
    # the driver itself is part of the key
    drv = os.path.join(VERIF, 'tools/mirfacts/src/main.rs')
    with open(drv, 'rb') as fh:
        h.update(fh.read())
    return h.hexdigest()[:24]

def feature_string(cfg):
    if cfg in CONFIGS:
        return CONFIGS[cfg]
    return cfg  # explicit comma list

def cfg_key(cfg):
    fs = feature_string(cfg)
    return 'none' if fs in ('-', '') else fs.replace(',', '+')

def ensure_facts(cfgs, repo=REPO):
    """Make sure fact files for the given configs exist for the current tree; returns
    {cfg: path}.  Extraction of missing configs runs in parallel."""
    th = tree_hash(repo)
    d = os.path.join(CACHE, th)
    os.makedirs(d, exist_ok=True)
    out = {}
    missing = []
    for c in cfgs:
        p = os.path.join(d, cfg_key(c) + '.json')
        out[c] = p
        if not os.path.exists(p):
            missing.append(c)
    if missing:
        lock = open(os.path.join(d, '.lock'), 'w')      # per tree: different trees are extracted side by side
        fcntl.flock(lock, fcntl.LOCK_EX)
        try:
            procs = []
            for c in missing:
                p = out[c]
                if os.path.exists(p):
                    continue
                tmp = p + '.dir.%d' % os.getpid()
                shutil.rmtree(tmp, ignore_errors=True)
                pr = subprocess.Popen([os.path.join(VERIF, 'tools/extract.sh'), tmp, 'bpaf',
                                       feature_string(c), repo],
                                      stdout=subprocess.PIPE, stderr=subprocess.STDOUT)
                procs.append((c, p, tmp, pr))
                if len(procs) >= 8:
                    _finish(procs); procs = []
            _finish(procs)
        finally:
            fcntl.flock(lock, fcntl.LOCK_UN)
            lock.close()
        _gc_cache(th)
    return out

def _finish(procs):
    for c, p, tmp, pr in procs:
        outp = pr.communicate()[0].decode(errors='replace')
        fs = glob.glob(os.path.join(tmp, 'bpaf.*.json'))
        if pr.returncode != 0 or len(fs) != 1:
            shutil.rmtree(tmp, ignore_errors=True)
            raise Broken('fact extraction failed for config %s (rc=%s):\n%s' % (c, pr.returncode, outp[-3000:]))
        os.replace(fs[0], p)
        shutil.rmtree(tmp, ignore_errors=True)

def _gc_cache(keep):
    """drop fact caches of other trees, but never one that another running check may still be reading: only
    directories untouched for forty minutes, and always keep the eight most recent"""
    try:
        now = time.time()
        ds = [d for d in os.listdir(CACHE) if os.path.isdir(os.path.join(CACHE, d))]
        ds.sort(key=lambda d: os.path.getmtime(os.path.join(CACHE, d)))
        for d in ds[:-8]:
            if d != keep and now - os.path.getmtime(os.path.join(CACHE, d)) > 2400:
                shutil.rmtree(os.path.join(CACHE, d), ignore_errors=True)
    except OSError:
        pass

# ------------------------------------------------------------------------------------------
# places / operands

def place_local(p):
    return p[0]

def place_projs(p):
    return p[1]

def place_str(p, body=None):
    s = '_%d' % p[0]
    if body is not None:
        n = body.local_names.get(p[0])
        if n:
            s = n
    for pr in p[1]:
        k = pr[0]
        if k == '*':
            s = '(*%s)' % s
        elif k == 'f':
            s = '%s.%s' % (s, pr[2])
        elif k == 'dc':
            s = '(%s as %s)' % (s, pr[1])
        elif k == 'i':
            s = '%s[_%d]' % (s, pr[1])
        elif k == 'ci':
            s = '%s[%s%d]' % (s, '-' if pr[3] else '', pr[1])
        elif k == 'sub':
            s = '%s[%d..%s%d]' % (s, pr[1], '-' if pr[3] else '', pr[2])
        else:
            s = '%s.<%s>' % (s, k)
    return s

def place_fields(p):
    """field-name path of a place, ignoring derefs: ['items', 'Some', '0']"""
    out = []
    for pr in p[1]:
        if pr[0] == 'f':
            out.append(pr[2])
        elif pr[0] == 'dc':
            out.append('as ' + pr[1])
        elif pr[0] in ('i', 'ci', 'sub'):
            out.append('[]')
    return out

def op_place(op):
    return op[1] if op[0] in ('cp', 'mv') else None

def op_const(op):
    return op[1] if op[0] == 'c' else None

def op_str(op, body=None):
    if op[0] in ('cp', 'mv'):
        return ('move ' if op[0] == 'mv' else '') + place_str(op[1], body)
    if op[0] == 'c':
        c = op[1]
        if 'fn' in c:
            return 'fn ' + c.get('fn_full', c['fn'])
        if 'v' in c:
            return 'const %r' % (c['v'],)
        if 'bytes_str' in c:
            return 'const b%r' % (c['bytes_str'],)
        if 'def' in c:
            return 'const ' + c['def']
        return 'const <%s>' % c.get('ty')
    return str(op)

def span_str(sp):
    if not sp:
        return '?'
    return '%s:%d' % (sp['file'], sp['line'])

# ------------------------------------------------------------------------------------------

class Call:
    __slots__ = ('body', 'bb', 'term', 'callee', 'names', 'args', 'dest', 'target', 'span')
    def __init__(self, body, bb, term):
        self.body = body; self.bb = bb; self.term = term
        self.callee = term['callee']
        n = []
        for k in ('resolved', 'path'):
            v = self.callee.get(k)
            if v and v not in n:
                n.append(v)
        self.names = n
        self.args = term['args']
        self.dest = term.get('dest')
        self.target = term.get('t')
        self.span = term.get('span')
    @property
    def name(self):
        return self.names[0] if self.names else '<indirect %s>' % self.callee.get('ty')
    @property
    def full(self):
        return self.callee.get('full') or self.name
    def is_(self, *pats):
        """any name matches any regex (search)"""
        for n in self.names + [self.callee.get('full') or '']:
            for p in pats:
                if re.search(p, n):
                    return True
        return False
    def where(self):
        return '%s (%s)' % (self.body.path, span_str(self.span))
    def from_expansion(self):
        return 'exp' in (self.span or {})

class Body:
    def __init__(self, j, facts=None):
        self.j = j
        self.facts = facts
        self.path = j['path']
        self.kind = j['kind']
        self.blocks = j['blocks']
        self.locals = j['locals']
        self.arg_count = j['arg_count']
        self.span = j['span']
        self.name = j.get('name')
        self.impl_self = j.get('impl_self')
        self.impl_trait = j.get('impl_trait')
        self.impl_trait_def = j.get('impl_trait_def')
        self.parent = j.get('parent')
        self.local_names = {}
        for d in j['debug']:
            pl = d['place']
            if not pl[1]:
                self.local_names.setdefault(pl[0], d['name'])
        self._succ = None; self._pred = None; self._dom = None; self._pdom = None
        self._cd = None; self._defs = None; self._calls = None

    # ---- CFG (normal edges only; unwind edges are kept separately)
    def term(self, b):
        return self.blocks[b]['term']

    def succ(self, b):
        if self._succ is None:
            self._succ = [self._succ_of(i) for i in range(len(self.blocks))]
        return self._succ[b]

    def _succ_of(self, b):
        t = self.blocks[b]['term']
        k = t['k']
        if k == 'goto':
            return [t['t']]
        if k == 'switch':
            out = []
            for v, tb in t['targets']:
                if tb not in out:
                    out.append(tb)
            if t['otherwise'] not in out:
                out.append(t['otherwise'])
            return out
        if k in ('call', 'drop', 'assert'):
            return [t['t']] if t.get('t') is not None else []
        return []

    def pred(self, b):
        if self._pred is None:
            self._pred = [[] for _ in self.blocks]
            for i in range(len(self.blocks)):
                for s in self.succ(i):
                    self._pred[s].append(i)
        return self._pred[b]

    def reachable(self, start=0, avoid=()):
        avoid = set(avoid)
        seen = set()
        if start in avoid:
            return seen
        st = [start]
        while st:
            b = st.pop()
            if b in seen:
                continue
            seen.add(b)
            for s in self.succ(b):
                if s not in avoid and s not in seen:
                    st.append(s)
        return seen

    def reaches(self, a, targets, avoid=()):
        """is any block of `targets` reachable from a without entering `avoid`
        (a itself may be in avoid: we start from its successors only if a not in targets)"""
        targets = set(targets)
        r = self.reachable(a, avoid=set(avoid) - {a})
        return bool(r & targets)

    def return_blocks(self):
        return [i for i, b in enumerate(self.blocks) if b['term']['k'] == 'return']

    def exit_blocks(self):
        """normal-flow blocks without successors (return, diverging call, unreachable)"""
        return [i for i in self.reachable(0) if not self.succ(i)]

    def dominators(self):
        if self._dom is None:
            self._dom = _dominators(len(self.blocks), 0, self.succ, self.pred)
        return self._dom

    def dominates(self, a, b):
        """a dom b (reflexive)"""
        idom = self.dominators()
        x = b
        while x is not None:
            if x == a:
                return True
            nx = idom.get(x)
            if nx == x:
                break
            x = nx
        return False

    def postdominators(self):
        """idom map in the reversed CFG with a virtual exit (-1) joined to all exit blocks"""
        if self._pdom is None:
            n = len(self.blocks)
            exits = [i for i in range(n) if not self.succ(i)]
            def rsucc(b):
                if b == -1:
                    return exits
                return self.pred(b)
            def rpred(b):
                if b == -1:
                    return []
                s = list(self.succ(b))
                if not s:
                    s = [-1]
                return s
            self._pdom = _dominators(n, -1, rsucc, rpred)
        return self._pdom

    def postdominates(self, a, b):
        ip = self.postdominators()
        x = b
        while x is not None:
            if x == a:
                return True
            nx = ip.get(x)
            if nx == x or nx is None:
                break
            x = nx
        return False

    def control_deps(self):
        """block -> set of (branch_block, successor) edges it is directly control dependent on"""
        if self._cd is None:
            ip = self.postdominators()
            cd = defaultdict(set)
            for a in range(len(self.blocks)):
                ss = self.succ(a)
                if len(ss) < 2:
                    continue
                for s in ss:
                    # walk from s up the postdominator tree until ipdom(a)
                    stop = ip.get(a)
                    x = s
                    seen = set()
                    while x is not None and x != stop and x not in seen:
                        seen.add(x)
                        cd[x].add((a, s))
                        x = ip.get(x)
                        if x == -1:
                            break
            self._cd = cd
        return self._cd

    def transitive_control_deps(self, b):
        cd = self.control_deps()
        out = set(); st = [b]; seenb = set()
        while st:
            x = st.pop()
            if x in seenb:
                continue
            seenb.add(x)
            for e in cd.get(x, ()):
                if e not in out:
                    out.add(e)
                    st.append(e[0])
        return out

    def back_edges(self):
        out = []
        for a in self.reachable(0):
            for s in self.succ(a):
                if self.dominates(s, a):
                    out.append((a, s))
        return out

    # ---- statements
    def calls(self):
        if self._calls is None:
            self._calls = []
            for i, b in enumerate(self.blocks):
                t = b['term']
                if t['k'] in ('call', 'tailcall'):
                    self._calls.append(Call(self, i, t))
        return self._calls

    def call_at(self, b):
        t = self.blocks[b]['term']
        if t['k'] in ('call', 'tailcall'):
            return Call(self, b, t)
        return None

    def defs(self):
        """local -> list of (bb, idx or 'term', kind, payload) for every definition site whose
        lhs base is the local (whole or projected)"""
        if self._defs is None:
            d = defaultdict(list)
            for i, b in enumerate(self.blocks):
                for k, st in enumerate(b['stmts']):
                    if st['k'] in ('assign', 'setdiscr'):
                        d[st['lhs'][0]].append((i, k, st['k'], st))
                t = b['term']
                if t['k'] == 'call' and t.get('dest') is not None:
                    d[t['dest'][0]].append((i, 'term', 'call', t))
            self._defs = d
        return self._defs

    def whole_defs(self, local):
        return [x for x in self.defs().get(local, []) if not x[3].get('lhs', x[3].get('dest'))[1]]

    def stmts(self):
        for i, b in enumerate(self.blocks):
            for k, st in enumerate(b['stmts']):
                yield i, k, st

    def local_ty(self, l):
        return self.locals[l]['ty']

    def name_of(self, l):
        return self.local_names.get(l, '_%d' % l)

    def where(self, b=None):
        if b is None:
            return '%s (%s)' % (self.path, span_str(self.span))
        return '%s (%s)' % (self.path, span_str(self.blocks[b]['term'].get('span')))


def _dominators(n, root, succ, pred):
    # Cooper-Harvey-Kennedy
    order = []
    seen = set()
    st = [(root, iter(succ(root)))]
    seen.add(root)
    while st:
        node, it = st[-1]
        adv = False
        for s in it:
            if s not in seen:
                seen.add(s)
                st.append((s, iter(succ(s))))
                adv = True
                break
        if not adv:
            order.append(node)
            st.pop()
    rpo = list(reversed(order))
    idx = {b: i for i, b in enumerate(rpo)}
    idom = {root: root}
    changed = True
    def inter(a, b):
        while a != b:
            while idx[a] > idx[b]:
                a = idom[a]
            while idx[b] > idx[a]:
                b = idom[b]
        return a
    while changed:
        changed = False
        for b in rpo[1:]:
            new = None
            for p in pred(b):
                if p in idom and p in idx:
                    new = p if new is None else inter(p, new)
            if new is not None and idom.get(b) != new:
                idom[b] = new
                changed = True
    return idom


class Facts:
    def __init__(self, path, cfg=None):
        with open(path) as fh:
            self.j = json.load(fh)
        self.cfg = cfg
        self.features = self.j['features']
        self.normalisation = {}
        if not os.environ.get('VERIF_NO_NORMALISE'):
            import normalize
            self.normalisation = normalize.normalise(self.j, [f for f in self.features if f])
        self.bodies = {}
        self.inlined_bodies = {}
        for b in self.j['bodies']:
            if b.get('inlined_everywhere'):
                # a helper the reviewed tree does not know, every call of which was replaced by its body: its statements
                # are analysed where they execute (in the callers); listing it again would count them twice
                self.inlined_bodies[b['path']] = Body(b, self)
                continue
            self.bodies[b['path']] = Body(b, self)
        self.adts = {a['path']: a for a in self.j['adts']}
        self.impls = self.j['impls']
        self.statics = self.j['statics']
        self.consts = {c['path']: c for c in self.j['consts']}
        self._callers = None

    def host(self, regex, call_rx):
        """the function matching `regex`, or - when it was folded into a method / its caller and no longer exists under any name the
        normalisation can restore - the one function whose body now contains its characteristic call `call_rx`"""
        r = re.compile(regex)
        out = [b for p, b in self.bodies.items() if r.search(p)]
        if len(out) == 1:
            return out[0]
        cr = re.compile(call_rx)
        hosts = [b for p, b in self.bodies.items() if b.kind != 'closure' and not cr.search(p) and any(c.is_(call_rx) for c in b.calls())]
        if len(hosts) == 1:
            return hosts[0]
        raise Broken('no function matches %r and %d functions call %r in config %s' % (regex, len(hosts), call_rx, self.cfg))

    def listed(self, fn, table):
        """is `fn` covered by the who-may registry `table` (a set/dict of reviewed function paths)?  When a listed function
        was dissolved into its callers by hand (it no longer exists and has no successor), its reviewed callers inherit
        the entry - the code is the same, it only lives one level up now."""
        if fn in table:
            return True
        lost = set(self.normalisation.get('missing_reviewed', []))
        if not lost:
            return False
        import normalize
        A = normalize.audit().get('functions', {})
        return any(t in lost and fn in A.get(t, {}).get('callers', []) for t in table)

    def body(self, path, required=True):
        b = self.bodies.get(path)
        if b is None and required:
            raise Broken('anchor function %r not found in config %s' % (path, self.cfg))
        return b

    def find(self, regex, required=True):
        r = re.compile(regex)
        out = [b for p, b in self.bodies.items() if r.search(p)]
        if not out and required:
            raise Broken('no function matches %r in config %s' % (regex, self.cfg))
        return out

    def one(self, regex):
        out = self.find(regex)
        if len(out) != 1:
            raise Broken('expected exactly one function matching %r in config %s, got %s' % (
                regex, self.cfg, [b.path for b in out]))
        return out[0]

    def closures_of(self, body):
        pre = body.path + '::{closure'
        out = [b for p, b in self.bodies.items() if p.startswith(pre)]
        # closures created by code that was inlined from a helper keep the helper's path
        extra = set()
        for blk in body.blocks:
            for st in blk['stmts']:
                c = st.get('rv', {}).get('closure')
                if c and not c.startswith(pre) and c in self.bodies:
                    extra.add(c)
        for c in sorted(extra):
            out += [b for p, b in self.bodies.items() if p == c or p.startswith(c + '::{closure')]
        return out

    def family(self, body):
        """body plus its (nested) closures"""
        return [body] + self.closures_of(body)

    def all_calls(self):
        for b in self.bodies.values():
            for c in b.calls():
                yield c

    def callers(self):
        """callee path -> set of caller body paths (resolved, crate-local callees)"""
        if self._callers is None:
            m = defaultdict(set)
            for b in self.bodies.values():
                for c in b.calls():
                    for n in c.names:
                        m[n].add(b.path)
                # closures count as called by their parent
            for b in self.bodies.values():
                if b.kind == 'closure':
                    par = b.path.rsplit('::{closure', 1)[0]
                    m[b.path].add(par)
            self._callers = m
        return self._callers

    def adt(self, path):
        a = self.adts.get(path)
        if a is None:
            raise Broken('ADT %r not found' % path)
        return a

    def variants(self, path):
        return [v['name'] for v in self.adt(path)['variants']]


def dir_hash(d):
    h = hashlib.sha256()
    for dp, dn, fn in sorted(os.walk(d)):
        dn[:] = sorted(x for x in dn if x not in ('target', '.git'))
        for f in sorted(fn):
            if f == 'Cargo.lock':
                continue
            p = os.path.join(dp, f)
            h.update(p.encode()); h.update(b'\0')
            with open(p, 'rb') as fh:
                h.update(fh.read())
    return h.hexdigest()[:16]

def load_witness(name, features='-', repo=REPO, wdir=None):
    """compile the witness crate /verif/witness/<name> (which depends on /repo by path) under the driver
    and load the facts of the witness crate itself"""
    wdir = wdir or os.path.join(VERIF, 'witness', name)
    th = tree_hash(repo)
    d = os.path.join(CACHE, th)
    os.makedirs(d, exist_ok=True)
    p = os.path.join(d, 'witness-%s-%s-%s.json' % (name, cfg_key(features), dir_hash(wdir)))
    if not os.path.exists(p):
        lock = open(os.path.join(d, '.lock.witness'), 'w')
        fcntl.flock(lock, fcntl.LOCK_EX)
        try:
            if not os.path.exists(p):
                lockfile = os.path.join(repo, 'Cargo.lock')
                if repo != '/repo':
                    # analysing a scratch copy of the repository: build the witness from a scratch copy that points at it
                    w2 = tempfile.mkdtemp(prefix='witness_')
                    shutil.copytree(wdir, os.path.join(w2, name), ignore=shutil.ignore_patterns('target', 'Cargo.lock'))
                    wdir = os.path.join(w2, name)
                    ct = open(os.path.join(wdir, 'Cargo.toml')).read().replace('path = "/repo', 'path = "%s' % repo)
                    open(os.path.join(wdir, 'Cargo.toml'), 'w').write(ct)
                if os.path.exists(lockfile):
                    shutil.copy(lockfile, os.path.join(wdir, 'Cargo.lock'))
                tmp = p + '.dir.%d' % os.getpid()
                shutil.rmtree(tmp, ignore_errors=True)
                env = dict(os.environ); env['MIRFACTS_CRATES'] = name
                pr = subprocess.run([os.path.join(VERIF, 'tools/extract.sh'), tmp, name, features, wdir],
                                    stdout=subprocess.PIPE, stderr=subprocess.STDOUT, env=env)
                fs = glob.glob(os.path.join(tmp, name + '.*.json'))
                if pr.returncode != 0 or len(fs) != 1:
                    out = pr.stdout.decode(errors='replace')
                    shutil.rmtree(tmp, ignore_errors=True)
                    raise Broken('witness crate %s does not compile against the current /repo (rc=%s):\n%s' % (name, pr.returncode, out[-3000:]))
                os.replace(fs[0], p)
                shutil.rmtree(tmp, ignore_errors=True)
        finally:
            fcntl.flock(lock, fcntl.LOCK_UN); lock.close()
    return Facts(p, 'witness:' + name)

def load(cfgs, repo=REPO):
    paths = ensure_facts(cfgs, repo)
    return {c: Facts(p, c) for c, p in paths.items()}
