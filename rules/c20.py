"""C20 - optional cargo features do not change parsing.

Method: the MIR of every function is compared between the feature-less build and each single-feature build of the
same source tree (statements aligned by source span + shape, never by local/block numbers).  Whatever exists in
only one of the two builds must belong to a class that cannot change outcomes:

 B builds        every analysed feature configuration compiles.
 A additive      batteries / docgen (/ derive, thorough tier) add items; shared functions are unchanged, except the listed
                 carried-data sites of docgen (HelpItem::Command.info and derived Debug).
 C colour        colour features differ only in: Color's derived impls, Color::default and print_message (print-only:
                 reachable only from print_message <- run), and render_console where each `res.push_str(s)` of the
                 colourless build corresponds to `color.push_str(style, &mut res, s)`, whose Monochrome arm is exactly
                 `buf.push_str(item)`.
 I inert         autocomplete: the feature build is evaluated abstractly under the assumption "completion is off"
                 (State.comp == None, Args.c_rev == None, no item carries the --bpaf-complete- marker); on every path
                 that is live under the assumption, each feature-only statement is a call into the inert family, a
                 pure call, or a write to a local that only feature-only code touches; nothing feature-only writes `_0`,
                 the State, or any local the base build also uses.
 F family        each member of the inert family, evaluated under the same assumption, returns a constant and writes
                 nothing but the `comp` field; ArgScanner::check_next has all its effects behind comparisons with the
                 completion marker.
 T live-pure     feature-only crate functions that run even with completion off (Doc::to_completion ..) cut strings only at char
                 boundaries (C04 rules applied to exactly these functions): they cannot fail where the base build succeeds.
 M arm-agree     a cfg(not(feature)) arm (a statement only the base build has) assigns the constant the feature arm
                 evaluates to under the assumption.
 C colour detect  in every colour configuration Color::default() is Monochrome unless both streams are terminals (table; shared with C11).
 F swaps are writes a mem::swap / replace / take inside a completion-family function may only touch the completion fields.
 C print_message   in the colour builds print_message renders the payload of the failure itself (same text as the colourless build and run_inner; shared with C11).
Does not decide: nothing further beyond the soundness of the summaries (trusted: this analyser, rustc's MIR)."""
import re
from core import *
from dataflow import *
from cfgq import *
from absint import *
from parsers import *
import mirdiff

LEVEL = 'other'
EXPLANATION = __doc__
ASSUMPTIONS = ['A1: Args.c_rev is None (set_comp not called)', 'A2: no command-line item starts with --bpaf-complete- (the property excludes such vectors)',
               'supports-color / owo-colors only affect coloured printing']
FLOORS = {'B.builds': 6, 'A.additive': 3, 'C.colour': 10, 'I.inert': 20, 'F.family': 15, 'M.arm-agree': 1, 'T.live-pure-total': 2}

INERT_FAMILY = [r'^args::inner::State::(comp_mut|comp_ref|is_comp|swap_comps|touching_last_remove|check_no_pos_ahead|set_no_pos_ahead)$',
                r'^args::<impl args::inner::State>::swap_comps_with$',
                r'^complete_gen::<impl args::inner::State>::(push_\w+|clear_comps|check_complete|extend_with_style)$',
                r'^complete_run::ArgScanner::<\'_>::(check_next|done)$']
PURE_CALLS = [r'^std::vec::Vec::<T>::new$', r'^std::option::Option::<.*>::(is_some|is_none|as_ref|as_mut|as_deref|copied|cloned|map_or|map|unwrap_or)$',
              r'^core::slice::<impl \[T\]>::(first|iter|len|is_empty)$', r'as std::ops::Deref>::deref$', r'as std::ops::DerefMut>::deref_mut$',
              r'as std::clone::Clone>::clone$', r'^args::inner::State::(len|present|depth|scope)$', r'^arg::Arg::os_str$', r'as std::cmp::PartialEq.*>::(eq|ne)$',
              r'Iterator>?::(next|enumerate)$', r'IntoIterator>?::into_iter$', r'^std::vec::Vec::<T, A>::len$', r'as std::ops::Index<.*>>::index$', r'as std::ops::IndexMut<.*>>::index_mut$',
              r'^buffer::Doc::to_completion$', r'^std::mem::drop', r'as std::convert::(From|Into)<.*>>::(from|into)$']

def model(b):
    """call model of the assumption 'completion is off' for body b"""
    def cm(w, c, store):
        if c.is_(r'State::(comp_mut|comp_ref)$', r'ArgScanner::<\'_>::done$', r'check_complete$'):
            return ('agg', 'std::option::Option', 'None', [])
        if c.is_(r'State::(is_comp|touching_last_remove|check_no_pos_ahead)$', r'ArgScanner::<\'_>::check_next$'):
            return ('c', False)
        if c.is_(r'Option::<.*>::(is_some|is_none)$') and c.args:
            rs = provenance(b, c.args[0], c.bb, 'term')
            if rs and all(('revision' in r.path or 'c_rev' in r.path or 'comp' in r.path) for r in rs):
                return ('c', c.is_(r'is_none$'))
        if c.is_(r'Option::<.*>::(as_mut|as_ref)$') and c.args:
            rs = provenance(b, c.args[0], c.bb, 'term')
            if rs and all(r.path[-1:] == ['comp'] for r in rs):
                return ('agg', 'std::option::Option', 'None', [])
        if c.is_(r'as std::ops::Try>::branch$') and c.args:
            rs = provenance(b, c.args[0], c.bb, 'term')
            if rs and all(r.kind in ('param', 'upvar') and r.path[-1:] in (['revision'], ['c_rev'], ['comp']) for r in rs):
                return ('agg', 'std::ops::ControlFlow', 'Break', [('agg', 'std::option::Option', 'None', [])])
        if c.is_(r'Option::<.*>::map_or$') and c.args:
            a0 = w.opval(c.args[0], store)
            if a0 is not UNKNOWN and a0[0] == 'agg' and a0[2] == 'None':
                return w.opval(c.args[1], store)
        return ('callres', c.name, c.bb)
    cm.first = True
    return cm

def live_blocks(b, extra_variant_of=None):
    vo = {}
    # discriminant of `(*self).comp` / `args.c_rev`
    for l in range(len(b.locals)):
        vo[(l, ('comp',))] = 'None'
        vo[(l, ('c_rev',))] = 'None'
        vo[(l, ('revision',))] = 'None'
    if extra_variant_of:
        vo.update(extra_variant_of)
    w = Walker(b, call_model=model(b), variant_of=vo, max_paths=6000, max_visits=2)
    paths = w.run()
    live = set()
    for p in paths:
        live |= set(p.blocks)
    return w, paths, live

def run(ctx):
    quick = ['none', 'ac', 'doc', 'bat', 'dull', 'bright', 'all']
    cfgs = quick if ctx.tier == 'quick' else quick + ['autocomplete,docgen', 'autocomplete,dull-color', 'autocomplete,batteries', 'docgen,batteries', 'autocomplete,docgen,batteries,bright-color', 'derive']
    for c in cfgs:
        try:
            ctx.facts(c)
            ctx.ob('B.builds', 'config:%s' % cfg_key(c), True, 'feature configuration {%s} compiles and was analysed' % feature_string(c), cfg=cfg_key(c))
        except Broken as e:
            ctx.ob('B.builds', 'config:%s' % cfg_key(c), False, 'feature configuration {%s} does not compile: %s' % (feature_string(c), str(e)[-300:]), cfg=cfg_key(c))
            return
    base = ctx.facts('none')
    ctx.guard(additive, ctx, base, ctx.facts('bat'), 'bat', allowed={})
    additive(ctx, base, ctx.facts('doc'), 'doc', allowed={
        "<meta_help::HelpItem<'a> as std::convert::From<&'a item::Item>>::from": 'copies the docgen-only field Item::Command.info into HelpItem::Command.info (carried data, read only by docgen functions)',
        "<meta_help::HelpItem<'a> as std::fmt::Debug>::fmt": 'derived Debug prints the extra field'})
    if ctx.tier != 'quick':
        ctx.guard(additive, ctx, base, ctx.facts('derive'), 'derive', allowed={})
    for col in ('dull', 'bright'):
        ctx.guard(colour, ctx, base, ctx.facts(col), col)
        import c08, c11
        ctx.guard(c08.keep_only, ctx, lambda col=col: c11.colour_detection(ctx, col, ctx.facts(col)), lambda o: True, 'C.colour')
        ctx.guard(c08.keep_only, ctx, lambda col=col: c11.stream_table(ctx, col, ctx.facts(col)), lambda o: 'print_message' in o.key, 'C.colour')
    ctx.guard(inert, ctx, base, ctx.facts('ac'), 'ac')
    ctx.guard(family, ctx, ctx.facts('ac'), 'ac')
    ctx.guard(live_pure_total, ctx, ctx.facts('ac'), 'ac')
    # the combined build is the sum of the parts: compare `all` against `ac` on the autocomplete-touched functions
    if ctx.tier != 'quick':
        ctx.guard(inert, ctx, ctx.facts('docgen,batteries'), ctx.facts('all' if False else 'autocomplete,docgen,batteries,bright-color'), 'ac+others', colour_ok=True)

def differing(base, feat):
    out = []
    for p in sorted(base.bodies):
        if p in feat.bodies:
            a, b = mirdiff.diff_bodies(base.bodies[p], feat.bodies[p])
            if a or b:
                out.append((p, a, b))
    return out

def additive(ctx, base, feat, name, allowed):
    gone = [p for p in base.bodies if p not in feat.bodies]
    ctx.ob('A.additive', '%s:nothing-removed' % name, not gone, 'enabling %s removes no function (%d added): %s' % (name, len([p for p in feat.bodies if p not in base.bodies]), gone[:5] or 'ok'), cfg=name)
    diffs = differing(base, feat)
    for (p, a, b) in diffs:
        ok = p in allowed
        # carried data: feature-only items may only read/copy the gated field, no calls besides derived formatting
        if ok:
            calls = [it.sig for it in a + b if it.sig.startswith('call:') and 'debug_struct' not in it.sig]
            ok = not calls
        ctx.ob('A.additive', '%s:changed:%s' % (name, short(p)), ok,
               'enabling %s changes the body of %s (-%d/+%d statements): %s' % (name, short(p), len(a), len(b), allowed.get(p, 'NOT an additive change: a function shared by both builds differs')),
               where=(a + b)[0].where(), cfg=name)
    ctx.ob('A.additive', '%s:shared-functions-unchanged' % name, all(p in allowed for (p, a, b) in diffs), '%s: %d shared function(s) differ, all listed' % (name, len(diffs)), cfg=name)

COLOUR_FNS = {
    '<buffer::console::Color as std::cmp::PartialEq>::eq': 'derived', '<buffer::console::Color as std::fmt::Debug>::fmt': 'derived', '<buffer::console::Color as std::clone::Clone>::clone': 'derived',
    '<buffer::console::Color as std::default::Default>::default': 'print-only', 'error::ParseFailure::print_message': 'print-only',
    'buffer::console::<impl buffer::Doc>::render_console': 'mono-equiv',
}

def colour(ctx, base, feat, name):
    diffs = differing(base, feat)
    for (p, a, b) in diffs:
        cls = COLOUR_FNS.get(p)
        ctx.ob('C.colour', '%s:changed:%s' % (name, short(p)), cls is not None, 'colour feature %s changes %s (-%d/+%d): %s' % (name, short(p), len(a), len(b), cls or 'NOT a listed colour site'), where=(a + b)[0].where(), cfg=name)
        if cls == 'mono-equiv':
            minus = [it for it in a if it.sig.startswith('call:')]
            plus = [it for it in b if it.sig.startswith('call:')]
            ok = all(it.sig == 'call:std::string::String::push_str' for it in minus) and all(it.sig == 'call:buffer::console::Color::push_str' for it in plus) and len(minus) == len(plus) and bool(plus)
            # same text operand: last argument of both calls has the same provenance descriptor
            fb = feat.bodies[p]; bb_ = base.bodies[p]
            if ok:
                for m_, p_ in zip(sorted(minus, key=lambda i: i.span['line']), sorted(plus, key=lambda i: i.span['line'])):
                    cm_ = bb_.call_at(m_.bb); cp_ = fb.call_at(p_.bb)
                    dm = sorted('%s:%s.%s' % (r.kind, r.what if r.kind != 'call' else short(r.call.name), '.'.join(r.path)) for r in provenance(bb_, cm_.args[-1], cm_.bb, 'term'))
                    dp = sorted('%s:%s.%s' % (r.kind, r.what if r.kind != 'call' else short(r.call.name), '.'.join(r.path)) for r in provenance(fb, cp_.args[-1], cp_.bb, 'term'))
                    rm = sorted('%s:%s' % (r.kind, r.what if r.kind != 'call' else short(r.call.name)) for r in provenance(bb_, cm_.args[0], cm_.bb, 'term'))
                    rp = sorted('%s:%s' % (r.kind, r.what if r.kind != 'call' else short(r.call.name)) for r in provenance(fb, cp_.args[2], cp_.bb, 'term'))
                    ok &= dm == dp and rm == rp
            ctx.ob('C.colour', '%s:render_console:push-sites-correspond' % name, ok,
                   'render_console: each res.push_str(s) of the colourless build is color.push_str(style, &mut res, s) with the same buffer and text in the %s build (%d site(s)): %s' % (name, len(plus), ok), where=b[0].where() if b else None, cfg=name)
    # Color::push_str: Monochrome arm only appends the text
    ps = feat.one(r'^buffer::console::Color::push_str$')
    sw = [s for s in switches(ps) if s.kind == 'enum' and s.enum == 'buffer::console::Color']
    ok = False; detail = 'no switch on Color'
    if sw:
        t = sw[0].target('Monochrome')
        others = [x for o, x in sw[0].edges.items() if x != t]
        reach = reachable_edges(ps, t, avoid=others)
        for o in others:
            reach -= reachable_edges(ps, o)
        calls = [ps.call_at(x) for x in reach if ps.call_at(x) is not None]
        names = [c.name for c in calls]
        ok = len(calls) == 1 and calls[0].is_(r'^std::string::String::push_str$')
        if ok:
            a0 = provenance(ps, calls[0].args[0], calls[0].bb, 'term'); a1 = provenance(ps, calls[0].args[1], calls[0].bb, 'term')
            ok = bool(a0) and bool(a1) and all(r.kind == 'param' and not r.path for r in a0 + a1) and {r.what for r in a0}.isdisjoint({r.what for r in a1}) and \
                all('String' in ps.local_ty([i for i in range(1, ps.arg_count + 1) if ps.name_of(i) == r.what][0]) for r in a0) and \
                all('str' in ps.local_ty([i for i in range(1, ps.arg_count + 1) if ps.name_of(i) == r.what][0]) for r in a1)
        detail = 'Monochrome arm calls %s' % [short(n) for n in names]
    ctx.ob('C.colour', '%s:Color::push_str:monochrome-is-verbatim' % name, ok, 'Color::push_str(Monochrome, _, buf, item) is exactly buf.push_str(item): %s' % detail, where=ps.where(), cfg=name)
    # print-only: callers
    callers = feat.callers()
    for fn, want in (('<buffer::console::Color as std::default::Default>::default', {'error::ParseFailure::print_message'}),
                     ('error::ParseFailure::print_message', {'info::OptionParser::<T>::run', 'error::ParseFailure::print_mesage'})):
        cs = {outer(c) for c in callers.get(fn, ())}
        ctx.ob('C.colour', '%s:print-only:%s' % (name, short(fn)), cs <= want, '%s is called only from %s (printing path of run(), never from run_inner)' % (short(fn), sorted(cs)), cfg=name)
    # monochrome() passes Color::Monochrome
    m = feat.one(r'buffer::console::<impl buffer::Doc>::monochrome$')
    rc = [c for c in m.calls() if c.is_(r'render_console$')]
    ok = len(rc) == 1 and all(r.kind == 'agg' and r.what == 'buffer::console::Color::Monochrome' for r in provenance(m, rc[0].args[2], rc[0].bb, 'term', through=None))
    ctx.ob('C.colour', '%s:monochrome-passes-Monochrome' % name, ok, 'Doc::monochrome renders with Color::Monochrome: %s' % ok, where=m.where(), cfg=name)
    d = feat.one(r'^<buffer::Doc as std::fmt::Display>::fmt$')
    rc = [c for c in d.calls() if c.is_(r'render_console$')]
    ok = len(rc) == 1 and all(r.kind == 'agg' and r.what == 'buffer::console::Color::Monochrome' for r in provenance(d, rc[0].args[2], rc[0].bb, 'term', through=None))
    ctx.ob('C.colour', '%s:display-passes-Monochrome' % name, ok, 'Display for Doc renders with Color::Monochrome: %s' % ok, where=d.where(), cfg=name)

def gated_only_locals(fb, extra_keys):
    """locals of the feature body all of whose definitions are feature-only items"""
    defs = {}
    for it in mirdiff.items_of(fb):
        tgt = None
        if it.idx == 'term':
            t = it.st
            if t['k'] == 'call' and t.get('dest') is not None:
                tgt = t['dest'][0]
        elif it.st['k'] in ('assign', 'setdiscr'):
            tgt = it.st['lhs'][0]
        if tgt is not None:
            defs.setdefault(tgt, []).append((it.bb, it.idx) in extra_keys)
    return {l for l, flags in defs.items() if all(flags) and l > fb.arg_count and l != 0}

def inert(ctx, base, feat, name, colour_ok=False):
    diffs = differing(base, feat)
    for (p, a, b) in diffs:
        if colour_ok and p in COLOUR_FNS:
            continue
        fb = feat.bodies[p]; bb_ = base.bodies[p]
        ctx.look(fb)
        if re.search(r' as std::(fmt::Debug|clone::Clone|cmp::PartialEq)>', p):
            # derived impls of types with a gated field (all statements share the span of the derive attribute):
            # the difference may only consist of field reads and the per-field clone / debug helper calls
            okk = not a or all(it.sig.startswith('call:std::fmt::Formatter') for it in a)
            for it in b:
                if it.sig.startswith('call:'):
                    okk &= bool(re.search(r'as std::clone::Clone>::clone$|std::fmt::Formatter::<.a>::debug_|as std::cmp::PartialEq', it.sig))
                elif it.sig.startswith('assign:'):
                    okk &= bool(re.match(r'assign:(ref|use|cast|agg:tuple|agg:array|rawptr)', it.sig)) and not it.st['lhs'][1]
                else:
                    okk &= it.sig.startswith('switch') and False
            ctx.ob('I.inert', '%s:derived:%s' % (name, short(p)), okk, 'derived impl %s differs only by handling one more field (-%d/+%d statements)' % (short(p), len(a), len(b)), where=fb.where(), cfg=name)
            continue
        w, paths, live = live_blocks(fb)
        extra_keys = {(it.bb, it.idx) for it in b}
        gated = gated_only_locals(fb, extra_keys)
        bad = []
        n_live = 0
        for it in b:
            if it.bb not in live:
                continue
            n_live += 1
            if it.idx == 'term':
                t = it.st
                if t['k'] in ('call', 'tailcall'):
                    c = Call(fb, it.bb, t)
                    dest_ok = t.get('dest') is None or (not t['dest'][1] and (t['dest'][0] in gated or fb.local_ty(t['dest'][0]) == '()'))
                    if c.is_(*INERT_FAMILY):
                        if not dest_ok and not c.is_(r'comp_mut$|comp_ref$|is_comp$|touching_last_remove$|check_no_pos_ahead$|check_next$|done$|check_complete$'):
                            bad.append((it, 'result of %s stored in a shared place' % short(c.name)))
                        elif not dest_ok:
                            bad.append((it, 'result of %s stored in a place the base build also uses' % short(c.name)))
                    elif c.is_(*PURE_CALLS):
                        if not dest_ok:
                            bad.append((it, 'pure call %s writes a place the base build also uses' % short(c.name)))
                    else:
                        bad.append((it, 'feature-only call to %s is live with completion off and is neither inert nor pure' % short(c.name)))
                elif t['k'] == 'switch':
                    pass   # both outcomes explored by the walker when unknown
                elif t['k'] == 'assert':
                    pass   # overflow/bounds asserts of feature-only arithmetic: covered by the C04 census
            else:
                st = it.st
                lhs = st['lhs']
                if lhs[0] in gated:
                    continue
                # write through a reference held in a gated-only local is a write to somewhere else
                bad.append((it, 'feature-only statement writes %s, which the base build also uses' % place_str(lhs, fb)))
        for (it, why) in bad:
            ctx.ob('I.inert', '%s:%s:%s' % (name, short(p), it.sig[:70]), False, '%s [%s]: %s' % (short(p), it.sig[:80], why), where=it.where(), cfg=name)
        ctx.ob('I.inert', '%s:%s:inert' % (name, short(p)), not bad,
               '%s: %d feature-only statement(s), %d live with completion off, all inert (family call, pure call, or write to a feature-only local): %s' % (short(p), len(b), n_live, not bad), where=fb.where(), cfg=name)
        # arm-agree for base-only statements
        for it in a:
            if it.idx == 'term':
                ctx.ob('M.arm-agree', '%s:%s:%s' % (name, short(p), it.sig[:60]), False, '%s: the base build has a terminator the feature build lacks: %s' % (short(p), it.sig), where=it.where(), cfg=name)
                continue
            st = it.st
            rv = st['rv']
            nm = bb_.local_names.get(st['lhs'][0])
            ok = False; detail = ''
            if rv['k'] == 'use' and rv['op'][0] == 'c' and 'v' in rv['op'][1] and nm and not st['lhs'][1]:
                want = rv['op'][1]['v']
                vals = set()
                for pth in paths:
                    for (blk, l, v) in pth.assigns:
                        if fb.local_names.get(l) == nm:
                            vals.add(show(v))
                ok = vals == {repr(want)}
                detail = 'base assigns %r to `%s`; under the assumption the feature build assigns %s' % (want, nm, sorted(vals))
            else:
                detail = 'base-only statement %s has no counterpart rule' % it.sig
            ctx.ob('M.arm-agree', '%s:%s:%s' % (name, short(p), nm or it.sig[:40]), ok, '%s: %s' % (short(p), detail), where=it.where(), cfg=name)

def live_pure_total(ctx, feat, name):
    """feature-only crate functions that run even with completion off (listed in PURE_CALLS) must not be able to
    fail: their string cuts take char-boundary offsets (the C04 rules, applied to exactly these functions)"""
    import c04
    mine = [b for b in feat.bodies.values() if b.kind != 'closure' and any(re.search(p_, b.path) for p_ in PURE_CALLS) and not b.path.startswith('std::')]
    names = {short(outer(b.path)) for b in mine}
    before = len(ctx.obs)
    c04.str_cut(ctx, name, feat); c04.str_index(ctx, name, feat)
    keep = [o for o in ctx.obs[before:] if o.key.split('|')[0] in names]
    for o in keep: o.rule = 'T.live-pure-total'
    ctx.obs = ctx.obs[:before] + keep
    ctx.ob('T.live-pure-total', '%s:functions' % name, bool(mine), 'feature-only functions that run with completion off: %s' % sorted(names), cfg=name)

def family(ctx, feat, name):
    fam = [b for b in feat.bodies.values() if b.kind != 'closure' and any(re.search(p, b.path) for p in INERT_FAMILY)]
    for b in sorted(fam, key=lambda x: x.path):
        ctx.look(b)
        if b.path.endswith('check_next'):
            # A2: no item carries the marker: every comparison with a --bpaf-complete-* constant is false
            def cm2(w, c, store):
                if c.is_(r'PartialEq.*>::eq$', r'str::<impl str>::(strip_prefix|starts_with)$'):
                    if any(r.kind == 'const' and isinstance(r.what, str) and r.what.startswith('--bpaf-complete-') for a in c.args for r in provenance(b, a, c.bb, 'term')):
                        return ('agg', 'std::option::Option', 'None', []) if c.is_(r'strip_prefix') else ('c', False)
                return ('callres', c.name, c.bb)
            cm2.first = True
            w = Walker(b, call_model=cm2)
            paths = w.run()
            eff = []; rets = set(); n_guards = 0
            for c in b.calls():
                if c.is_(r'PartialEq.*>::eq$', r'str::<impl str>::(strip_prefix|starts_with)$') and any(r.kind == 'const' and isinstance(r.what, str) and r.what.startswith('--bpaf-complete-') for a in c.args for r in provenance(b, a, c.bb, 'term')):
                    n_guards += 1
            for pth in paths:
                if pth.end == 'return':
                    rets.add(show(pth.ret))
                elif pth.end == 'diverge':
                    eff.append('diverges (exit)')
                for (blk, c) in pth.calls:
                    if c.is_(r'dump_\w+_completer$', r'^std::process::'):
                        eff.append(short(c.name))
                for (blk, pl, v) in pth.writes:
                    eff.append('writes %s' % pl)
            ok = bool(paths) and not eff and rets == {'False'} and n_guards >= 5
            ctx.ob('F.family', '%s:check_next:inert-without-marker' % name, ok,
                   'ArgScanner::check_next, when no comparison with a --bpaf-complete-* marker succeeds (%d marker comparisons): returns %s, effects: %s' % (n_guards, sorted(rets), sorted(set(eff)) or 'none'), where=b.where(), cfg=name)
            continue
        selfl = 1
        w, paths, live = live_blocks(b)
        writes = []; calls_bad = []
        rets = set()
        for pth in paths:
            if pth.end == 'return':
                rets.add(show(pth.ret))
            for (blk, pl, v) in pth.writes:
                if 'comp' not in pl and 'no_pos_ahead' not in pl:
                    writes.append(pl)
            for (blk, c) in pth.calls:
                if c.is_(r'^std::mem::(swap|replace|take)'):
                    # a swap is a write to both places: only the completion fields may be exchanged
                    for a in c.args:
                        for r in provenance(b, a, c.bb, 'term'):
                            fld = [x for x in r.path if not x.startswith('as ') and not x.isdigit()]
                            if r.kind == 'param' and fld and not any(x in ('comp', 'no_pos_ahead', 'comps') for x in fld):
                                writes.append('%s.%s (through mem::%s)' % (r.what, '.'.join(fld), c.name.split('::')[-1].split('<')[0]))
                    continue
                if c.is_(*INERT_FAMILY) or c.is_(*PURE_CALLS) or c.is_(r'Try>::branch$', r'FromResidual'):
                    continue
                calls_bad.append(short(c.name))
        is_pred = b.local_ty(0) in ('bool',) or b.local_ty(0).startswith('std::option::Option<')
        const_ret = (not is_pred) or (len(rets) == 1 and list(rets)[0] in ('False', 'None', 'True'))
        ok = not writes and not calls_bad and const_ret and bool(paths)
        ctx.ob('F.family', '%s:%s:inert-when-off' % (name, short(b.path)), ok,
               '%s with completion off: returns %s, writes %s, other calls %s' % (short(b.path), sorted(rets), sorted(set(writes)) or 'nothing but comp', sorted(set(calls_bad)) or 'none'), where=b.where(), cfg=name)
