"""C14 - dynamic completion offers real, visible, applicable candidates (structural clauses; autocomplete builds).

Decides:
 P precedence      run_subparser: every path to a parsed value, to help/version output or to the rendered error passes the
                   None edge of check_complete() (listed earlier returns: fallback_to_usage help, an inner level's final answer).
 N no-late-none    check_complete gives up (None) only because completion is off or because the LAST item cannot be
                   obtained as UTF-8; once the last item is in hand every return is Some(rendered completions) (or the listed
                   protocol exit for unknown revisions).
 H hide            ParseHide::eval brackets the inner eval with swap_comps_with on one local stash that is never handed back:
                   hidden items are never offered.  The same bracket in group_help / complete / complete_shell hands the stash
                   back (their items stay visible).  Every return after the inner eval passes the restoring swap (also on failure).
 M marker first    State::construct reads the completion revision only after the items were scanned for the marker (a snapshot
                   taken before the scan is right for set_comp() and wrong for requests made through the marker item).
 V verbatim        arg_matches / cmd_matches compare the typed word as it is (no trimming / case folding).
 L last item       `index + 1 == len` in the keep/drop decision between alternatives compares the index with the length of the
                   collection it enumerates (not with the number of remaining items).
 E hint emission   every failing exit of the four primitives (flag, argument, positional, command) is preceded by a call into
                   the hint family for that item; push_* record the current depth and act only when completion is on.
 W wrappers hand hints over   fallback / fallback_with move the hints collected on the scratch clone back to the caller's
                   state on EVERY failure of the inner parser (catchable or not); parse_option does so when it swallows one.
 D dispatch        revision -> renderer table (shared with C15).
 L last of line   touching_last_remove compares the consumed index with the length of the WHOLE item list (not the end of the current
                   scope, which inside an adjacent group is not what the user is typing).
 H hints put back complete(..)/complete_shell(..) put every stashed hint that is not a metavariable back through push_comp.
 P positional-only  the flag handed to Complete::complete is true exactly when the item BEFORE the word being completed is a PosWord; neither the
                   spelling nor the kind of the word itself takes part.
 W every swallow   every way from the inner failure to Ok(None) in parse_option (also the `catch` way) hands the hints of the failed attempt over.
 E offered anyway  take_argument pushes its name hint on every way out of the "name is not on the line" arm, also when the value then comes from the environment.
 P value mode      "only values make sense" is concluded from hints of the active level only (only_value is asked about elements of the depth-filtered
                   iterator, never about all collected hints).
 H group push      push_with_group hands every stashed hint back whether or not the group has a (non-blank) title; E prefix table: the text in front of a
                   value completed inside `-o=..` / `--opt=..` has one dash for a short and two for a long name; E matcher: short names match exactly,
                   long / command names by prefix OF THE NAME.
 E write-only      the push_* helpers never read the hints collected so far; P usage fallback answers only a line that was empty before parsing (shared with C10).
Does not decide: the candidate set for a given prefix (depth / prefix filtering is value-level)."""
import re
from core import *
from dataflow import *
from cfgq import *
from parsers import *
import scopes, c15, c06

LEVEL = 'other'
EXPLANATION = __doc__
ASSUMPTIONS = ['completion mode is entered only through Args::set_comp or the --bpaf-complete-rev marker']
FLOORS = {'P.precedence': 6, 'N.no-late-none': 2, 'H.hide': 9, 'E.hints': 11, 'W.wrappers': 4, 'D.dispatch': 5, 'L.last-item': 1}

def run(ctx):
    cfgs = ['all', 'ac'] if ctx.tier == 'quick' else ['all', 'ac', 'autocomplete,docgen', 'autocomplete,dull-color']
    ctx.preload(cfgs)
    for cfg in cfgs:
        fs = ctx.facts(cfg)
        ctx.guard(precedence, ctx, cfg, fs)
        ctx.guard(no_late_none, ctx, cfg, fs)
        ctx.guard(marker_then_decide, ctx, cfg, fs)
        ctx.guard(verbatim_matching, ctx, cfg, fs)
        ctx.guard(short_exact, ctx, cfg, fs)
        ctx.guard(last_index_tests, ctx, cfg, fs)
        ctx.guard(hide, ctx, cfg, fs)
        ctx.guard(group_push, ctx, cfg, fs)
        ctx.guard(push_helpers_write_only, ctx, cfg, fs)
        ctx.guard(prefix_table, ctx, cfg, fs)
        import c10, c08
        # "never a help screen": fallback_to_usage answers only a line that was empty BEFORE parsing (shared with C10)
        ctx.guard(c08.keep_only, ctx, lambda: c10.usage_fallback(ctx, cfg, ctx.look(fs.one(r'^info::OptionParser::<T>::run_subparser$')), 'P.precedence'), lambda o: True, 'P.precedence')
        ctx.guard(comp_rebuild, ctx, cfg, fs)
        ctx.guard(pos_only_source, ctx, cfg, fs)
        ctx.guard(value_mode_scoped, ctx, cfg, fs)
        ctx.guard(hints, ctx, cfg, fs)
        ctx.guard(wrappers, ctx, cfg, fs)
        before = len(ctx.obs)
        ctx.guard(c15.t6, ctx, cfg, fs)
        for o in ctx.obs[before:]: o.rule = 'D.dispatch'

def precedence(ctx, cfg, fs):
    b = ctx.look(fs.one(r'^info::OptionParser::<T>::run_subparser$'))
    cc = [c for c in b.calls() if c.is_(r'check_complete$')]
    if len(cc) != 1:
        ctx.ob('P.precedence', 'run_subparser:one-check_complete', False, 'run_subparser consults check_complete %d time(s)' % len(cc), where=b.where(), cfg=cfg); return
    sw = switch_on_call(b, cc[0])
    ok = sw is not None and sw.kind == 'enum' and sw.target('None') is not None
    if not ok:
        raise Broken('run_subparser: result of check_complete is not tested')
    none_t = sw.target('None'); some_t = sw.target('Some')
    targets = {}
    for i in ok_return_blocks(b):
        targets['parsed value'] = targets.get('parsed value', []) + [i]
    for c in b.calls():
        if c.is_(r'^error::Message::render$'): targets.setdefault('rendered error', []).append(c.bb)
        if c.is_(r'^<info::Info as Parser<info::ExtraParams>>::eval$'): targets.setdefault('help/version lookup', []).append(c.bb)
    for nm, blocks in sorted(targets.items()):
        good = all(only_via_edge(b, sw.b, none_t, x) for x in blocks)
        ctx.ob('P.precedence', 'run_subparser:%s-after-completion' % nm.replace(' ', '-').replace('/', '-'), good, 'the %s is reachable only after check_complete() returned None: %s' % (nm, good), where=b.where(blocks[0]), cfg=cfg)
    comp = [i for i, k, st in b.stmts() if st['k'] == 'assign' and st['rv']['k'] == 'agg' and st['rv'].get('variant') == 'Completion']
    good = bool(comp) and all(only_via_edge(b, sw.b, some_t, i) for i in comp)
    ctx.ob('P.precedence', 'run_subparser:completion-is-returned', good, 'Some(completions) is returned as ParseFailure::Completion right away: %s' % good, where=b.where(), cfg=cfg)
    # the state inspected is the one the inner parser worked on
    sid = scopes.state_id(b, cc[0].args[0], cc[0].bb)
    ctx.ob('P.precedence', 'run_subparser:check_complete-on-caller-state', sid == 'args', 'check_complete inspects the caller\'s state (%s)' % (sid,), where=cc[0].where(), cfg=cfg)

def last_index_tests(ctx, cfg, fs):
    """`ix + 1 == n` asks "is this the last element?" only if n is the length of the very collection ix enumerates.
    (The keep/drop decision between alternatives treats a last item of "", "-" or "--" specially; comparing the index
    with the number of REMAINING items instead makes that depend on what was consumed earlier on the line.)"""
    IT = DEFAULT_THROUGH + [r'slice::<impl \[T\]>::iter$', r'IntoIterator>?::into_iter$', r'Iterator>?::(enumerate|by_ref|copied|cloned)$', r'Vec::<.*>::as_slice$']
    def base(b, op, bb, ix='term'):
        rs = provenance(b, op, bb, ix, through=IT)
        return sorted({(r.kind, str(r.what), tuple(r.path)) for r in rs})
    n = 0
    for b in sorted(fs.bodies.values(), key=lambda x: x.path):
        if not re.search(r'^structs::this_or_that_picks_first$|^complete_gen::|^complete_run::', outer(b.path)):
            continue
        for sw in switches(b):
            if sw.kind != 'bool': continue
            for r in sw.roots:
                if r.kind != 'bin' or r.extra['op'] not in ('Eq', 'Ne'):
                    continue
                for (x, y) in ((r.extra['a'], r.extra['b']), (r.extra['b'], r.extra['a'])):
                    xs = provenance(b, x, r.site[0], r.site[1], through=None)
                    if not (xs and all(q.kind == 'bin' and q.extra['op'].startswith('Add') and (op_const(q.extra['b']) or {}).get('v') == 1 for q in xs)):
                        continue
                    idx = [z for q in xs for z in provenance(b, q.extra['a'], q.site[0], q.site[1], through=None)]
                    if not (idx and all(z.kind == 'call' and z.call.is_(r'Enumerate<.*>.*::next$') and z.path[-1:] == ['0'] for z in idx)):
                        continue
                    coll = sorted({c_ for z in idx for c_ in base(b, z.call.args[0], z.call.bb)})
                    ys = provenance(b, y, r.site[0], r.site[1], through=None)
                    lens = [q for q in ys if q.kind == 'call' and q.call.is_(r'::len$')]
                    if not lens or len(lens) != len(ys):
                        continue
                    n += 1
                    of = sorted({c_ for q in lens for c_ in base(b, q.call.args[0], q.call.bb)})
                    ok = all(q.call.is_(r'slice::<impl \[T\]>::len$', r'Vec::<.*>::len$') for q in lens) and of == coll
                    ctx.ob('L.last-item', '%s:index-vs-own-length' % short(b.path), ok,
                           '%s: `index + 1 == len` compares an index into %s with the length of %s (%s)' % (short(b.path), coll, of, sorted({short(q.call.name) for q in lens})), where=b.where(sw.b), cfg=cfg)
    if n == 0:
        raise Broken('no "last element" test found in the alternative / completion code')
    # "is the item just consumed the one being completed?" = is it the last item of the LINE.  The current scope ends earlier
    # inside an adjacent group / command block, where its last member is NOT what the user is typing.
    tl = ctx.look(fs.one(r'^args::inner::State::touching_last_remove$'))
    cmps = [c for c in tl.calls() if c.is_(r'PartialEq.*>::(eq|ne)$')]
    sides = set(); good = bool(cmps)
    def side_roots(op, bb, depth=0):
        out = set()
        for r in provenance(tl, op, bb, 'term', through=None):
            if r.kind == 'call' and r.call.is_(r'::(checked_sub|saturating_sub|wrapping_sub)$') and depth < 3:
                out |= side_roots(r.call.args[0], r.call.bb, depth + 1)
            elif r.kind == 'bin' and r.extra['op'].startswith('Sub') and depth < 3:
                out |= {x for q in provenance(tl, r.extra['a'], r.site[0], r.site[1], through=None) for x in ([('len-of', '.'.join(z.path)) for z in provenance(tl, q.call.args[0], q.call.bb, 'term')] if q.kind == 'call' and q.call.is_(r'::len$') else [(q.kind, '.'.join(q.path))])}
            elif r.kind == 'call' and r.call.is_(r'::len$'):
                out |= {('len-of', '.'.join(z.path)) for z in provenance(tl, r.call.args[0], r.call.bb, 'term')}
            elif r.kind == 'param':
                out.add(('field', '.'.join(r.path)))
            else:
                out.add((r.kind, str(r.what)))
        return out
    for c in cmps:
        for a_ in c.args:
            sides |= side_roots(a_, c.bb)
    good = good and sides == {('field', 'current'), ('len-of', 'items')}
    ctx.ob('L.last-item', 'touching_last_remove:last-of-the-line', good,
           'touching_last_remove compares %s (expected: the index just consumed with the length of the whole item list, minus one)' % sorted(sides), where=tl.where(), cfg=cfg)

def marker_then_decide(ctx, cfg, fs):
    """whether the run is a completion request is known only AFTER the items were scanned for the `--bpaf-complete-rev=N`
    marker (shell stubs pass it as an item).  Every read of the scanner's revision in State::construct that steers
    tokenization (e.g. keeping a trailing `--` visible) must therefore come after the scan loop, not be a snapshot
    taken before it."""
    b = ctx.look(fs.one(r'^args::inner::State::construct$'))
    scans = [c for c in b.calls() if c.is_(r'ArgScanner.*check_next$')]
    if not scans:
        raise Broken('State::construct: no call of ArgScanner::check_next')
    reads = []
    for i, k, st in b.stmts():
        if st['k'] != 'assign': continue
        rv = st['rv']
        pls = [rv.get('place')] if rv['k'] in ('ref', 'discr') else ([op_place(rv['op'])] if rv['k'] == 'use' and op_place(rv.get('op')) else [])
        for pl in pls:
            if pl and 'revision' in place_fields(pl) and b.local_ty(pl[0]).startswith('complete_run::ArgScanner'):
                reads.append(i)
    early = [i for i in reads if not any(b.reaches(c.bb, [i]) for c in scans)]
    ctx.ob('P.precedence', 'construct:revision-read-after-marker-scan', bool(reads) and not early,
           'State::construct reads the scanner revision at %d place(s), %d of them before any item was scanned for the completion marker' % (len(reads), len(early)), where=b.where(early[0]) if early else b.where(), cfg=cfg)

VERBATIM_MATCHERS = [r'^complete_gen::arg_matches$', r'^complete_gen::cmd_matches$']
NORMALISING = [r'str::<impl str>::(trim\w*|to_lowercase|to_uppercase|to_ascii_lowercase|to_ascii_uppercase|replace\w*|eq_ignore_ascii_case)$', r'char::methods::<impl char>::(to_ascii_\w+|to_lowercase|to_uppercase|eq_ignore_ascii_case)$']

def verbatim_matching(ctx, cfg, fs):
    """a candidate must extend exactly what was typed: the functions that compare the typed word with names use prefix /
    equality tests on the word as it is - no trimming, case folding or replacement on either side"""
    for rx in VERBATIM_MATCHERS:
        b = ctx.look(fs.one(rx))
        hits = sorted({short(c.name) for x in fs.family(b) for c in x.calls() if c.is_(*NORMALISING)})
        ctx.ob('E.hints', '%s:compares-typed-word-verbatim' % short(b.path), not hits, '%s compares the typed word as it is (normalising calls: %s)' % (short(b.path), hits or 'none'), where=b.where(), cfg=cfg)

def _emptiness_tested(fam, x, dest):
    seen, sinks = flows_to(x, dest[0])
    for (bb, k, kind, p) in sinks:
        if kind == 'call':
            c = Call(x, bb, p)
            if c.is_(r'str>?::is_empty$') or any(a[0] == 'c' and 'is_empty' in str(a[1].get('fn', '')) for a in c.args):
                return True
    if 0 in seen and '{closure' in x.path:
        # handed back by a closure: the combinator that received the closure (and_then ..) must have its result tested
        for y in fam:
            for c2 in y.calls():
                if c2.dest and any(a[0] != 'c' and y.local_ty(a[1][0]).startswith('{closure@') for a in c2.args) and y.local_ty(c2.dest[0]).startswith('std::option::Option<&') \
                        and _emptiness_tested(fam, y, c2.dest):
                    return True
    return False

def short_exact(ctx, cfg, fs):
    """a candidate either EXTENDS a typed long/command prefix or is the preferred spelling of an EXACTLY typed short name.  In the two
    matchers: (1) every test of the typed word against a non-constant char (the short name) is strip_prefix followed by an emptiness
    test of the rest - never starts_with / contains / ends_with; (2) every prefix test between two strings has the NAME as receiver
    and the typed word as pattern (the name extends what was typed, not the other way round)."""
    for rx in VERBATIM_MATCHERS:
        b = ctx.look(fs.one(rx))
        fam = fs.family(b)
        bad = []; n = 0
        for x in fam:
            for c in x.calls():
                m = re.search(r'str>?::(\w+)::<char>$', c.full)
                if m and len(c.args) >= 2 and c.args[1][0] != 'c':
                    n += 1
                    if m.group(1) != 'strip_prefix':
                        bad.append('%s with the short name at %s (anything that merely begins with / contains the letter would match)' % (m.group(1), x.where(c.bb)))
                    elif not _emptiness_tested(fam, x, c.dest):
                        bad.append('the rest after strip_prefix(short name) at %s is not tested for emptiness' % x.where(c.bb))
                m = re.search(r'str>?::(starts_with|ends_with|contains)::<&str>$', c.full)
                if m and len(c.args) >= 2 and c.args[1][0] != 'c':
                    n += 1
                    # the receiver must not be the typed word
                    rs0 = provenance(x, c.args[0], c.bb, 'term')
                    if m.group(1) != 'starts_with' or (rs0 and all(r.kind == 'param' and r.what == 'arg' and '{closure' not in x.path for r in rs0)):
                        bad.append('%s at %s has the typed word as receiver (the NAME must extend the typed word)' % (m.group(1), x.where(c.bb)))
        ctx.ob('E.hints', '%s:short-name-exact-long-name-extends' % short(b.path), n >= 2 and not bad,
               '%d name test(s) in %s: %s' % (n, short(b.path), '; '.join(bad) or 'short names match exactly, long names by prefix of the name'), where=b.where(), cfg=cfg)

def no_late_none(ctx, cfg, fs):
    b = ctx.look(fs.one(r'complete_gen::.*check_complete$'))
    brs = [c for c in b.calls() if c.is_(r'Option<.*> as std::ops::Try>::branch$', r'as std::ops::Try>::branch$')]
    # order the `?` sites by dominance
    import functools
    brs = sorted(brs, key=functools.cmp_to_key(lambda x, y: -1 if b.dominates(x.bb, y.bb) and x.bb != y.bb else (1 if b.dominates(y.bb, x.bb) and x.bb != y.bb else 0)))
    desc = []
    for c in brs:
        rs = provenance(b, c.args[0], c.bb, 'term', through=None)
        desc.append(sorted({short(r.call.name) if r.kind == 'call' else r.kind for r in rs}))
    ok = len(brs) >= 2
    ctx.ob('N.no-late-none', 'check_complete:give-up-points', ok and 'comp_ref' in ' '.join(desc[0]), 'check_complete can give up (`?`) at: %s' % desc, where=b.where(), cfg=cfg)
    if len(brs) < 2:
        return
    # after the last item was obtained (Continue edge of the 2nd `?`), no path returns None
    sw = switch_on_call(b, brs[1])
    cont = sw.target('Continue') if sw is not None else None
    late = []
    if cont is not None:
        reach = reachable_edges(b, cont)
        for c in b.calls():
            if c.bb in reach and c.is_(r'FromResidual') :
                late.append(c.where())
        for i, k, st in b.stmts():
            if i in reach and st['k'] == 'assign' and st['lhs'] == [0, []] and st['rv']['k'] == 'agg' and st['rv'].get('variant') == 'None':
                late.append(b.where(i))
    second_is_last = any('next' in d for d in desc[1]) if len(desc) > 1 else False
    ctx.ob('N.no-late-none', 'check_complete:no-none-after-last-item', cont is not None and not late and second_is_last,
           'once the item being completed is in hand, check_complete always answers Some(..): %s' % (late or 'no later None return'), where=b.where(), cfg=cfg)

def pos_only_source(ctx, cfg, fs, rule='P.precedence'):
    """whether the word being completed can only be a positional (it stands right of `--`) is read off the item BEFORE it: a
    PosWord there means the separator has been passed.  The word itself says nothing - a trailing `--` is a PosWord too, and a
    literal `--` typed after the separator is just text - so neither its kind nor its spelling may decide."""
    b = ctx.look(fs.one(r'^complete_gen::<impl args::inner::State>::check_complete$'))
    nx = [c for c in b.calls() if c.is_(r'Iterator>?::next$')]
    nx = sorted(nx, key=lambda c: sum(1 for o in nx if b.dominates(o.bb, c.bb)))
    cc = [c for c in b.calls() if c.is_(r'Complete::complete$')]
    if len(nx) < 2 or len(cc) != 1:
        raise Broken('check_complete: expected two next() calls on the reversed items and one Complete::complete call')
    cur, prev = nx[0], nx[1]
    def is_cur(r):
        # the word being completed: the result of the first next(), also when it went through `?` (Try::branch) first
        if r.kind != 'call': return False
        if r.call.bb == cur.bb: return True
        if r.call.is_(r'Try>::branch$'):
            qs = provenance(b, r.call.args[0], r.call.bb, 'term', through=None)
            return bool(qs) and all(q.kind == 'call' and q.call.bb == cur.bb for q in qs)
        return False
    why = []
    truth = []
    for r in provenance(b, cc[0].args[2], cc[0].bb, 'term', through=None):
        if r.kind == 'const' and isinstance(r.what, bool) and r.site:
            truth.append((r.site[0], r.what))
        else:
            truth.append(((r.site or (cc[0].bb,))[0], 'computed:%s' % (r.kind if r.kind != 'call' else r.call.name.split('::')[-1])))
    for (db, v) in truth:
        if v not in (True, False):
            why.append('the value is %s at %s' % (v, b.where(db)))
            continue
        if v is True:
            good = False
            for (a, s_) in b.transitive_control_deps(db):
                sw = Switch(b, a)
                if sw.kind == 'enum' and sw.enum == 'arg::Arg' and s_ == sw.target('PosWord'):
                    rs = provenance(b, sw.place, sw.discr_site[0], sw.discr_site[1], through=None)
                    if rs and all(r.kind == 'call' and r.call.bb == prev.bb for r in rs):
                        good = True
            if not good:
                why.append('`true` at %s is not under "the preceding item is a PosWord"' % b.where(db))
        for (a, s_) in b.transitive_control_deps(db):
            sw = Switch(b, a)
            rs = sw.roots if sw.kind != 'enum' else provenance(b, sw.place, sw.discr_site[0], sw.discr_site[1], through=None)
            if sw.kind == 'bool' and b.dominates(cur.bb, a) and not (rs and all(r.kind == 'call' and r.call.bb == prev.bb for r in rs)):
                why.append('a boolean test at %s takes part in the decision' % b.where(a))
            if sw.kind == 'enum' and sw.enum == 'arg::Arg' and rs and all(is_cur(r) for r in rs):
                why.append('the kind of the word being completed takes part in the decision (%s)' % b.where(a))
    ctx.ob(rule, 'check_complete:positional-only-from-preceding-item', bool(truth) and not why,
           'the positional-only flag handed to Complete::complete is true exactly under "the preceding item is a PosWord" (%d value site(s)): %s' % (len(truth), '; '.join(sorted(set(why))) or 'ok'), where=cc[0].where(), cfg=cfg)

def value_mode_scoped(ctx, cfg, fs, rule='P.precedence'):
    """"only values make sense now" (the word being completed is the value of an argument) is concluded only from hints of the
    ACTIVE level: Comp::only_value is asked about hints that already passed the depth filter of Complete::complete.  Asked about all
    collected hints, a value hint of an enclosing level (`cmd --opt <TAB>` with --opt declared outside cmd) would silence every
    name of the subcommand."""
    b = ctx.look(fs.one(r'^complete_gen::Complete::complete$'))
    fam = fs.family(b)
    why = []
    n = 0
    guarded_inline = False
    for x in fam:
        for (bb, fn, full) in fn_refs(x):
            if re.search(r'Comp::only_value$', fn):
                why.append('only_value handed to an iterator adaptor at %s' % x.where(bb)); n += 1
        for c in x.calls():
            if c.is_(r'^complete_gen::Comp::only_value$'):
                n += 1
                rs = provenance(x, c.args[0], c.bb, 'term', through=None)
                if x is not b:
                    why.append('only_value called inside a closure at %s' % x.where(c.bb)); continue
                if rs and all(r.kind == 'call' and r.call.is_(r'Iterator>?::next$') for r in rs) and not any('Filter<' in r.call.full for r in rs):
                    # the filter written as a guard at the top of the loop body: the question is only reached on the edge where
                    # this hint's depth equals the maximum
                    for (a_, s_) in b.transitive_control_deps(c.bb):
                        if b.term(a_)['k'] != 'switch': continue
                        sw = Switch(b, a_)
                        for r in (sw.roots or []) if sw.kind == 'bool' else []:
                            if r.kind == 'bin' and r.extra['op'] in ('Eq', 'Ne'):
                                sides = [provenance(b, r.extra[k_], r.site[0], r.site[1], through=None) for k_ in ('a', 'b')]
                                if any(x_ and all(q.kind == 'call' and q.call.is_(r'Comp::depth$') for q in x_) for x_ in sides) and s_ == sw.target(r.extra['op'] == 'Eq'):
                                    guarded_inline = True
                    if guarded_inline:
                        continue
                if not (rs and all(r.kind == 'call' and r.call.is_(r'Iterator>?::next$') and 'Filter<' in r.call.full for r in rs)):
                    why.append('only_value asked about %s at %s' % (sorted({(short(r.call.name) if r.kind == 'call' else r.kind) for r in rs}), x.where(c.bb)))
    flt = [c for c in b.calls() if c.is_(r'Iterator>?::filter$')]
    depth_ok = False
    for c in flt:
        for r in provenance(b, c.args[1], c.bb, 'term', through=None):
            if r.kind == 'agg' and r.extra.get('closure') in fs.bodies and any(cc.is_(r'Comp::depth$') for cc in fs.bodies[r.extra['closure']].calls()):
                depth_ok = True
    depth_ok = depth_ok or guarded_inline
    ctx.ob(rule, 'Complete::complete:value-mode-from-active-level-only', n > 0 and not why and depth_ok,
           'Complete::complete asks only_value %d time(s), always about an element of the depth-filtered iterator (filter on depth present: %s): %s' % (n, depth_ok, why or 'ok'), where=b.where(), cfg=cfg)

def comp_rebuild(ctx, cfg, fs):
    """complete(..) / complete_shell(..) take the hints the inner parser produced out of the state, replace the METAVARIABLE
    hints by their own suggestions and must put every other hint (flag and command names pushed by a parser that succeeded
    without its item: fallback, optional, many) back as it was"""
    for rx, nm in ((r'^<structs::ParseComp<P, F> as Parser<T>>::eval$', 'ParseComp'), (r'^<complete_shell::ParseCompShell<P> as Parser<T>>::eval$', 'ParseCompShell')):
        b = ctx.look(fs.one(rx))
        im = [c for c in b.calls() if c.is_(r'is_metavar$')]
        nx = [c for c in b.calls() if c.is_(r'IntoIter<.*Comp.*Iterator>::next$', r'Iterator>?::next$') and 'Comp' in c.full]
        pc = [c.bb for c in b.calls() if c.is_(r'Complete::push_comp$')]
        if not pc:
            # nothing is ever handed back: whatever is not a metavariable is dropped (e.g. `.filter_map(Comp::is_metavar)`)
            ctx.ob('H.hide', '%s:other-hints-put-back' % nm, False, '%s never calls push_comp: stashed hints that are not metavariables are lost' % nm, where=b.where(), cfg=cfg)
            continue
        if len(im) != 1 or not nx:
            raise Broken('%s::eval: the loop over the stashed hints was not found' % nm)
        sw = switch_on_call(b, im[0])
        ok = sw is not None and sw.kind == 'enum' and sw.target('None') is not None and bool(pc)
        lost = False
        if ok:
            # from the "not a metavariable" edge the next iteration (or the end of the loop) is reached only through push_comp
            reach = reachable_edges(b, sw.target('None'), avoid=pc)
            lost = any(n_.bb in reach for n_ in nx) or any(r_ in reach for r_ in b.return_blocks())
        ctx.ob('H.hide', '%s:other-hints-put-back' % nm, ok and not lost,
               '%s: a stashed hint that is not a metavariable always goes back through push_comp before the next hint is looked at: %s' % (nm, ok and not lost), where=b.where(), cfg=cfg)

def hide(ctx, cfg, fs):
    spec = {
        r'^<structs::ParseHide<P> as Parser<T>>::eval$': ('ParseHide', False),
        r'^<structs::ParseGroupHelp<P> as Parser<T>>::eval$': ('ParseGroupHelp', True),
        r'^<structs::ParseComp<P, F> as Parser<T>>::eval$': ('ParseComp', True),
        r'^<complete_shell::ParseCompShell<P> as Parser<T>>::eval$': ('ParseCompShell', True),
        r'^<structs::ParseOrElse<T> as Parser<T>>::eval$': ('ParseOrElse', True),
    }
    for rx, (nm, hands_back) in spec.items():
        b = ctx.look(fs.one(rx))
        sw = [c for c in b.calls() if c.is_(r'swap_comps_with$')]
        ev = [c for c in result_calls(b) if c.is_(r'as Parser<.*>>::eval$', r'Parser<T> for std::boxed::Box')]
        stash = set()
        for c in sw:
            for r in provenance(b, c.args[1], c.bb, 'term', through=None):
                if r.kind == 'call' and r.call.dest: stash.add(r.call.dest[0])
        if nm == 'ParseOrElse':
            ok = len(sw) == 1 and len(stash) == 1 and all(b.dominates(sw[0].bb, e.bb) for e in ev)
            # the stash goes to this_or_that_picks_first
            used = [c for c in b.calls() if c.is_(r'this_or_that_picks_first$') and any(op_place(a) and op_place(a)[0] in flows_to(b, list(stash)[0], through=None)[0] for a in c.args)] if stash else []
            ctx.ob('H.hide', '%s:stash-handed-on' % nm, ok and bool(used), 'or_else stashes the hints collected so far before forking and hands the stash to this_or_that_picks_first: %s' % (ok and bool(used)), where=b.where(), cfg=cfg)
            continue
        ok = len(sw) == 2 and len(stash) == 1 and len(ev) == 1 and b.dominates(sw[0].bb, ev[0].bb) != b.dominates(sw[1].bb, ev[0].bb)
        ctx.ob('H.hide', '%s:bracket' % nm, ok, '%s swaps the hint list out before and back after the inner eval, using one stash (%d swaps, %d stash locals)' % (nm, len(sw), len(stash)), where=b.where(), cfg=cfg)
        if ok:
            after = [c for c in sw if b.dominates(ev[0].bb, c.bb)]
            leaks = [r_ for r_ in b.return_blocks() if after and ev[0].target is not None and r_ in reachable_edges(b, ev[0].target, avoid=[after[0].bb])]
            ctx.ob('H.hide', '%s:restored-on-every-exit' % nm, bool(after) and not leaks,
                   '%s: every return after the inner eval passes the swap that puts the outer hint list back (also when the inner parser failed): %d return(s) bypass it' % (nm, len(leaks)), where=b.where(), cfg=cfg)
        if not stash:
            continue
        st_local = list(stash)[0]
        locs, sinks = flows_to(b, st_local, through=None)
        uses = []
        for (bb, k, kind, p) in sinks:
            if kind == 'call':
                c = Call(b, bb, p)
                if not c.is_(r'swap_comps_with$'):
                    uses.append(short(c.name))
        if nm == 'ParseGroupHelp' and ok:
            # a group wrapper only labels what was collected inside: whether the inner parser succeeded or failed, its hints go back
            hb = [bb for (bb, k, kind, p) in sinks if kind == 'call' and not Call(b, bb, p).is_(r'swap_comps_with$')]
            leaks = [r_ for r_ in b.return_blocks() if ev[0].target is not None and r_ in reachable_edges(b, ev[0].target, avoid=hb)]
            ctx.ob('H.hide', '%s:handed-back-on-every-exit' % nm, bool(hb) and not leaks,
                   '%s: every return after the inner eval passes the call that hands the collected hints back (success and failure alike): %d return(s) bypass it' % (nm, len(leaks)), where=b.where(), cfg=cfg)
        if hands_back:
            ctx.ob('H.hide', '%s:stash-handed-back' % nm, bool(uses), '%s hands the items collected inside back to the completion state (%s)' % (nm, sorted(set(uses))), where=b.where(), cfg=cfg)
        else:
            ctx.ob('H.hide', '%s:stash-dropped' % nm, not uses, 'hide never hands the hints collected by the hidden parser back (other uses of the stash: %s)' % (uses or 'none'), where=b.where(), cfg=cfg)

PRIMS = {
    r'^<params::ParseFlag<T> as Parser<T>>::eval$': ('ParseFlag', [r'push_flag$']),
    r'^params::ParseArgument::<T>::take_argument$': ('take_argument', [r'push_argument$', r'push_metavar$']),
    r'^params::parse_pos_word$': ('parse_pos_word', [r'push_metavar$', r'push_pos_sep$', r'check_no_pos_ahead$']),
    r'^<params::ParseCommand<T> as Parser<T>>::eval$': ('ParseCommand', [r'push_command$']),
}

def prefix_table(ctx, cfg, fs):
    """a value completed inside `-o=val` / `--opt=val` replaces the WHOLE word, so the candidate repeats the part in front of the value:
    one dash for a short name, two for a long one (the result must be something the parser accepts for the same item).  Table over
    every place that renders a complete_gen::Prefix: the text written in the Short arm starts with `-{}=`, in the Long arm with `--{}=`."""
    want = {'Short': r'^-\{\}=', 'Long': r'^--\{\}='}
    seen = {'Short': 0, 'Long': 0}; bad = []
    for path, b in sorted(fs.bodies.items()):
        sws = [s_ for s_ in switches(b) if s_.kind == 'enum' and (s_.enum or '').endswith('complete_gen::Prefix')]
        if not sws: continue
        sites = fmt_sites(b)
        for sw in sws:
            for v, rx in want.items():
                t = sw.target(v)
                if t is None: continue
                others = [x for o_, x in sw.edges.items() if x != t]
                region = reachable_edges(b, t, avoid=others + [sw.b])
                for o_ in others:
                    region -= reachable_edges(b, o_, avoid=[sw.b])
                for s_ in sites:
                    if s_.bb in region:
                        seen[v] += 1
                        if not re.search(rx, s_.text()):
                            bad.append('%s arm writes %r at %s' % (v, s_.text(), s_.where()))
    ctx.ob('E.hints', 'Prefix:dashes-match-the-kind-of-name', all(seen.values()) and not bad,
           'renderings of Prefix: Short -> `-{}=..` (%d site(s)), Long -> `--{}=..` (%d site(s)): %s' % (seen['Short'], seen['Long'], bad or 'ok'), cfg=cfg)

def push_helpers_write_only(ctx, cfg, fs):
    """the push_* helpers record a hint for the level they are called at; which hints survive is decided later, per depth, by
    Complete::complete.  A helper that looks at the hints collected so far (to de-duplicate, say) compares across levels: the
    same flag declared on an outer level and inside the subcommand being completed is then recorded once - for the outer level,
    which the depth filter drops.  The helpers only ever push: no read access to the list of collected hints."""
    READS = r'(Vec::<.*>|slice::<impl \[T\]>)::(iter|iter_mut|contains|last|last_mut|first|len|is_empty|retain|retain_mut|dedup\w*|binary_search\w*|get|get_mut|pop|remove|drain|truncate|clear)$|IntoIterator>?::into_iter$'
    n = 0; bad = []
    for path, b in sorted(fs.bodies.items()):
        if not re.search(r'complete_gen::<impl args::inner::State>::push_(flag|argument|command|metavar|value|pos_sep|shell)$|complete_gen::Complete::push_\w+$', path.split('::{closure')[0]):
            continue
        n += 1
        for c in b.calls():
            if c.is_(READS) and 'Comp' in c.full and not re.search(r'CompExtra', c.full.replace('Vec<complete_gen::Comp>', '')):
                bad.append('%s in %s' % (c.name.split('::')[-1], short(path)))
    ctx.ob('E.hints', 'push-helpers:never-read-collected-hints', n >= 5 and not bad, '%d push helper bodies; read accesses to the collected hints: %s' % (n, sorted(set(bad)) or 'none'), cfg=cfg)

def group_push(ctx, cfg, fs):
    """State::push_with_group hands the hints collected inside a group_help wrapper back to the completion state.  The title only LABELS
    them: whether there is a title (the first line of the group's Doc may well be blank) must not decide whether a hint goes back.
    Every push onto `comps` in push_with_group is free of any test of the `group` parameter; only set_group may depend on it."""
    cands = fs.find(r'State>::push_with_group$', required=False)
    if not cands:
        return
    b = ctx.look(cands[0])
    pushes = [c for x in [b] for c in x.calls() if c.is_(r'Vec::<.*>::(push|append)$', r'Extend<.*>>::extend(::<.*>)?$', r'Vec::<.*>::extend\w*$') and 'Comp' in c.full]
    bad = []
    for c in pushes:
        for (a_, s_) in b.transitive_control_deps(c.bb):
            if b.term(a_)['k'] != 'switch': continue
            sw = Switch(b, a_)
            rs = provenance(b, sw.place, sw.discr_site[0], sw.discr_site[1]) if sw.kind == 'enum' else (sw.roots or [])
            if any((r.kind == 'param' and r.what == 'group') or (r.kind == 'call' and any(q.kind == 'param' and q.what == 'group' for a in r.call.args for q in provenance(b, a, r.call.bb, 'term'))) for r in rs):
                bad.append('the push at %s depends on a test of `group` (%s)' % (b.where(c.bb), b.where(a_)))
    ctx.ob('H.hide', 'push_with_group:hints-go-back-with-or-without-title', bool(pushes) and not bad,
           'push_with_group pushes every stashed hint (%d push site(s)); the title decides only the label: %s' % (len(pushes), sorted(set(bad)) or 'ok'), where=b.where(), cfg=cfg)

def hints(ctx, cfg, fs):
    for rx, (nm, pats) in PRIMS.items():
        b = ctx.look(fs.host(rx, r'State>::take_positional_word$') if nm == 'parse_pos_word' else fs.one(rx))
        hint_blocks = [c.bb for c in b.calls() if c.is_(*pats)]
        errs = err_return_blocks(b)
        # plus errors returned by re-propagating (e.g. `Err(err)` from take_arg)
        good = bool(errs) and bool(hint_blocks)
        missing = []
        for e in errs:
            # a failing exit must not be reachable from entry avoiding every hint call, unless it is the wrapped outcome of an inner run
            if nm == 'ParseCommand':
                rs = [r for k, st in enumerate(b.blocks[e]['stmts']) if st['k'] == 'assign' and st['lhs'] == [0, []] for r in provenance(b, st['rv']['fields'][0], e, k, through=None)]
                inner = False
                for r in rs:
                    if r.kind == 'agg' and r.what == 'error::Error::Error':
                        for q in provenance(b, r.extra['fields'][0], r.site[0], r.site[1], through=None):
                            if q.kind == 'call' and q.call.is_(r'map_err'): inner = True
                            # the same wrapping spelled as a match: Message::ParseFailure(<Err payload of run_subparser>)
                            if q.kind == 'agg' and q.what == 'error::Message::ParseFailure' and \
                                    any(y.kind == 'call' and y.call.is_(r'run_subparser$') and y.path == ['as Err', '0'] for y in provenance(b, q.extra['fields'][0], q.site[0], q.site[1], through=None)):
                                inner = True
                if inner: continue
            msgs = {st['rv']['variant'] for x in b.reachable(0) for st in b.blocks[x]['stmts'] if st['k'] == 'assign' and st['rv']['k'] == 'agg' and st['rv'].get('adt') == 'error::Message' and b.dominates(x, e)}
            if msgs == {'NonStrictPos'}:
                continue   # the word sits on the right of `--`: nothing of this parser can be suggested for it (listed exception)
            if e in reachable_edges(b, 0, avoid=hint_blocks):
                missing.append(b.where(e))
        if nm == 'take_argument':
            # the name is offered whenever it is not on the line yet - also when the value then comes from the environment
            ta = [c for c in b.calls() if c.is_(r'take_arg$')]
            absent = []
            for sw_ in switches(b):
                if sw_.kind == 'enum' and sw_.enum.endswith('option::Option') and sw_.target('None') is not None and ta:
                    rs_ = provenance(b, sw_.place, sw_.discr_site[0], sw_.discr_site[1], through=None)
                    if rs_ and all(r.kind == 'call' and r.call.bb == ta[0].bb and r.path[-2:] == ['as Ok', '0'] for r in rs_):
                        absent.append(sw_.target('None'))
            if not absent:
                # `match args.take_arg(..) { Ok(Some(w)) => .., Err(e) => .., _ => .. }`: the otherwise edge of the nested switches
                for sw_ in switches(b):
                    if sw_.kind == 'enum' and ta:
                        rs_ = provenance(b, sw_.place, sw_.discr_site[0], sw_.discr_site[1], through=None)
                        if rs_ and all(r.kind == 'call' and r.call.bb == ta[0].bb for r in rs_) and sw_.enum.endswith('option::Option'):
                            absent.append(sw_.target('None'))
            leaks = [b.where(r_) for t_ in absent for r_ in b.return_blocks() if r_ in reachable_edges(b, t_, avoid=hint_blocks)]
            ctx.ob('E.hints', 'take_argument:name-offered-whenever-not-on-the-line', bool(absent) and not leaks,
                   'from the "name is not on the line" arm every way out of take_argument (missing, no-env AND the value taken from the environment) passes push_argument (%d arm(s)): %s' % (len(absent), leaks or 'ok'), where=b.where(), cfg=cfg)
        ctx.ob('E.hints', '%s:failing-exits-emit-hints' % nm, good and not missing, '%s: every failing exit is preceded by a call into the hint family %s: %s' % (nm, pats, missing or 'ok'), where=b.where(), cfg=cfg)
    for fn in ('push_flag', 'push_argument', 'push_metavar', 'push_command', 'push_pos_sep'):
        b = ctx.look(fs.one(r'complete_gen::<impl args::inner::State>::%s$' % fn))
        cm = [c for c in b.calls() if c.is_(r'State::comp_mut$')]
        dp = [c for c in b.calls() if c.is_(r'State::depth$')]
        pushes = [c for c in b.calls() if c.is_(r'Vec::<complete_gen::Comp>::push$')]
        ok = len(cm) == 1 and len(dp) == 1 and bool(pushes)
        if ok:
            sw = switch_on_call(b, cm[0])
            ok = sw is not None and all(only_via_edge(b, sw.b, sw.target('Some'), p.bb) for p in pushes)
            for p in pushes:
                rs = provenance(b, p.args[1], p.bb, 'term', through=None)
                for r in rs:
                    if r.kind == 'agg':
                        names = r.extra.get('field_names') or []
                        if 'extra' in names:
                            ex = provenance(b, r.extra['fields'][names.index('extra')], r.site[0], r.site[1], through=None)
                            for q in ex:
                                if q.kind == 'agg':
                                    n2 = q.extra.get('field_names') or []
                                    d = provenance(b, q.extra['fields'][n2.index('depth')], q.site[0], q.site[1], through=None) if 'depth' in n2 else []
                                    ok &= bool(d) and all(z.kind == 'call' and z.call.bb == dp[0].bb for z in d)
        ctx.ob('E.hints', '%s:guarded-and-depth' % fn, ok, '%s records a hint only when completion is on and stamps it with self.depth(): %s' % (fn, ok), where=b.where(), cfg=cfg)

def wrappers(ctx, cfg, fs):
    for rx, nm in ((r'^<structs::ParseFallback<P, T> as Parser<T>>::eval$', 'ParseFallback'), (r'^<structs::ParseFallbackWith<T, P, F, E> as Parser<T>>::eval$', 'ParseFallbackWith')):
        b = ctx.look(fs.one(rx))
        ev = [c for c in result_calls(b) if c.is_(r'as Parser<.*>>::eval$')]
        sc = [c for c in b.calls() if c.is_(r'State::swap_comps$')]
        ok = len(ev) == 1 and len(sc) == 1
        if ok:
            fl = classify_result(b, ev[0])
            rets = b.return_blocks()
            for (sb, tb) in fl.err_edges:
                # every path from the Err edge to a return passes the swap_comps call
                reach = reachable_edges(b, tb, avoid=[sc[0].bb])
                ok &= not any(r in reach for r in rets)
            ok &= bool(fl.err_edges)
            ids = {scopes.state_id(b, a, sc[0].bb) for a in sc[0].args}
            ok &= 'args' in ids and any(isinstance(i, tuple) for i in ids)
        ctx.ob('W.wrappers', '%s:hints-moved-on-every-failure' % nm, ok, '%s moves the hints from the scratch clone to the caller\'s state on every failure of the inner parser, whether or not the failure is catchable: %s' % (nm, ok), where=b.where(), cfg=cfg)
    b = ctx.look(fs.one(r'^structs::parse_option$'))
    sc = [c for c in b.calls() if c.is_(r'State::swap_comps$')]
    nones = [i for i in ok_return_blocks(b) if any(st['k'] == 'assign' and st['rv']['k'] == 'agg' and st['rv'].get('variant') == 'None' for st in b.blocks[i]['stmts'])]
    sw = [c for c in b.calls() if c.is_(r'^std::mem::swap::<args::inner::State>$')]
    ok = len(sc) == 1 and bool(sw) and b.dominates(sw[0].bb, sc[0].bb) and any(b.reaches(sc[0].bb, [n]) for n in nones)
    ctx.ob('W.wrappers', 'parse_option:hints-kept-when-swallowing', ok, 'parse_option, after restoring the pre-attempt state, takes the hints of the failed attempt along when completion is on: %s' % ok, where=b.where(), cfg=cfg)
    # ... on EVERY way from the inner failure to Ok(None): also the `catch` way (hints are pushed by the attempt that failed because
    # the item is not on the line yet - exactly the case completion is asked about)
    ev = [c for c in result_calls(b) if c.is_(r'as Parser<.*>>::eval$')]
    gs = [c.bb for c in b.calls() if c.is_(r'State::comp_(mut|ref)$') and sc and b.dominates(c.bb, sc[0].bb)]
    every = False
    if len(ev) == 1 and gs and nones:
        fl = classify_result(b, ev[0])
        every = bool(fl.err_edges) and all(not (reachable_edges(b, tb, avoid=gs) & set(nones)) for (sb, tb) in fl.err_edges)
    ctx.ob('W.wrappers', 'parse_option:hints-kept-on-every-swallow', every, 'every way from the inner failure to Ok(None) passes the hand-over of the hints: %s' % every, where=b.where(), cfg=cfg)
    ctx.ob('W.wrappers', 'parse_option:swap-guarded-by-comp', bool(sc) and c06.under_completion_predicate(b, sc[0].bb), 'that hand-over happens only in completion mode', where=b.where(), cfg=cfg)
