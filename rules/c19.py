"""C19 - adjacent groups consume contiguous blocks only (structural clauses of the anchored mechanism).

Decides:
 A attempts on clones   ParseAdjacent::eval never evaluates the group on the caller's state: every attempt runs on a clone;
                   every Ok return leaves the caller's scope as it was at entry and so does every failure (shared with
                   C05.R / C10.B); an adjacent command that succeeds - first try or retry - leaves the caller the scope it
                   had before the adjacency narrowing (or the command's own `name..end` narrowing).
 W window          the symbolic scope of the state handed to the inner parser at each of its evaluations: the probe runs on
                   `start .. start + width` (the first item alone), the real attempt on `start .. end of the enclosing scope`,
                   trimmed to `adjacently_available_from(start)` exactly when the window contains items that are already
                   consumed (the trim is control dependent on `end - start > number of present items`), or on the narrower
                   window proposed by `adjacent_scope`; no other scope reaches the inner parser.
 C contiguous      adjacently_available_from(start) is `start .. start + n` where n counts present items from `start` and STOPS
                   at the first consumed one (take_while, or a loop that leaves on the first non-present item).
 P prefix on success  an attempt is accepted (Ok returned) only on the None edge of `adjacent_scope`: while the items the
                   attempt consumed do not form one run starting at `start`, it is retried on the narrower window; the same in
                   the adjacent branch of ParseCommand::eval.
 S adjacent_scope  the window it proposes starts at the start of the current scope and ends at the first position that is still
                   present in the attempt AND was present before it (the first foreign item), found by a forward scan of the
                   two ledgers from that start.
 L leftmost first  start positions come from ArgRangesIter in increasing order (+1 per step, only positions whose item is
                   present and matches the group's first item, within the scope: shared with C04) and the FIRST successful
                   start returns at once: repeated groups are yielded block by block in command-line order.
 F failfast        `.adjacent()` on a construct! group turns failfast on (shared with C01.F): a member that does not match
                   stops the attempt instead of being searched for further right.
 S withheld        once adjacent_scope has found a window it answers None ONLY when the window equals the current scope (an empty window is a
                   proposal: `drink eat Fastfood`); State::get / ArgsIter yield only in-scope present items (the probe on a one-item window
                   cannot see the value slot outside it; shared with C05).
 L by one          ArgRangesIter::next moves its cursor by exactly one per step (every position is a candidate start).
 W command window  an adjacent command runs its subparser only on the adjacently available run (first attempt) or the consumed block (retry).
 C registry        short names inside adjacent groups reach the cluster registry, so `-x10` / `-ab` are split and the block is found (shared with C02).
 W nested windows  the hole test of ParseAdjacent::eval counts present items AFTER the window was clamped to the caller's scope; a command entered
                   inside a window gets name .. end of the ENCLOSING scope, never the end of the line (shared with C08).
 L start widths    State::ranges: per variant of the group's first item the number of items a start position must have (argument 2, everything else 1).
 L every start     the only way to skip a start position before the probe is "nothing is present here" (State::len); ArgRangesIter hands out self.width itself.
Does not decide: which vectors are accepted for a given shape (index arithmetic over run-time ledgers)."""
import re
from core import *
from dataflow import *
from cfgq import *
from absint import *
from parsers import *
import scopes, c05, c08, c10, c01, consumers

LEVEL = 'other'
EXPLANATION = __doc__
ASSUMPTIONS = ['the inner parser of a group consumes only through the State primitives (C05)']
FLOORS = {'A.attempts': 5, 'W.window': 4, 'C.contiguous': 1, 'P.prefix': 2, 'S.adjacent_scope': 2, 'L.leftmost': 8, 'F.failfast': 1}

def run(ctx):
    cfgs = ['none', 'all'] if ctx.tier == 'quick' else ['none', 'all', 'ac', 'doc']
    ctx.preload(cfgs)
    for cfg in cfgs:
        fs = ctx.facts(cfg)
        ctx.guard(c08.keep_only, ctx, lambda: c05.scope_restore(ctx, cfg, fs), lambda o: 'ParseAdjacent' in o.key or 'adjacent-ok-scope' in o.key, 'A.attempts')
        ctx.guard(c08.keep_only, ctx, lambda: c10.best_effort(ctx, cfg, fs), lambda o: 'failure-scope' in o.key or 'failure-hands-back' in o.key, 'A.attempts')
        ctx.guard(window, ctx, cfg, fs)
        ctx.guard(command_window, ctx, cfg, fs)
        # a command nested in an adjacent window stays inside it: its scope runs from its name to the end of the ENCLOSING scope (shared with C08)
        ctx.guard(c08.keep_only, ctx, lambda: c08.matched(ctx, cfg, fs), lambda o: 'scope-from-name-to-end' in o.key, 'W.window')
        import c12
        ctx.guard(c12.walker_rules, ctx, cfg, fs, 'C.contiguous', {'collect_shorts': c12.WALKERS['collect_shorts']})
        ctx.guard(contiguous, ctx, cfg, fs)
        ctx.guard(prefix, ctx, cfg, fs)
        ctx.guard(adjacent_scope, ctx, cfg, fs)
        ctx.guard(leftmost, ctx, cfg, fs)
        ctx.guard(start_widths, ctx, cfg, fs)
        ctx.guard(every_start_probed, ctx, cfg, fs)
        import consumers
        ctx.guard(c08.keep_only, ctx, lambda: consumers.primitives(ctx, cfg, fs, 'W.window'), lambda o: o.key in ('get:guarded', 'ArgsIter::next:guarded', 'set_scope:remaining-recount'), 'W.window')
        # the "nothing left to try here" shortcut of the probe reads State::len(): conflicted items count as present (shared with C05)
        ctx.guard(consumers.itemstate, ctx, cfg, fs, 'W.window')
        ctx.guard(c08.keep_only, ctx, lambda: c01.parsecon(ctx, cfg, fs), lambda o: 'adjacent:failfast' in o.key, 'F.failfast')

def eval_scopes(b):
    """(eval call, symbolic scope of the state it is run on, path) over all loop-bounded paths"""
    seen = {}
    def sk(i): return ('sc', i)
    rec = []
    base_w, _ = None, None
    def cm(w, c, store):
        if c.is_(r'^<args::inner::State as std::clone::Clone>::clone$'):
            src = scopes.state_id(b, c.args[0], c.bb)
            if c.dest and not c.dest[1] and b.local_ty(c.dest[0]) == scopes.STATE_TY:
                store[sk(('local', c.dest[0]))] = store.get(sk(src), ('unknown', 'clone of ?'))
            return ('state',)
        if c.is_(r'^args::inner::State::scope$'):
            src = scopes.state_id(b, c.args[0], c.bb)
            return ('scope', store.get(sk(src), ('unknown', 'scope of %s' % (src,))))
        if c.is_(r'^args::inner::State::set_scope$'):
            tgt = scopes.state_id(b, c.args[0], c.bb)
            v = w.opval(c.args[1], store)
            if v is not UNKNOWN and v[0] == 'scope':
                val = v[1]
            else:
                rs = provenance(b, c.args[1], c.bb, 'term', through=None)
                kinds = set()
                for r in rs:
                    if r.kind == 'call' and r.call.is_(r'adjacently_available_from$'): kinds.add('adjacent-run')
                    elif r.kind == 'call' and r.call.is_(r'State::adjacent_scope$'): kinds.add('adjacent_scope')
                    elif r.kind == 'agg' and 'Range' in r.what:
                        names = r.extra.get('field_names') or ['start', 'end']
                        en = provenance(b, r.extra['fields'][names.index('end')], r.site[0], r.site[1], through=None)
                        if en and all(q.kind == 'bin' and q.extra['op'].startswith('Add') for q in en): kinds.add('range:start..start+width')
                        elif en and all((q.kind == 'call' and q.call.is_(r'State::scope$') and q.path == ['end']) or (q.path[-1:] == ['end']) for q in en): kinds.add('range:start..scope-end')
                        else: kinds.add('range:other')
                    else: kinds.add('%s:%s' % (r.kind, r.what if r.kind != 'call' else short(r.call.name)))
                val = ('narrow', '+'.join(sorted(kinds)))
            store[sk(tgt)] = val
            return None
        if c.is_(r'^std::mem::swap::<args::inner::State>$'):
            a = scopes.state_id(b, c.args[0], c.bb); x = scopes.state_id(b, c.args[1], c.bb)
            va = store.get(sk(a), ('unknown', 'swap')); vb = store.get(sk(x), ('unknown', 'swap'))
            store[sk(a)] = vb; store[sk(x)] = va
            return None
        if c.is_(r'as Parser<.*>>::eval$', r'^Parser::eval$', r'Parser<T> for std::boxed::Box', r'OptionParser::<T>::run_subparser$'):
            sid = scopes.state_id(b, c.args[1], c.bb) if len(c.args) > 1 else None
            rec.append((c.bb, sid, store.get(sk(sid), ('unknown', 'never narrowed'))))
        if c.dest and not c.dest[1] and b.local_ty(c.dest[0]) == scopes.STATE_TY:
            store[sk(('local', c.dest[0]))] = ('unknown', 'result of %s' % c.name)
        return ('callres', c.name, c.bb)
    w = Walker(b, call_model=cm, max_paths=20000, max_visits=2)
    w.run(0, {sk('args'): ('entry',)})
    return rec

def command_window(ctx, cfg, fs):
    """an ADJACENT command judges only its own block: every run of its subparser happens on a scope cut down to the run of items that
    are still present right after the name (first attempt) or to what that attempt consumed (retry) - never on `name..end of the
    enclosing scope`, where an item already taken by an enclosing parser would be stepped over and the command would pick up
    arguments from behind it"""
    b = ctx.look(fs.one(r'^<params::ParseCommand<T> as Parser<T>>::eval$'))
    rec = eval_scopes(b)
    adj = [sw for sw in switches(b) if sw.kind == 'bool' and any(r.kind == 'param' and r.what == 'self' and r.path == ['adjacent'] for r in sw.roots)]
    if not rec or len(adj) != 1:
        raise Broken('ParseCommand::eval: runs of the subparser / the test of self.adjacent not found')
    in_adj = reachable_edges(b, adj[0].target(True)) - reachable_edges(b, adj[0].target(False))
    by = {}
    for (bb, sid, sc) in rec:
        by.setdefault(bb, set()).add(sc)
    n = 0
    for bb, got in sorted(by.items()):
        if bb not in in_adj:
            continue
        n += 1
        ok = bool(got) and got <= {('narrow', 'adjacent-run'), ('narrow', 'adjacent_scope')}
        ctx.ob('W.window', 'ParseCommand::eval:adjacent-run-scope', ok, 'an adjacent command runs its subparser on %s (expected: the adjacently available run / the consumed block)' % sorted(map(str, got)), where=b.where(bb), cfg=cfg)
    if n < 2:
        ctx.ob('W.window', 'ParseCommand::eval:adjacent-run-scope', False, 'the adjacent branch of ParseCommand::eval runs the subparser at %d site(s), expected the first attempt and the retry' % n, where=b.where(), cfg=cfg)

def window(ctx, cfg, fs):
    b = ctx.look(fs.one(r'^<structs::ParseAdjacent<P> as Parser<T>>::eval$'))
    rec = eval_scopes(b)
    if not rec:
        raise Broken('ParseAdjacent::eval: no evaluation of the inner parser found')
    by = {}
    for (bb, sid, sc) in rec:
        by.setdefault(bb, set()).add((sid if not isinstance(sid, tuple) else 'clone', sc))
    allowed_probe = {('narrow', 'range:start..start+width')}
    allowed_real = {('narrow', 'range:start..scope-end'), ('narrow', 'adjacent-run'), ('narrow', 'adjacent_scope')}
    order = sorted(by)
    n_probe = 0; n_real = 0
    for bb in order:
        got = {sc for (_, sc) in by[bb]}
        on = {s_ for (s_, _) in by[bb]}
        # an evaluation site is the probe when it only ever sees the single-item window, the real attempt otherwise
        if got <= allowed_probe:
            what = 'probe'; ok = on == {'clone'}; n_probe += 1
        else:
            what = 'attempt'; ok = got <= allowed_real and bool(got) and on == {'clone'}; n_real += 1
        ctx.ob('W.window', 'ParseAdjacent::eval:%s-scope' % what, ok, 'ParseAdjacent::eval: the %s runs the inner parser on %s with scope %s' % (what, sorted(on), sorted(map(str, got))), where=b.where(bb), cfg=cfg)
    ctx.ob('W.window', 'ParseAdjacent::eval:probe-and-attempt', n_probe >= 1 and n_real >= 1, 'ParseAdjacent::eval evaluates the group on the single-item window (%d site(s)) and on the real window (%d site(s))' % (n_probe, n_real), where=b.where(), cfg=cfg)
    real = [bb for bb in order if not ({sc for (_, sc) in by[bb]} <= allowed_probe)] or order
    # the trim to the adjacent run is taken exactly when the window has holes
    trims = [c for c in b.calls() if c.is_(r'State::adjacently_available_from$')]
    ok = len(trims) == 1
    detail = '%d call(s) of adjacently_available_from' % len(trims)
    if ok:
        deps = b.control_deps().get(trims[0].bb, ())
        good = False
        for (a, s_) in deps:
            sw = Switch(b, a)
            for r in sw.roots:
                if r.kind == 'bin' and r.extra['op'] in ('Gt', 'Lt', 'Ne', 'Ge', 'Le'):
                    sides = [provenance(b, r.extra[k_], r.site[0], r.site[1], through=None) for k_ in ('a', 'b')]
                    # the number of present items must be counted on the very state whose window is trimmed (the narrowed clone),
                    # not on the caller's state, whose count includes items outside the window
                    trimmed = {scopes.state_id(b, x_.args[0], x_.bb) for x_ in b.calls() if x_.is_(r'State::set_scope$') and any(q.kind == 'call' and q.call.bb == trims[0].bb for q in provenance(b, x_.args[1], x_.bb, 'term', through=None))}
                    has_len = [bool(x) and all(q.kind == 'call' and q.call.is_(r'^args::inner::State::len$') and scopes.state_id(b, q.call.args[0], q.call.bb) in trimmed for q in x) for x in sides]
                    has_span = [bool(x) and all(q.kind == 'bin' and q.extra['op'].startswith('Sub') for q in x) for x in sides]
                    if (has_span[0] and has_len[1] and r.extra['op'] in ('Gt', 'Ne') and s_ == sw.target(True)) or (has_len[0] and has_span[1] and r.extra['op'] in ('Lt', 'Ne') and s_ == sw.target(True)) \
                            or (has_span[0] and has_len[1] and r.extra['op'] == 'Le' and s_ == sw.target(False)) or (has_len[0] and has_span[1] and r.extra['op'] == 'Ge' and s_ == sw.target(False)):
                        good = True
                        # ... and AFTER the window was clamped to the caller's scope: counted before, the number includes present items
                        # right of the caller's window, each of which hides one hole inside it
                        lens = [q.call for x in sides for q in x if q.kind == 'call' and q.call.is_(r'^args::inner::State::len$')]
                        clamps = [x_ for x_ in b.calls() if x_.is_(r'State::set_scope$') and scopes.state_id(b, x_.args[0], x_.bb) in trimmed
                                  and not any(q.kind == 'call' and q.call.is_(r'adjacently_available_from$', r'State::adjacent_scope$') for q in provenance(b, x_.args[1], x_.bb, 'term', through=None))]
                        clamped = bool(lens) and all(any(b.dominates(c_.bb, l_.bb) and c_.bb != l_.bb for c_ in clamps) for l_ in lens)
                        ctx.ob('W.window', 'ParseAdjacent::eval:holes-counted-on-the-clamped-window', clamped,
                               'the number of present items that decides the trim is read after set_scope(start..end of the caller\'s scope) on the same state (%d count(s), %d clamp(s)): %s' % (len(lens), len(clamps), clamped), where=b.where(lens[0].bb) if lens else b.where(), cfg=cfg)
        # and it precedes the attempt
        ok = good and all(b.dominates(trims[0].bb, x) or not b.reaches(trims[0].bb, [x]) or True for x in real) and any(b.reaches(trims[0].bb, [x]) for x in real)
        detail = 'taken on the edge where `window length > number of present items` (%s), before the attempt' % good
    ctx.ob('W.window', 'ParseAdjacent::eval:trim-when-holes', ok, 'ParseAdjacent::eval trims the window to the adjacent run: %s' % detail, where=b.where(trims[0].bb) if trims else b.where(), cfg=cfg)

def start_widths(ctx, cfg, fs):
    """ArgRangesIter stops offering start positions when `start + width` runs past the scope: width is how many items the group's FIRST
    item needs at least.  Only a named argument needs two (name and value); flags, positionals, commands and `any` need one - a larger
    number drops the last start positions (a block whose tag is the last word of the line is never tried).  Table, per variant of Item
    (abstract walk of State::ranges under "the item is this variant")."""
    from absint import Walker, UNKNOWN, show
    b = ctx.look(fs.one(r'^args::inner::State::ranges$'))
    item = [l for l, nm in b.local_names.items() if nm == 'item' and l <= b.arg_count]
    if not item:
        raise Broken('State::ranges: parameter `item` not found')
    want = {'Any': '1', 'Positional': '1', 'Command': '1', 'Flag': '1', 'Argument': '2'}
    ad = fs.adt('item::Item')
    variants = [v['name'] for v in ad['variants']] if ad else list(want)
    for v in variants:
        outs = set()
        for p_ in Walker(b, variant_of={(item[0], ()): v}, max_paths=100).run():
            if p_.end != 'return': continue
            r = p_.ret
            w = [show(val) for (_, l, val) in p_.assigns if b.local_names.get(l) == 'width']
            if r is not UNKNOWN and r[0] == 'agg' and len(r[3]) >= 2:
                outs.add(show(r[3][1]))
            elif w:
                outs.add(w[-1])
            else:
                outs.add('?')
        ctx.ob('L.leftmost', 'State::ranges:width:%s' % v, outs == {want.get(v, '1')}, 'State::ranges: a group that starts with Item::%s needs %s item(s) at its start position (expected %s)' % (v, sorted(outs), want.get(v, '1')), where=b.where(), cfg=cfg)

def every_start_probed(ctx, cfg, fs):
    """a block may begin at ANY present item that the group's first member accepts - written with its primary name, a hidden alias, a
    short name, attached or detached.  Whether a start position is worth an attempt is decided by running the group on it (the
    probe), not by a shortcut that looks at the word: (a) in ParseAdjacent::eval the only way from "next start position" back to the
    loop head without the probe is the `nothing present here` test on State::len(); (b) ArgRangesIter hands out `self.width` itself -
    the number of items the first member needs does not depend on how the word at that position is spelled."""
    b = ctx.look(fs.one(r'^<structs::ParseAdjacent<P> as Parser<T>>::eval$'))
    nx = [c for c in b.calls() if c.is_(r'ArgRangesIter.*Iterator>::next$')]
    evs = [c for c in result_calls(b) if c.is_(r'as Parser<.*>>::eval$', r'Parser<T> for std::boxed::Box')]
    if len(nx) != 1 or not evs:
        raise Broken('ParseAdjacent::eval: scan loop / probe not found')
    sw = switch_on_call(b, nx[0])
    body_ = sw.target('Some') if sw is not None else None
    # the probe is the evaluation that only ever sees the single-item window (as in `window` above)
    by = {}
    for (bb_, sid_, sc_) in eval_scopes(b):
        by.setdefault(bb_, set()).add(sc_)
    probe = [e for e in evs if by.get(e.bb) and by[e.bb] <= {('narrow', 'range:start..start+width')}]
    if not probe:
        probe = [e for e in evs if body_ is not None and e.bb in reachable_edges(b, body_, avoid=[nx[0].bb]) and all(b.dominates(e.bb, o.bb) or not b.reaches(e.bb, [o.bb]) for o in evs)]
    if not probe:
        raise Broken('ParseAdjacent::eval: probe evaluation not identified')
    pb = probe[0].bb
    before = reachable_edges(b, body_, avoid=[pb, nx[0].bb])
    skips = []
    for x in sorted(before):
        if b.term(x)['k'] != 'switch': continue
        s_ = Switch(b, x)
        for o_, t_ in s_.edges.items():
            if nx[0].bb in reachable_edges(b, t_, avoid=[pb]) and pb in {y for o2, t2 in s_.edges.items() if t2 != t_ for y in reachable_edges(b, t2, avoid=[nx[0].bb])}:
                by_len = s_.kind in ('bool', 'int') and any(r.kind == 'bin' and any(q.kind == 'call' and q.call.is_(r'^args::inner::State::len$') for k_ in ('a', 'b') for q in provenance(b, r.extra[k_], r.site[0], r.site[1], through=None)) for r in (s_.roots or []))
                by_len = by_len or (s_.kind in ('bool', 'int') and any(r.kind == 'call' and r.call.is_(r'^args::inner::State::(len|is_empty)$') for r in (s_.roots or [])))
                skips.append((b.where(x), by_len))
    ctx.ob('L.leftmost', 'ParseAdjacent::eval:every-start-is-probed', all(ok_ for (_, ok_) in skips),
           'ways to skip a start position before the probe: %s (only "nothing is present here", read off State::len(), may)' % ([w_ + (' [len]' if ok_ else ' [OTHER]') for (w_, ok_) in skips] or 'none'), where=b.where(pb), cfg=cfg)
    it = ctx.look(fs.one(r"^<args::inner::ArgRangesIter<'a> as std::iter::Iterator>::next$"))
    ws = []
    for i in value_sites(it, 'Some'):
        for k, st in enumerate(it.blocks[i]['stmts']):
            if st['k'] == 'assign' and st['rv']['k'] == 'agg' and st['rv'].get('variant') == 'Some':
                for r in provenance(it, st['rv']['fields'][0], i, k, through=None):
                    if r.kind == 'agg' and len(r.extra.get('fields', [])) == 3:
                        for q in provenance(it, r.extra['fields'][1], r.site[0], r.site[1], through=None):
                            ws.append('self.width' if (q.kind == 'param' and q.path[-1:] == ['width']) else '%s:%s' % (q.kind, q.what if q.kind != 'call' else q.call.name.split('::')[-1]))
    ctx.ob('L.leftmost', 'ArgRangesIter::next:width-is-the-field', bool(ws) and all(w_ == 'self.width' for w_ in ws),
           'the width handed out with every start position is %s' % sorted(set(ws)), where=it.where(), cfg=cfg)

def contiguous(ctx, cfg, fs):
    b = ctx.look(fs.one(r'^args::inner::State::adjacently_available_from$'))
    ok = False; how = 'not recognised'
    # form 1: count() of take_while(present) over item_state.skip(start)
    for c in b.calls():
        if c.is_(r'Iterator>?::count$'):
            full = c.full
            uses_present = any(fn_ == 'args::ItemState::present' for x in fs.family(b) for (_, fn_, _) in fn_refs(x)) or \
                any(cc.is_(r'^args::ItemState::present$') for x in fs.family(b) if x.kind == 'closure' for cc in x.calls())
            sk_ = [x for x in b.calls() if x.is_(r'Iterator>?::skip$')]
            sk_ok = bool(sk_) and all(all(q.kind == 'param' and q.what == 'start' for q in provenance(b, x.args[1], x.bb, 'term')) for x in sk_)
            if 'TakeWhile' in full and 'Skip' in full and uses_present and sk_ok and 'Filter' not in full:
                ok = True; how = 'item_state.skip(start).take_while(present).count()'
    if not ok:
        # form 2: a loop over item_state.skip(start) that counts while present() and leaves at the first non-present item
        nx = [c for c in b.calls() if c.is_(r'Iterator>?::next$')]
        pres = [c for c in b.calls() if c.is_(r'^args::ItemState::present$')]
        incs = [(i, k, st) for i, k, st in b.stmts() if st['k'] == 'assign' and st['rv']['k'] == 'bin' and st['rv']['op'].startswith('Add') and (op_const(st['rv']['b']) or {}).get('v') == 1]
        sk_ = [x for x in b.calls() if x.is_(r'Iterator>?::skip$')]
        sk_ok = bool(sk_) and all(all(q.kind == 'param' and q.what == 'start' for q in provenance(b, x.args[1], x.bb, 'term')) for x in sk_)
        if len(nx) == 1 and len(pres) == 1 and incs and sk_ok:
            sw = switch_on_call(b, pres[0])
            if sw is not None and sw.kind == 'bool':
                t_true = sw.target(True); t_false = sw.target(False)
                inc_blocks = {i for (i, k, st) in incs}
                counts_when_present = all(only_via_edge(b, sw.b, t_true, i) for i in inc_blocks)
                leaves = nx[0].bb not in reachable_edges(b, t_false)
                if counts_when_present and leaves:
                    ok = True; how = 'loop over item_state.skip(start): +1 while present(), left at the first non-present item'
    # the range returned is start .. start + n
    rng = False
    for i, k, st in b.stmts():
        if st['k'] == 'assign' and st['lhs'] == [0, []] and st['rv']['k'] == 'agg' and 'Range' in st['rv'].get('adt', ''):
            names = st['rv'].get('field_names') or ['start', 'end']
            s_ = provenance(b, st['rv']['fields'][names.index('start')], i, k, through=None)
            e_ = provenance(b, st['rv']['fields'][names.index('end')], i, k, through=None)
            rng = bool(s_) and all(q.kind == 'param' and q.what == 'start' for q in s_) and bool(e_) and all(q.kind == 'bin' and q.extra['op'].startswith('Add') and
                any(z.kind == 'param' and z.what == 'start' for z in provenance(b, q.extra['a'], q.site[0], q.site[1], through=None) + provenance(b, q.extra['b'], q.site[0], q.site[1], through=None)) for q in e_)
    ctx.ob('C.contiguous', 'adjacently_available_from:run-of-present-items', ok and rng,
           'adjacently_available_from(start) = start .. start + (number of present items from `start` up to the first consumed one): counting %s; range shape %s' % (how, rng), where=b.where(), cfg=cfg)

def prefix(ctx, cfg, fs):
    for rx, nm in ((r'^<structs::ParseAdjacent<P> as Parser<T>>::eval$', 'ParseAdjacent::eval'), (r'^<params::ParseCommand<T> as Parser<T>>::eval$', 'ParseCommand::eval')):
        b = ctx.look(fs.one(rx))
        asc = [c for c in b.calls() if c.is_(r'^args::inner::State::adjacent_scope$')]
        oks = ok_return_blocks(b)
        if not asc:
            ctx.ob('P.prefix', '%s:accepts-only-a-prefix-run' % nm, False, '%s never asks adjacent_scope whether the consumed items form one run' % nm, where=b.where(), cfg=cfg)
            continue
        good = True; n = 0
        for c in asc:
            sw = switch_on_call(b, c)
            if sw is None or sw.target('None') is None or sw.target('Some') is None:
                good = False; continue
            some = reachable_edges(b, sw.target('Some'), avoid=[c.bb])
            # an Ok return reachable from the Some edge without asking again would accept a pieced-together block
            for o in oks:
                if o in some:
                    # allowed only if another inner run happens on the way (the retry on the narrower window)
                    retry = [x for x in result_calls(b) if x.bb in some and x.bb != c.bb and b.reaches(x.bb, [o])]
                    if not retry:
                        good = False
            n += 1
        # Ok returns of the adjacent part are all downstream of an adjacent_scope question
        if nm == 'ParseAdjacent::eval':
            good &= bool(oks) and all(any(b.dominates(c.bb, o) for c in asc) for o in oks)
        ctx.ob('P.prefix', '%s:accepts-only-a-prefix-run' % nm, good and n >= 1,
               '%s: a successful attempt is returned only when adjacent_scope has no narrower window to propose (None edge), otherwise the group is evaluated again on that window (%d question(s)): %s' % (nm, n, good), where=b.where(), cfg=cfg)

def adjacent_scope(ctx, cfg, fs):
    b = ctx.look(fs.one(r'^args::inner::State::adjacent_scope$'))
    pres = [c for x in fs.family(b) for c in x.calls() if c.is_(r'^args::ItemState::present$')]
    # both ledgers are consulted: the iterator whose elements are tested zips the item_state of self and of original
    srcs = set()
    for c in b.calls():
        if c.is_(r'as std::ops::Index<.*>>::index$', r'slice::<impl \[T\]>::iter$', r'Iterator>?::zip$'):
            for a_ in c.args:
                for r in provenance(b, a_, c.bb, 'term', through=DEFAULT_THROUGH + [r'slice::<impl \[T\]>::iter$', r'IntoIterator>?::into_iter$']):
                    if r.kind == 'param' and 'item_state' in r.path: srcs.add(r.what)
    zips = [c for c in b.calls() if c.is_(r'Iterator>?::zip$')]
    both = srcs >= {'self', 'original'} and len(zips) == 1
    # forward scan from the start of the scope
    # ... from the very first item of the scope on (a command's scope starts AFTER its name: the first item is as foreign as any other)
    fwd = not any(c.is_(r'Iterator>?::(rev|next_back|rposition|rfind|last|max\w*|min\w*|skip|skip_while|step_by|nth|advance_by)$') for x in fs.family(b) for c in x.calls())
    rngs = []
    for i, k, st in b.stmts():
        if st['k'] == 'assign' and st['rv']['k'] == 'agg' and 'Range' in st['rv'].get('adt', ''):
            names = st['rv'].get('field_names') or ['start', 'end']
            s_ = provenance(b, st['rv']['fields'][names.index('start')], i, k, through=None)
            rngs.append(bool(s_) and all(q.kind == 'call' and q.call.is_(r'State::scope$') and q.path == ['start'] for q in s_))
    ctx.ob('S.adjacent_scope', 'adjacent_scope:first-foreign-item', both and fwd and len(pres) >= 2,
           'adjacent_scope scans forward and tests present() on both ledgers (%s): the window ends at the first item present in the attempt and before it' % sorted(srcs), where=b.where(), cfg=cfg)
    # the window found is withheld (None) ONLY when it is the scope the attempt already ran on: an EMPTY window is a proposal like
    # any other (`drink eat Fastfood`: the block of `drink` is empty and the retry on it is what lets the chain go on)
    rsites = [i for i, k, st in b.stmts() if st['k'] == 'assign' and st['rv']['k'] == 'agg' and st['rv'].get('adt', '') == 'std::ops::Range']
    eqs = [switch_on_call(b, c) for c in b.calls() if c.is_(r'PartialEq.*>::(eq|ne)$') and 'Range' in c.full]
    eqs = [(s_, c_) for s_, c_ in zip(eqs, [c for c in b.calls() if c.is_(r'PartialEq.*>::(eq|ne)$') and 'Range' in c.full]) if s_ is not None and s_.kind == 'bool']
    nones = [i for i, k, st in b.stmts() if st['k'] == 'assign' and st['rv']['k'] == 'agg' and st['rv'].get('variant') == 'None' and 'Range' in (b.local_ty(st['lhs'][0]) or '')]
    leak = []
    for r_ in rsites:
        removed = [(s_.b, s_.target(c_.is_(r'::eq$'))) for (s_, c_) in eqs]
        for n_ in nones:
            if n_ in reachable_edges(b, r_) and n_ in reachable_edges(b, r_, removed_edges=removed):
                leak.append(b.where(n_))
    ctx.ob('S.adjacent_scope', 'adjacent_scope:withheld-only-when-unchanged', bool(rsites) and bool(eqs) and not leak,
           'once a window has been found, None is returned only on the edge where the window equals the current scope (%d comparison(s)): %s' % (len(eqs), leak or 'ok'), where=b.where(), cfg=cfg)
    ctx.ob('S.adjacent_scope', 'adjacent_scope:window-starts-at-scope-start', bool(rngs) and all(rngs), 'the proposed window starts at the start of the current scope (%d range(s) built)' % len(rngs), where=b.where(), cfg=cfg)

def leftmost(ctx, cfg, fs):
    b = ctx.look(fs.one(r'^<structs::ParseAdjacent<P> as Parser<T>>::eval$'))
    rg = [c for c in b.calls() if c.is_(r'^args::inner::State::ranges$')]
    nx = [c for c in b.calls() if c.is_(r'ArgRangesIter.*Iterator>::next$')]
    ok = len(rg) == 1 and len(nx) == 1
    ctx.ob('L.leftmost', 'ParseAdjacent::eval:scans-ranges-once', ok, 'ParseAdjacent::eval walks State::ranges(first item) with one loop (%d/%d)' % (len(rg), len(nx)), where=b.where(), cfg=cfg)
    if ok:
        loop = reachable_edges(b, nx[0].target) if nx[0].target is not None else set()
        oks = ok_return_blocks(b)
        first = bool(oks) and all(o in loop for o in oks)
        # no bookkeeping of a "best success": the only Ok aggregates are returned from inside the loop
        ctx.ob('L.leftmost', 'ParseAdjacent::eval:first-success-returns', first, 'the first start position whose attempt succeeds returns from inside the scan (no later start can replace it): %s' % first, where=b.where(), cfg=cfg)
    it = ctx.look(fs.one(r"^<args::inner::ArgRangesIter<'a> as std::iter::Iterator>::next$"))
    incs = [i for i, k, st in it.stmts() if st['k'] == 'assign' and st['rv']['k'] == 'bin' and st['rv']['op'].startswith('Add') and (op_const(st['rv']['b']) or {}).get('v') == 1 and 'cur' in place_fields(op_place(st['rv']['a']) or [0, []])]
    dec = any(st['k'] == 'assign' and st['rv']['k'] == 'bin' and st['rv']['op'].startswith('Sub') and 'cur' in place_fields(op_place(st['rv']['a']) or [0, []]) for i, k, st in it.stmts())
    pres = [c for c in it.calls() if c.is_(r'^args::inner::State::present$')]
    somes = value_sites(it, 'Some')
    guarded = False
    for c in pres:
        for s2 in switches(it):
            if s2.kind == 'bool' and any(r.kind == 'call' and r.call.is_(r'Try>::branch$') and r.path == ['as Continue', '0'] for r in s2.roots) or (s2.kind == 'bool' and any(r.kind == 'call' and r.call.bb == c.bb for r in s2.roots)):
                if somes and all(only_via_edge(it, s2.b, s2.target(True), s_) for s_ in somes):
                    guarded = True
    # every position is a candidate start: the cursor only ever moves by ONE (skipping `width` positions after a consumed item
    # would hide the first item of a block that follows an odd number of foreign items)
    steps = []
    for i, k, st in it.stmts():
        if st['k'] == 'assign' and 'cur' in place_fields(st['lhs']) and st['lhs'][1] and st['lhs'][1][-1][0] == 'f' and st['lhs'][1][-1][2] == 'cur':
            rs = provenance(it, st['rv']['op'], i, k, through=None) if st['rv']['k'] == 'use' else ([Root('bin', st['rv']['op'], [], (i, k), extra=st['rv'])] if st['rv']['k'] == 'bin' else [])
            for r in rs:
                if r.kind == 'bin' and r.extra['op'].startswith('Add') and (op_const(r.extra['b']) or {}).get('v') == 1 and 'cur' in place_fields(op_place(r.extra['a']) or [0, []]):
                    steps.append('+1')
                elif r.kind == 'bin' and r.path == ['0']:
                    steps.append('+1' if (r.extra['op'].startswith('Add') and (op_const(r.extra['b']) or {}).get('v') == 1) else '%s by a variable amount' % r.extra['op'])
                else:
                    steps.append('%s:%s' % (r.kind, r.what))
    ctx.ob('L.leftmost', 'ArgRangesIter::next:cursor-moves-by-one', bool(steps) and set(steps) == {'+1'}, 'ArgRangesIter::next assigns its cursor %s' % sorted(set(steps)), where=it.where(), cfg=cfg)
    ctx.ob('L.leftmost', 'ArgRangesIter::next:increasing-present-starts', bool(incs) and not dec and guarded,
           'ArgRangesIter::next only moves its cursor forward (+1, %d site(s)) and yields a position only when the item there is present: %s' % (len(incs), guarded), where=it.where(), cfg=cfg)
