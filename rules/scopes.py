"""Symbolic tracking of State scopes along all (loop-bounded) paths of a function: which scope does
the caller's state have when the function returns Ok?  (PAIR template for set_scope narrow/restore)"""
from core import *
from dataflow import *
from cfgq import *
from absint import *

STATE_TY = 'args::inner::State'

def state_id(body, op, bb, depth=0):
    """identity of the State an operand refers to: 'args' (the &mut State parameter), ('local', n) or None"""
    if op[0] not in ('cp', 'mv') or depth > 12:
        return None
    place = op[1]
    L = place[0]
    ty = body.local_ty(L)
    if ty == STATE_TY and all(p[0] == '*' for p in place[1]):
        return ('local', L)
    if 1 <= L <= body.arg_count and STATE_TY in ty and all(p[0] == '*' for p in place[1]):
        return body.name_of(L)
    if place[1] and not all(p[0] == '*' for p in place[1]):
        return None
    defs = reaching_defs(body, L, bb, 'term')
    ids = set()
    for (db, dk, kind, st) in defs:
        if kind == 'assign' and not st['lhs'][1]:
            rv = st['rv']
            if rv['k'] in ('ref', 'rawptr'):
                ids.add(state_id(body, ['cp', rv['place']], db, depth + 1))
            elif rv['k'] in ('use', 'cast'):
                ids.add(state_id(body, rv['op'], db, depth + 1))
            else:
                ids.add(None)
        else:
            ids.add(None)
    if len(ids) == 1:
        return ids.pop()
    return None

def track(body, param='args', want='Ok'):
    """returns list of (path, final scope of the parameter state, kind of return) for Ok returns"""
    def sk(i):
        return ('sc', i)
    def cm(w, c, store):
        if c.is_(r'^<args::inner::State as std::clone::Clone>::clone$'):
            src = state_id(body, c.args[0], c.bb)
            if c.dest and not c.dest[1] and body.local_ty(c.dest[0]) == STATE_TY:
                store[sk(('local', c.dest[0]))] = store.get(sk(src), ('unknown', 'clone of ?'))
            return ('state',)
        if c.is_(r'^args::inner::State::scope$'):
            src = state_id(body, c.args[0], c.bb)
            return ('scope', store.get(sk(src), ('unknown', 'scope of %s' % (src,))))
        if c.is_(r'^args::inner::State::set_scope$'):
            tgt = state_id(body, c.args[0], c.bb)
            v = w.opval(c.args[1], store)
            if v is not UNKNOWN and v[0] == 'scope':
                val = v[1]
            else:
                rs = provenance(body, c.args[1], c.bb, 'term', through=None)
                kinds = set()
                for r in rs:
                    if r.kind == 'call' and r.call.is_(r'adjacently_available_from$'): kinds.add('adjacent')
                    elif r.kind == 'call' and r.call.is_(r'State::adjacent_scope$'): kinds.add('adjacent_scope')
                    elif r.kind == 'agg' and 'Range' in r.what: kinds.add('range')
                    elif r.kind == 'call' and r.call.is_(r'State::scope$'): kinds.add('scope-copy?')
                    else: kinds.add('%s:%s' % (r.kind, r.what))
                val = ('narrow', '+'.join(sorted(kinds)), store.get(sk(tgt), None))
            store[sk(tgt)] = val
            return None
        if c.is_(r'^std::mem::swap::<args::inner::State>$'):
            a = state_id(body, c.args[0], c.bb); b = state_id(body, c.args[1], c.bb)
            va = store.get(sk(a), ('unknown', 'swap')); vb = store.get(sk(b), ('unknown', 'swap'))
            store[sk(a)] = vb; store[sk(b)] = va
            return None
        if c.dest and not c.dest[1] and body.local_ty(c.dest[0]) == STATE_TY:
            store[sk(('local', c.dest[0]))] = ('unknown', 'result of %s' % c.name)
        return ('callres', c.name, c.bb)
    w = Walker(body, call_model=cm, max_paths=20000, max_visits=2)
    init = {sk(param): ('entry',)}
    # states produced by destructuring an iterator item etc. are unknown: handled lazily (missing key)
    paths = w.run(0, init)
    out = []
    for p in paths:
        if p.end != 'return':
            continue
        v = p.ret
        if v is UNKNOWN or v[0] != 'agg' or v[2] != want:
            continue
        out.append(p)
    return w, out

def final_scope(w, p, param='args'):
    return None
