"""Shape rules over the `construct!` witness crate (witness/shapes): the macro of the current /repo tree
is expanded into plain closures, whose MIR is checked.  Function names encode the expected field order."""
import re
from core import *
from dataflow import *
from cfgq import *

def dom_sorted(body, blocks):
    bl = list(dict.fromkeys(blocks))
    # straight-line order by dominance (a before b if a dominates b)
    import functools
    def cmp(a, b):
        if a == b: return 0
        if body.dominates(a, b): return -1
        if body.dominates(b, a): return 1
        return 0
    return sorted(bl, key=functools.cmp_to_key(cmp))

def upvar_of(body, op, bb):
    rs = provenance(body, op, bb, 'term', through=None)
    names = {r.what for r in rs if r.kind == 'upvar'}
    return names.pop() if len(names) == 1 and all(r.kind == 'upvar' for r in rs) else None

def local_var_of(body, op, bb):
    """name of the user variable an operand refers to (through refs/moves)"""
    if op[0] not in ('cp', 'mv'):
        return None
    seen = set(); place = op[1]; b = bb; idx = 'term'
    for _ in range(12):
        L = place[0]
        nm = body.local_names.get(L)
        if nm and not nm.startswith('_'):
            return nm
        defs = reaching_defs(body, L, b, idx)
        if len(defs) != 1:
            return None
        (db, dk, kind, st) = defs[0]
        if kind == 'assign' and not st['lhs'][1]:
            rv = st['rv']
            if rv['k'] in ('ref', 'rawptr'): place = rv['place']
            elif rv['k'] in ('use', 'cast') and op_place(rv['op']): place = op_place(rv['op'])
            else: return None
            b, idx = db, dk
        elif kind == 'call':
            c = Call(body, db, st)
            return 'call:' + c.name.split('::')[-1]
        else:
            return None
    return None

def construct_shapes(ctx, rule, fs=None):
    fs = fs or load_witness('shapes')
    n_checked = 0
    for path, body in sorted(fs.bodies.items()):
        m = re.match(r'^(named|pos|tuple|tuple12|variant_named|variant_pos|callform|exprform|adjacent)__([a-z0-9_]+)$', path)
        if not m:
            continue
        kind, flds = m.group(1), m.group(2).split('_')
        clo = fs.bodies.get(path + '::{closure#0}')
        ctx.look(body)
        if clo is None:
            ctx.ob(rule, '%s:closure' % path, False, 'witness %s: no ParseCon closure in the expansion' % path, cfg='witness')
            continue
        n_checked += 1
        n = len(flds)
        evals = [c for c in clo.calls() if c.is_(r'bpaf::Parser<.*>>::eval$', r'^bpaf::Parser::eval$')]
        order = dom_sorted(clo, [c.bb for c in evals])
        by_bb = {c.bb: c for c in evals}
        seq = [upvar_of(clo, by_bb[b].args[0], b) for b in order]
        total_order = all(clo.dominates(order[i], order[i + 1]) for i in range(len(order) - 1))
        ctx.ob(rule, '%s:eval-order' % path, seq == flds and total_order,
               '%s: fields are evaluated %s, each exactly once on every path (expected %s)' % (path, seq, flds), where=clo.where(), cfg='witness')
        # all on the same shared state
        states = set()
        for c in evals:
            rs = provenance(clo, c.args[1], c.bb, 'term', through=None)
            states |= {(r.kind, r.what) for r in rs}
        ctx.ob(rule, '%s:shared-state' % path, states == {('param', 'args')}, '%s: every field parser runs on the shared consumption state %s' % (path, sorted(states)), where=clo.where(), cfg='witness')
        # short-circuit only under failfast
        last_eval = order[-1] if order else None
        brs = [c for c in clo.calls() if c.is_(r'as std::ops::Try>::branch$')]
        early = [c for c in brs if last_eval is not None and not clo.dominates(last_eval, c.bb)]
        ff_ok = True
        for c in early:
            ok = False
            for sw in switches(clo):
                if sw.kind == 'bool' and any(r.kind == 'param' and r.what == 'failfast' for r in sw.roots):
                    if only_via_edge(clo, sw.b, sw.target(True), c.bb):
                        ok = True
            ff_ok &= ok
        ctx.ob(rule, '%s:no-short-circuit' % path, ff_ok and len(early) <= 1,
               '%s: %d `?` before the last field is evaluated; allowed only under failfast (adjacent): %s' % (path, len(early), ff_ok), where=clo.where(), cfg='witness')
        # the ? after the evals are in declaration order and cover every field
        late = [c for c in brs if c not in early]
        lorder = dom_sorted(clo, [c.bb for c in late])
        lb = {c.bb: c for c in late}
        lseq = []
        for b in lorder:
            rs = provenance(clo, lb[b].args[0], b, 'term', through=None)
            srcs = set()
            for r in rs:
                if r.kind == 'call' and r.call.bb in by_bb:
                    srcs.add(upvar_of(clo, r.call.args[0], r.call.bb))
                elif r.kind == 'agg' and r.what.endswith('Result::Ok'):
                    # failfast re-wrap of the first field: Ok(front?)
                    srcs.add(flds[0])
                else:
                    srcs.add('?%s' % r.kind)
            lseq.append('|'.join(sorted(srcs)))
        ctx.ob(rule, '%s:first-error-first' % path, lseq == flds, '%s: results are unwrapped with `?` in the order %s, so the first failing field in declaration order is the error returned' % (path, lseq), where=clo.where(), cfg='witness')
        # Ok aggregate carries the n values in order
        got = None
        for i, k, st in clo.stmts():
            if st['k'] == 'assign' and st['lhs'] == [0, []] and st['rv']['k'] == 'agg' and st['rv'].get('variant') == 'Ok':
                rs = provenance(clo, st['rv']['fields'][0], i, k, through=None)
                if len(rs) == 1 and rs[0].kind == 'agg':
                    agg = rs[0].extra
                    got = []
                    for f in agg['fields']:
                        frs = provenance(clo, f, rs[0].site[0], rs[0].site[1], through=None)
                        srcs = set()
                        for r in frs:
                            if r.kind == 'call' and r.call.is_(r'Try>::branch$') and r.path == ['as Continue', '0']:
                                j = lorder.index(r.call.bb) if r.call.bb in lorder else None
                                srcs.add(flds[j] if j is not None and j < len(flds) else '?')
                            else:
                                srcs.add('?%s' % r.kind)
                        got.append('|'.join(sorted(srcs)))
                    names = agg.get('field_names')
                # current = None precedes
        want_names = flds if kind in ('named', 'variant_named', 'exprform') else None
        ok = got == flds
        ctx.ob(rule, '%s:result-fields' % path, ok, '%s: the value is built from the field results %s (expected %s)' % (path, got, flds), where=clo.where(), cfg='witness')
        # meta: And over the same fields in the same order; ParseCon{failfast:false}
        metas = [c for c in body.calls() if c.is_(r'bpaf::Parser<.*>>::meta$', r'^bpaf::Parser::meta$')]
        morder = dom_sorted(body, [c.bb for c in metas])
        mb = {c.bb: c for c in metas}
        mseq = [local_var_of(body, mb[b].args[0], b) for b in morder]
        want = flds if kind != 'callform' else flds
        ands = [st for i, k, st in body.stmts() if st['k'] == 'assign' and st['rv']['k'] == 'agg' and st['rv'].get('adt') == 'bpaf::Meta' and st['rv'].get('variant') == 'And']
        ctx.ob(rule, '%s:meta-fields' % path, mseq == want and len(ands) == 1, '%s: Meta::And is built from .meta() of %s (expected %s)' % (path, mseq, want), where=body.where(), cfg='witness')
        pcs = [st for i, k, st in body.stmts() if st['k'] == 'assign' and st['rv']['k'] == 'agg' and st['rv'].get('adt', '').endswith('ParseCon')]
        ffc = None
        if len(pcs) == 1:
            names = pcs[0]['rv']['field_names']
            ffc = (op_const(pcs[0]['rv']['fields'][names.index('failfast')]) or {}).get('v')
        ctx.ob(rule, '%s:failfast-default' % path, ffc is False, '%s: construct! builds ParseCon with failfast=%s (only .adjacent() turns it on)' % (path, ffc), where=body.where(), cfg='witness')
    if n_checked < 9:
        raise Broken('construct! witness: only %d sequential shapes found' % n_checked)
    # parallel composition
    for path, body in sorted(fs.bodies.items()):
        m = re.match(r'^alt__([a-z_]+)$', path)
        if not m:
            continue
        flds = m.group(1).split('_')
        ors = [c for c in body.calls() if c.is_(r'bpaf::Parser::or_else$', r'Parser<.*>>::or_else$')]
        order = dom_sorted(body, [c.bb for c in ors])
        ob = {c.bb: c for c in ors}
        chain = []
        ok = len(ors) == len(flds) - 1
        prev = None
        for i, b in enumerate(order):
            c = ob[b]
            a0 = local_var_of(body, c.args[0], b); a1 = local_var_of(body, c.args[1], b)
            if i == 0:
                chain += [a0, a1]
            else:
                # receiver must be the previous or_else result
                rs = provenance(body, c.args[0], b, 'term', through=None)
                ok &= all(r.kind == 'call' and r.call.bb == prev for r in rs)
                chain.append(a1)
            prev = b
        ctx.ob(rule, '%s:or_else-chain' % path, ok and chain == flds, '%s: construct!([..]) expands to a left-nested or_else chain over %s (expected %s)' % (path, chain, flds), where=body.where(), cfg='witness')
    return n_checked
