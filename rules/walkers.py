"""WALK template: which children of a Meta node does each recursive walker visit?"""
import re
from core import *
from dataflow import *
from cfgq import *
from parsers import *

ITER_THROUGH = DEFAULT_THROUGH + [r'slice::<impl \[T\]>::(iter|iter_mut)$', r'IntoIterator>?::into_iter$', r'Iterator>?::(next|enumerate|rev|skip)$', r'slice::<impl \[T\]>::(first|first_mut|last)$']

def meta_switch(body):
    """the dominating switch on the discriminant of a meta::Meta value"""
    cands = [s for s in switches(body) if s.kind == 'enum' and s.enum == 'meta::Meta']
    cands = [s for s in cands if all(body.dominates(s.b, o.b) for o in cands)]
    return cands[0] if cands else None

def arm_exclusive(body, sw, variant):
    t = sw.target(variant)
    others = {x for o, x in sw.edges.items() if x != t}
    reach = reachable_edges(body, t, avoid=others)
    for o in others:
        reach -= reachable_edges(body, o)
    return reach

def coverage(fs, body, walker_names):
    """variant -> classification of how the arm treats the children of the node"""
    sw = meta_switch(body)
    if sw is None:
        raise Broken('%s: no switch on Meta' % body.path)
    out = {}
    arms = {}
    for v, t in sw.edges.items():
        arms.setdefault(t, []).append(v)
    fam = {b.path: b for b in fs.family(body)}
    reach_of = {t: reachable_edges(body, t) for t in arms}
    common = None
    for t, r in reach_of.items():
        common = set(r) if common is None else (common & r)
    common = common or set()
    for t, vs in arms.items():
        # blocks of this arm: everything reachable from its entry except the code after the match (reachable from every arm)
        reach = reach_of[t] - common
        kinds = set()
        for x in sorted(reach):
            c = body.call_at(x)
            if c is None:
                continue
            is_walker = c.is_(*walker_names)
            takes_walker_fn = any(re.search(p, fn) for (bb, fn, full) in fn_refs(body) if bb == x for p in walker_names)
            passes_closure = None
            for a in c.args:
                for r in provenance(body, a, x, 'term', through=None):
                    if r.kind == 'agg' and r.extra.get('agg') == 'closure' and r.extra.get('closure') in fs.bodies:
                        clo = fs.bodies[r.extra['closure']]
                        if any(cc.is_(*walker_names) for cc in clo.calls()):
                            passes_closure = clo
            if not (is_walker or takes_walker_fn or passes_closure):
                # a crate helper that is handed the children and calls the walker back (mutual recursion)
                for h in callee_bodies(fs, c):
                    back = [hc for hc in h.calls() if hc.is_(*walker_names)]
                    if not back or h.path == body.path:
                        continue
                    hp = {h.name_of(i + 1): i for i in range(h.arg_count)}
                    for hc in back:
                        looped = hc.target is not None and hc.bb in reachable_edges(h, hc.target) and any(x_.is_(r'Iterator>?::next$') for x_ in h.calls())
                        for a in hc.args:
                            pl = op_place(a)
                            if pl is None or 'meta::Meta' not in h.local_ty(pl[0]):
                                continue
                            for r in provenance(h, a, hc.bb, 'term', through=ITER_THROUGH):
                                if r.kind == 'param' and r.what in hp and hp[r.what] < len(c.args):
                                    # which child of the node was given to the helper?
                                    for q in provenance(body, c.args[hp[r.what]], x, 'term', through=ITER_THROUGH):
                                        if q.kind in ('param', 'upvar') and q.path:
                                            kinds.add('all' if looped else 'child')
                continue
            # what does the call walk over?
            src = c.args[0] if (takes_walker_fn or passes_closure) else None
            if is_walker:
                # find the Meta-typed argument
                for a in c.args:
                    pl = op_place(a)
                    if pl is not None and 'meta::Meta' in body.local_ty(pl[0]):
                        src = a
            if src is None:
                kinds.add('?'); continue
            rs = provenance(body, src, x, 'term', through=DEFAULT_THROUGH + [r'slice::<impl \[T\]>::(iter|iter_mut)$', r'IntoIterator>?::into_iter$', r'Iterator>?::next$', r'slice::<impl \[T\]>::(first|first_mut|last)$', r'Option::<.*>::(and_then|map)$'])
            through_first = any(cc.is_(r'slice::<impl \[T\]>::first') for cc in body.calls() if cc.bb in reach)
            in_loop = x in reachable_edges(body, c.target) if c.target is not None else False
            for r in rs:
                p = [q for q in r.path if q.startswith('as ') or q in ('0', '1', 'meta')]
                if takes_walker_fn or passes_closure:
                    kinds.add('first' if c.is_(r'Option::<.*>::and_then$') or through_first else 'all')
                elif in_loop and any(cc.is_(r'Iterator>?::next$') for cc in body.calls() if cc.bb in reach):
                    kinds.add('all')
                elif 'meta' in r.path and any(q.startswith('as Command') for q in r.path):
                    kinds.add('command-meta')
                else:
                    # `match xs.first() { Some(x) => walk(x), None => .. }` is `xs.first().and_then(walk)` written out
                    kinds.add('first' if through_first else 'child')
        # item handling: arm of Meta::Item
        for v in vs:
            out[v] = '+'.join(sorted(kinds)) if kinds else ('item' if v == 'Item' else 'none')
    return out
