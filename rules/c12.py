"""C12 - generated help documents exactly what the parser accepts (structural clauses).

Decides:
 S eval/meta agreement  for every impl Parser: the sub-parsers (fields) whose eval/run_subparser is reached from eval are
                   exactly the sub-parsers whose meta() is used by meta(); a parser that matches names through
                   self.named / self.longs describes them from the same fields.  Listed exceptions: ParseHide (Skip: hidden
                   items do not appear), ParseCon (fields live in the construct! closure: checked on the expansion, C01.W),
                   value-less parsers.
 K skip census     the only meta() bodies that can return Meta::Skip are hide, pure/pure_with/fail and name-less
                   flag/argument (env-only) parsers.
 W walkers         every recursive walker over Meta (append_meta, peek_front_ty, collect_shorts, first_item,
                   positional_invariant_check, normalize, write_meta) visits all children of And/Or and the child of every
                   wrapper variant; listed exceptions by design (first_item: And->first, Or->none; collect_shorts: Strict;
                   write_meta: CustomUsage prints the custom usage).  append_meta treats CustomUsage like its child, so
                   custom_usage/hide_usage change only the usage line; the only dropped item is Positional{help: None}.
 D dedup key       for every HelpItem variant, Dedup::check builds its key from every field write_help_item renders in the
                   item term (name, metavar) plus help (env / alias short excepted).
 H item copy       HelpItem::from(&Item) maps each Item variant to the same-named HelpItem variant copying
                   name/metavar/help/env unchanged.
 N first names     ShortLong::try_from reads short[0]/long[0] of the vectors matches_arg searches.
 C cursor          render_console / Doc::first_line advance the payload cursor by the token length exactly once on every way
                   through the Text arm (also when the text is skipped): otherwise later names and help are cut at wrong offsets.
 E embedders       Doc::doc / Doc::em_doc bracket whatever they splice in with an InlineBlock (the renderers end the "first paragraph
                   only" skipping at that block's end: without it everything after a multi-paragraph group title vanishes from --help).
 O order           render_help writes descr, usage, header, item groups (parser meta then help/version meta), footer in
                   that order.
 D derive sections the doc comment of a derived parser is split into description / header / footer as documented, each section yielding
                   only to ITS OWN explicit annotation (translation-validation members of C17 that carry doc comments).
 C doc writers    only write_str / write (and the Doc-splicing doc / em_doc / first_line) append to Doc.payload, and they record exactly the
                   number of BYTES appended in the Text token (a char pushed with length 1 shifts every later name of the help).
 B builders       help(..), descr/header/footer/usage/version, group_help, custom_usage store their argument in the field of the same name (wiring table).
 H has_help        table per HelpItem variant: a variant with an optional help is listed inside an adjacent block exactly when its help is Some.
 H env values      the current value of an environment variable enters the help only Debug-quoted ({:?}): its line breaks cannot act as paragraph breaks.
 C splitter cuts   the word scanner of the splitter cuts at byte offsets of character boundaries (shared with C04): non-ASCII help text renders.
 L placement check  positional_invariant_check judges every command and every adjacent group that starts with a named item from a clean state
                   (shared with C08): --help of a level with a positional in front of such a group describes it instead of panicking.
Does not decide: de-duplication and grouping outcomes for particular shapes."""
import re
from core import *
from dataflow import *
from cfgq import *
from parsers import *
from absint import Walker, UNKNOWN, show
import walkers

LEVEL = 'other'
EXPLANATION = __doc__
ASSUMPTIONS = ['third-party Parser impls describe themselves truthfully']
FLOORS = {'S.eval-meta': 28, 'K.skip': 5, 'W.walkers': 75, 'D.dedup': 5, 'H.item-copy': 5, 'N.names': 2, 'O.order': 5, 'C.cursor': 2, 'E.embedders': 2, 'D.derive-sections': 5, 'B.builders': 10}

WALKERS = {
    'append_meta::go': ([r'append_meta::go$'], {}),
    'peek_front_ty': ([r'peek_front_ty$'], {}),
    'collect_shorts': ([r'collect_shorts$'], {'Strict': ('none', 'Strict only wraps a positional item (census below), which has no short name')}),
    'first_item': ([r'first_item$'], {'And': ('first', 'an adjacent group inherits the behaviour of its FIRST item'), 'Or': ('none', 'a choice has no single first item (rejected by check_invariants)')}),
    'positional_invariant_check::go': ([r'positional_invariant_check::go$'], {}),
    'Meta::normalize': ([r'Meta::normalize$', r'normalize_vec$'], {'And': ('child', 'delegates to normalize_vec, which iterates'), 'Or': ('child', 'delegates to normalize_vec, which iterates')}),
    'write_meta::go': ([r'write_meta::go$'], {'CustomUsage': ('none', 'the usage line shows the custom usage document instead of the children')}),
}
CHILD_VARIANTS = {'And': 'all', 'Or': 'all', 'Optional': 'child', 'Required': 'child', 'Adjacent': 'child', 'Many': 'child', 'Subsection': 'child', 'Suffix': 'child', 'CustomUsage': 'child', 'Strict': 'child'}

SIB_EXCEPTIONS = {
    'structs::ParseHide<P>': 'hide: evaluated but deliberately not described (Meta::Skip)',
    'structs::ParseCon<P>': 'construct!: the field parsers live in the closure and the pre-built meta field; pairing checked on the macro expansion (C01.W meta-fields)',
}

def run(ctx):
    cfgs = ['none', 'all'] if ctx.tier == 'quick' else ['none', 'all', 'ac', 'doc']
    ctx.preload(cfgs)
    for cfg in cfgs:
        fs = ctx.facts(cfg)
        ctx.guard(eval_meta, ctx, cfg, fs)
        ctx.guard(skip_census, ctx, cfg, fs)
        ctx.guard(walker_rules, ctx, cfg, fs, 'W.walkers', WALKERS)
        ctx.guard(dedup, ctx, cfg, fs)
        ctx.guard(item_copy, ctx, cfg, fs)
        ctx.guard(names, ctx, cfg, fs)
        import wiring
        ctx.guard(wiring.builders, ctx, cfg, fs, 'B.builders', r'(::help$|^info::OptionParser::<T>::(descr|header|footer|usage|version|max_width)$|^Parser::(group_help|with_group_help|custom_usage|hide_usage|hide)$|^params::ParseAny::<T>::metavar$)')
        ctx.guard(order, ctx, cfg, fs)
        ctx.guard(decor, ctx, cfg, fs)
        ctx.guard(has_help_table, ctx, cfg, fs)
        ctx.guard(env_values_quoted, ctx, cfg, fs)
        ctx.guard(embedders, ctx, cfg, fs, 'E.embedders')
        import docwalk
        ctx.guard(docwalk.cursor_advance, ctx, cfg, fs, 'C.cursor', r'render_console$|Doc::first_line$')
        ctx.guard(docwalk.payload_writers, ctx, cfg, fs, 'C.cursor')
        import c08 as c08o
        # --help first runs the placement check of the level: it must not refuse shapes that are fine (a positional followed by a command
        # with named items, or by an adjacent group that starts with a flag) - shared with C08
        ctx.guard(c08o.own_level_invariant, ctx, cfg, fs)
        import c13
        # the name / metavariable column and the help text stay two separate words (shared with C13)
        ctx.guard(c13.term_gap, ctx, cfg, fs, 'C.cursor')
        import c04 as c04_, c08 as c08_
        ctx.guard(c08_.keep_only, ctx, lambda: c04_.str_index(ctx, cfg, fs), lambda o: 'Splitter' in o.key, 'C.cursor')
        ctx.guard(c08_.keep_only, ctx, lambda: c04_.str_cut(ctx, cfg, fs), lambda o: 'Splitter' in o.key, 'C.cursor')
    # derive: the doc comment of a derived parser is split into description / header / footer exactly as documented, each section
    # yielding to its own explicit annotation only (translation validation members of C17 that carry doc comments)
    import c17
    ctx.guard(c17.members_agree, ctx, 0, 'D.derive-sections', lambda mod, kind, name: 'docs' in mod or mod in ('b_usage', 'b_group_fallback'))

def has_help_table(ctx, cfg, fs):
    """inside an adjacent block only items that have help are listed: HelpItem::has_help decides that.  Per variant (walker table):
    an item variant whose `help` is optional (Option<..>) is listed exactly when its help is Some - no such variant may fall into a
    catch-all `false` (the `any`/`literal` member of a `-mode MODE` pair would lose its line); markers answer a constant."""
    b = ctx.look(fs.one(r'meta_help::HelpItem::<.*>::has_help$'))
    adt = fs.adt('meta_help::HelpItem')
    for v in adt['variants']:
        optional_help = any(f['name'] == 'help' and f['ty'].startswith('std::option::Option') for f in v['fields'])
        w = Walker(b, variant_of={(1, ()): v['name']}, call_model=lambda w_, c, st: ('callres', c.name.split('::')[-1], c.bb))
        outs = set()
        for p_ in w.run():
            if p_.end == 'return':
                outs.add(show(p_.ret))
        if optional_help:
            ok = bool(outs) and all('is_some' in o for o in outs)
            ctx.ob('H.item-copy', 'has_help:%s' % v['name'], ok, 'has_help(%s) = %s (the variant has an optional help: expected `help.is_some()`)' % (v['name'], sorted(outs)), where=b.where(), cfg=cfg)
        else:
            ctx.ob('H.item-copy', 'has_help:%s' % v['name'], bool(outs) and outs <= {'True', 'False'}, 'has_help(%s) = %s (marker: a constant)' % (v['name'], sorted(outs)), where=b.where(), cfg=cfg)

def env_values_quoted(ctx, cfg, fs):
    """the CURRENT VALUE of an environment variable is the one piece of help text nobody wrote: it is shown Debug-quoted ({:?}), so a
    newline or a blank line inside it stays `\\n` text and cannot act as a paragraph break in the middle of the item list (the short
    help stops printing at a paragraph break that is not closed by the end of an inline block)"""
    b = ctx.look(fs.one(r'^meta_help::write_help_item$'))
    n = 0; bad = []
    for s in fmt_sites(b):
        for (meth, T, op, bb) in s.args:
            def from_env(rs, depth=0):
                for r in rs:
                    if r.kind == 'call' and r.call.is_(r'^std::env::var(_os)?$'):
                        return True
                    if r.kind == 'call' and depth < 4 and r.call.args and from_env(provenance(b, r.call.args[0], r.call.bb, 'term', through=None), depth + 1):
                        return True
                return False
            if from_env(provenance(b, op, bb, 'term', through=None)):
                n += 1
                if meth != 'new_debug':
                    bad.append('%s at %s' % (meth, b.where(bb)))
    ctx.ob('H.item-copy', 'write_help_item:env-value-debug-quoted', n >= 1 and not bad, 'write_help_item formats the value of an environment variable %d time(s), always with {:?}: %s' % (n, bad or 'ok'), where=b.where(), cfg=cfg)

def decor(ctx, cfg, fs):
    """a `[default: ..]` / decoration line is attached to the item it decorates: append_meta pushes HelpItem::DecorSuffix only
    with the section type obtained from peek_front_ty of the DECORATED meta (so a hidden item - Skip, no type - gets no line
    at all, and the line never lands under an unrelated neighbour)"""
    b = ctx.look(fs.one(r'append_meta::go$'))
    n = 0
    for i, k, st in b.stmts():
        if st['k'] == 'assign' and st['rv']['k'] == 'agg' and st['rv'].get('adt', '').endswith('HelpItem') and st['rv'].get('variant') == 'DecorSuffix':
            names = st['rv'].get('field_names') or []
            if 'ty' not in names: continue
            n += 1
            rs = provenance(b, st['rv']['fields'][names.index('ty')], i, k, through=[r'as std::ops::Try>::branch$'])
            ok = bool(rs) and all(r.kind == 'call' and r.call.is_(r'peek_front_ty$') for r in rs)
            recv = [q for r in rs if r.kind == 'call' for q in provenance(b, r.call.args[0], r.call.bb, 'term')]
            ok &= bool(recv) and all(q.kind == 'param' and any(x.startswith('as Suffix') for x in q.path) for q in recv)
            ctx.ob('K.skip', 'append_meta::go:DecorSuffix:type-of-decorated-item', ok,
                   'append_meta pushes a decoration line with the section type %s of %s (must be peek_front_ty of the decorated meta itself)' % (
                       sorted({short(r.call.name) if r.kind == 'call' else '%s:%s' % (r.kind, r.what) for r in rs}), sorted({'.'.join(q.path) for q in recv})), where=b.where(i), cfg=cfg)
    if n == 0:
        raise Broken('append_meta::go: no HelpItem::DecorSuffix construction found')

def embedders(ctx, cfg, fs, rule):
    """Doc::doc / Doc::em_doc splice another document into this one.  The renderers switch the "first paragraph only" skipping
    off again at the END of the InlineBlock that encloses the text, so whatever is spliced in must be bracketed by
    BlockStart(InlineBlock) .. BlockEnd(InlineBlock) on every path (or be handed whole to an embedder that does)."""
    cands = [b for b in fs.bodies.values() if b.kind != 'closure' and re.search(r'^buffer::Doc::(doc|em_doc)$', b.path)]
    if len(cands) < 2:
        raise Broken('Doc::doc / Doc::em_doc not found')
    for b in sorted(cands, key=lambda x: x.path):
        ctx.look(b)
        def cm(w, c, store):
            return None
        w = Walker(b, max_paths=400, max_visits=2)
        rows = set()
        for p_ in w.run():
            if p_.end != 'return': continue
            seq = []
            for (blk, c), av in zip(p_.calls, p_.callvals):
                if c.is_(r'Vec::<buffer::Token>::push$'):
                    rs = provenance(b, c.args[1], c.bb, 'term', through=None)
                    tag = '?'
                    for r in rs:
                        if r.kind == 'agg' and r.what in ('buffer::Token::BlockStart', 'buffer::Token::BlockEnd'):
                            inner = provenance(b, r.extra['fields'][0], r.site[0], r.site[1], through=None)
                            kinds = {q.what.split('::')[-1] for q in inner if q.kind == 'agg'} | {str(q.what) for q in inner if q.kind == 'const'}
                            tag = '%s(%s)' % (r.what.split('::')[-1], '|'.join(sorted(map(str, kinds))) or '?')
                        elif r.kind == 'const':
                            tag = 'const token'
                    seq.append(tag)
                elif c.is_(r'Extend<.*>>::extend', r'Vec::<buffer::Token>::(extend_from_slice|append)$', r'String::push_str$', r'^buffer::Doc::(text|emphasis|literal|write_str|write_char)$'):
                    seq.append('content')
                elif c.is_(r'^buffer::Doc::(doc|em_doc)$'):
                    seq.append('embedder')
            core_ = [x for x in seq]
            rows.add(tuple(core_))
        def bracketed(seq):
            if 'content' not in seq:
                return True           # nothing spliced directly (delegated, or nothing to add)
            first = seq.index('content'); last = len(seq) - 1 - seq[::-1].index('content')
            return any(x.startswith('BlockStart(') and 'InlineBlock' in x for x in seq[:first]) and any(x.startswith('BlockEnd(') and 'InlineBlock' in x for x in seq[last + 1:])
        bad = sorted(r for r in rows if not bracketed(list(r)))
        ctx.ob(rule, '%s:spliced-content-inside-InlineBlock' % short(b.path), bool(rows) and not bad,
               '%s: on each of its %d path shapes the spliced content lies between BlockStart(InlineBlock) and BlockEnd(InlineBlock): %s' % (short(b.path), len(rows), 'yes' if not bad else 'NOT on %s' % bad[:2]), where=b.where(), cfg=cfg)

def self_fields_used(fs, body, callee_pats, argpos=0):
    """fields of `self` that reach the given argument position of calls matching the patterns (in the body or its closures)"""
    out = set()
    for b in fs.family(body):
        for c in b.calls():
            if not c.is_(*callee_pats) or len(c.args) <= argpos:
                continue
            for r in provenance(b, c.args[argpos], c.bb, 'term'):
                if r.kind == 'param' and r.what == 'self' and r.path:
                    out.add(r.path[0])
                elif r.kind == 'upvar' and r.what == 'self' and r.path:
                    out.add(r.path[0])
                elif r.kind == 'param' and r.what == 'self':
                    out.add('<self>')
    return out

def eval_meta(ctx, cfg, fs):
    for (ty, ev, me, imp) in parser_impls(fs):
        if ev is None or me is None:
            continue
        ctx.look(ev); ctx.look(me)
        key = re.sub(r'<.*', '', ty).split('::')[-1] if not ty.startswith('std::boxed') else 'Box<dyn Parser>'
        e_par = self_fields_used(fs, ev, [r'Parser<.*>>::eval$', r'^Parser::eval$', r'run_subparser$', r'^structs::parse_option$'])
        m_par = self_fields_used(fs, me, [r'Parser<.*>>::meta$', r'^Parser::meta$'])
        # OptionParser field: meta goes through .inner
        e_names = self_fields_used(fs, ev, [r'take_flag$', r'take_arg$', r'take_cmd$', r'take_positional_word$', r'parse_pos_word$', r'Iterator>?::any\b', r'take_argument$'], 1) | \
            self_fields_used(fs, ev, [r'Iterator>?::any\b', r'take_argument$'], 0)
        m_names = self_fields_used(fs, me, [r'flag_item$', r'ShortLong as std::convert::TryFrom', r'::item$', r'ParsePositional::<T>::meta$'], 0)
        # helper methods on self (self.item(), self.take_argument(), self.meta()) read fields inside them
        for helper_rx, into in ((r'ParseArgument::<T>::take_argument$', e_names), (r'ParseArgument::<T>::item$', m_names), (r'ParseCommand::<T>::item$', m_names), (r'ParsePositional::<T>::meta$', m_names)):
            for b in fs.family(ev if into is e_names else me):
                for c in b.calls():
                    if c.is_(helper_rx):
                        h = fs.one(helper_rx)
                        into |= {p for p in field_reads_of_self(fs, h)}
                        if into is m_names and 'item' in helper_rx and 'Command' in helper_rx:
                            m_par.update(self_fields_used(fs, h, [r'Parser<.*>>::meta$'], 0))
        exc = [k for k in SIB_EXCEPTIONS if ty.startswith(k)]
        if exc:
            ctx.ob('S.eval-meta', '%s:exception' % key, True, '%s: %s' % (ty, SIB_EXCEPTIONS[exc[0]]), where=me.where(), cfg=cfg, nontrivial=False)
            continue
        e_par.discard('<self>'); m_par.discard('<self>')
        if ty.startswith('info::Info'):
            # help/version parsers are built on the fly by mk_*_parser
            e_mk = {k_ for k_, v_ in info_parser_sites(ev).items() if v_}
            m_mk = {k_ for k_, v_ in info_parser_sites(me).items() if v_}
            ctx.ob('S.eval-meta', 'Info:parsers', e_mk == m_mk and len(e_mk) == 2, 'Info::eval looks up %s; Info::meta describes %s' % (sorted(e_mk), sorted(m_mk)), where=me.where(), cfg=cfg)
            continue
        ok = e_par == m_par
        ctx.ob('S.eval-meta', '%s:sub-parsers' % key, ok, '%s: eval runs the sub-parsers in fields %s; meta describes the sub-parsers in fields %s' % (ty, sorted(e_par), sorted(m_par)), where=me.where(), cfg=cfg)
        name_fields = {'named', 'longs', 'shorts', 'metavar'}
        en = e_names & name_fields; mn = m_names & name_fields
        if en or mn:
            ok2 = en <= mn | ({'shorts'} if 'shorts' in mn or ty.startswith('params::ParseCommand') and 'longs' in mn else set())
            ctx.ob('S.eval-meta', '%s:names' % key, ok2, '%s: eval matches names from %s; meta describes names from %s' % (ty, sorted(en), sorted(mn)), where=me.where(), cfg=cfg)

def field_reads_of_self(fs, body):
    out = set()
    for b in fs.family(body):
        for i, k, st in b.stmts():
            if st['k'] != 'assign': continue
            rv = st['rv']
            pls = []
            if rv['k'] in ('ref', 'rawptr', 'discr'): pls.append(rv['place'])
            for kk in ('op',):
                if kk in rv and isinstance(rv[kk], list) and op_place(rv[kk]): pls.append(op_place(rv[kk]))
            for pl in pls:
                if pl[0] == 1 and b.kind != 'closure':
                    fl = place_fields(pl)
                    if fl: out.add(fl[0])
        for c in b.calls():
            for a in c.args:
                pl = op_place(a)
                if pl and pl[0] == 1 and b.kind != 'closure':
                    fl = place_fields(pl)
                    if fl: out.add(fl[0])
    return out

SKIP_OK = {'structs::ParseHide<P>': 'hide', 'structs::ParsePure<T>': 'consumes nothing', 'structs::ParsePureWith<T, F, E>': 'consumes nothing', 'structs::ParseFail<T>': 'consumes nothing',
           'params::ParseFlag<T>': 'only when the flag has neither short nor long name (env-only)', 'params::ParseArgument<T>': 'only when the argument has neither short nor long name (env-only)'}

def skip_census(ctx, cfg, fs):
    for (ty, ev, me, imp) in parser_impls(fs):
        if me is None: continue
        sk = [i for i, k, st in me.stmts() if st['k'] == 'assign' and st['rv']['k'] == 'agg' and st['rv'].get('adt') == 'meta::Meta' and st['rv'].get('variant') == 'Skip']
        if not sk:
            continue
        ok = any(ty.startswith(k) for k in SKIP_OK)
        ctx.ob('K.skip', 'meta-skip:%s' % re.sub(r'<.*', '', ty).split('::')[-1], ok, '%s::meta can return Meta::Skip: %s' % (ty, next((v for k, v in SKIP_OK.items() if ty.startswith(k)), 'NOT a listed case: a consuming parser would be missing from help')), where=me.where(sk[0]), cfg=cfg)
        if ty.startswith('params::ParseFlag') or ty.startswith('params::ParseArgument'):
            # Skip only on the None edge of flag_item()/item()
            calls = [c for c in me.calls() if c.is_(r'flag_item$', r'ParseArgument::<T>::item$')]
            good = False
            for c in calls:
                sw = switch_on_call(me, c)
                if sw is not None and sw.target('None') is not None:
                    good = all(only_via_edge(me, sw.b, sw.target('None'), i) for i in sk)
            ctx.ob('K.skip', 'meta-skip:%s:only-nameless' % re.sub(r'<.*', '', ty).split('::')[-1], good, '%s::meta returns Skip only when no name item can be built: %s' % (ty, good), where=me.where(), cfg=cfg)

def walker_rules(ctx, cfg, fs, rule, table):
    for nm, (pats, exceptions) in table.items():
        b = ctx.look(fs.one(pats[0]))
        cov = walkers.coverage(fs, b, pats)
        for v, want in CHILD_VARIANTS.items():
            got = cov.get(v)
            if v in exceptions:
                w, why = exceptions[v]
                ctx.ob(rule, '%s:%s' % (nm, v), got == w, '%s visits %s of Meta::%s (listed exception: %s, expected %s)' % (nm, got, v, why, w), where=b.where(), cfg=cfg)
            else:
                ok = got == want or (want == 'child' and got == 'all')
                ctx.ob(rule, '%s:%s' % (nm, v), ok, '%s visits %s of Meta::%s (expected %s)' % (nm, got, v, want + (' children' if want == 'all' else '')), where=b.where(), cfg=cfg)
    if 'Meta::normalize' in table:
        nv = fs.one(r'normalize_vec$')
        loop = any(c.is_(r'Iterator>?::next$') for c in nv.calls()) and any(c.is_(r'Meta::normalize$') for c in nv.calls())
        ctx.ob(rule, 'normalize_vec:iterates', loop, 'normalize_vec normalizes every element: %s' % loop, where=nv.where(), cfg=cfg)
    if 'collect_shorts' in table:
        # Strict is built only around positional metas
        sites = []
        for b in fs.bodies.values():
            for i, k, st in b.stmts():
                if st['k'] == 'assign' and st['rv']['k'] == 'agg' and st['rv'].get('adt') == 'meta::Meta' and st['rv'].get('variant') == 'Strict':
                    sites.append(outer(b.path))
        ok = all(fs.listed(x, {'params::ParsePositional::<T>::meta', 'meta::Meta::normalized', 'meta::Meta::normalize::normalize_vec', '<meta::Meta as std::clone::Clone>::clone'}) for x in set(sites))
        ctx.ob(rule, 'Meta::Strict:producers', ok, 'Meta::Strict is built only by %s (around positional items / during usage normalisation)' % sorted(set(sites)), cfg=cfg)
        # collect_shorts feeds flags from Flag items and args from Argument items, descends into commands
        b = fs.one(r'collect_shorts$')
        isw = [s for s in switches(b) if s.kind == 'enum' and s.enum == 'item::Item']
        good = False; detail = ''
        if isw:
            tab = {}
            for v, t in isw[0].edges.items():
                others = {x for x in isw[0].edges.values() if x != t}
                reach = reachable_edges(b, t, avoid=others)
                dest = set()
                for x in reach:
                    c = b.call_at(x)
                    if c and c.is_(r'Extend<.*>>::extend'):
                        for r in provenance(b, c.args[0], c.bb, 'term'):
                            if r.kind == 'param': dest.add(r.what)
                    if c and c.is_(r'collect_shorts$'):
                        dest.add('recurse')
                tab[v] = sorted(dest)
            good = tab.get('Flag') == ['flags'] and tab.get('Argument') == ['args'] and tab.get('Command') == ['recurse'] and not tab.get('Positional') and not tab.get('Any')
            detail = str(tab)
        rec = [c for x in fs.family(b) for c in x.calls() if c.is_(r'collect_shorts$')]
        wired = bool(rec)
        for c in rec:
            a1 = provenance(c.body, c.args[1], c.bb, 'term'); a2 = provenance(c.body, c.args[2], c.bb, 'term')
            wired &= all(r.kind in ('param', 'upvar') and r.what == 'flags' and not r.path for r in a1) and all(r.kind in ('param', 'upvar') and r.what == 'args' and not r.path for r in a2) and bool(a1) and bool(a2)
        ctx.ob(rule, 'collect_shorts:accumulators-passed-straight', wired, 'every recursive call of collect_shorts passes (flags, args) in the same positions (%d calls): %s' % (len(rec), wired), where=b.where(), cfg=cfg)
        ctx.ob(rule, 'collect_shorts:item-table', good, 'collect_shorts: short names of flags feed `flags`, of arguments feed `args`, commands are descended into: %s' % detail, where=b.where(), cfg=cfg)
    if 'append_meta::go' in table:
        b = fs.one(r'append_meta::go$')
        # in the Item arm, HelpItem::from is skipped only for Positional { help: None }
        frm = [c for c in b.calls() if c.is_(r"HelpItem<'a> as std::convert::From<&'a item::Item>>::from$")]
        msw = walkers.meta_switch(b)
        ok = len(frm) == 1 and msw is not None
        if ok:
            t = msw.target('Item')
            none_edges = []
            for sw in switches(b):
                if sw.kind == 'enum' and sw.enum and 'Option' in sw.enum and sw.target('None') is not None:
                    rs = provenance(b, sw.place, sw.discr_site[0], sw.discr_site[1])
                    if rs and all(r.path[-2:] == ['as Positional', 'help'] for r in rs):
                        none_edges.append((sw.b, sw.target('None')))
            from absint import Walker
            P = {b.name_of(i): i for i in range(1, b.arg_count + 1)}
            w = Walker(b, variant_of={(P.get('meta', 2), ()): 'Item'}, call_model=lambda w, c, st: ('callres', c.name, c.bb))
            paths = [p_ for p_ in w.run() if p_.end == 'return']
            none_blocks = {sb for (sb, tb) in none_edges}
            bad = [p_ for p_ in paths if not p_.called(r"HelpItem<'a> as std::convert::From") and not any(fb in none_blocks and out == 'None' for (fb, out) in p_.forks)]
            ok = bool(none_edges) and bool(paths) and not bad
        ctx.ob(rule, 'append_meta::go:only-helpless-positional-dropped', ok, 'append_meta converts every item to a help item except a positional without help: %s' % ok, where=b.where(), cfg=cfg)

def variant_field_reads(body, enum_path):
    """variant -> set of fields of that variant read in the body"""
    out = {}
    def scan(pl):
        proj = pl[1]
        for i, pr in enumerate(proj):
            if pr[0] == 'dc' and i + 1 < len(proj) and proj[i + 1][0] == 'f' and proj[i + 1][4].startswith(enum_path):
                out.setdefault(pr[1], set()).add(proj[i + 1][2])
    for i, k, st in body.stmts():
        if st['k'] != 'assign': continue
        rv = st['rv']
        if rv['k'] in ('ref', 'rawptr', 'discr'): scan(rv['place'])
        for kk in ('op', 'a', 'b'):
            if kk in rv and isinstance(rv[kk], list) and op_place(rv[kk]): scan(op_place(rv[kk]))
        for f in rv.get('fields', []):
            if op_place(f): scan(op_place(f))
    for c in body.calls():
        for a in c.args:
            if op_place(a): scan(op_place(a))
    return out

def dedup(ctx, cfg, fs):
    d = ctx.look(fs.one(r'^meta_help::Dedup::check$'))
    w = ctx.look(fs.one(r'^meta_help::write_help_item$'))
    dr = variant_field_reads(d, 'meta_help::HelpItem'); wr = variant_field_reads(w, 'meta_help::HelpItem')
    for v in ('Flag', 'Argument', 'Command', 'Positional', 'Any'):
        shown = wr.get(v, set()) - {'env', 'short', 'info', 'meta', 'anywhere'}
        keyed = dr.get(v, set())
        ctx.ob('D.dedup', 'Dedup::check:%s' % v, shown <= keyed and bool(shown), 'HelpItem::%s: the help line shows %s; the de-duplication key uses %s (two different lines must never be merged)' % (v, sorted(shown), sorted(keyed)), where=d.where(), cfg=cfg)
    # distinct key formats for flags and arguments
    from dataflow import fmt_sites
    texts = {}
    sw = [s for s in switches(d) if s.kind == 'enum' and s.enum == 'meta_help::HelpItem']
    if sw:
        for s_ in fmt_sites(d):
            for v, t in sw[0].edges.items():
                others = {x for x in sw[0].edges.values() if x != t}
                if s_.bb in reachable_edges(d, t, avoid=others) and len([1 for vv, tt in sw[0].edges.items() if tt == t]) == 1:
                    texts[v] = s_.text()
    ok = texts.get('Flag') is not None and texts.get('Argument') is not None and texts.get('Flag') != texts.get('Argument')
    ctx.ob('D.dedup', 'Dedup::check:flag-vs-argument', ok, 'a flag and an argument with the same name get different keys (templates %r vs %r)' % (texts.get('Flag'), texts.get('Argument')), where=d.where(), cfg=cfg)

def item_copy(ctx, cfg, fs):
    b = ctx.look(fs.one(r"^<meta_help::HelpItem<'a> as std::convert::From<&'a item::Item>>::from$"))
    for i, k, st in b.stmts():
        if st['k'] == 'assign' and st['rv']['k'] == 'agg' and st['rv'].get('adt') == 'meta_help::HelpItem':
            v = st['rv']['variant']; names = st['rv']['field_names']
            good = True; desc = []
            for fn, f in zip(names, st['rv']['fields']):
                rs = provenance(b, f, i, k, through=DEFAULT_THROUGH)
                src = sorted({'.'.join(r.path) for r in rs if r.kind == 'param'})
                desc.append('%s<-%s' % (fn, src))
                good &= bool(rs) and all(r.kind == 'param' and r.path[:2] == ['as ' + v, fn] for r in rs)
            ctx.ob('H.item-copy', 'HelpItem::from:%s' % v, good, 'HelpItem::%s is filled field by field from Item::%s: %s' % (v, v, desc), where=b.where(i), cfg=cfg)

def names(ctx, cfg, fs):
    b = ctx.look(fs.one(r'ShortLong as std::convert::TryFrom<&params::NamedArg>>::try_from$'))
    idx = [c for c in b.calls() if c.is_(r'as std::ops::Index<usize>>::index$')]
    good = bool(idx)
    for c in idx:
        rs = provenance(b, c.args[0], c.bb, 'term'); ix = provenance(b, c.args[1], c.bb, 'term')
        good &= all(r.kind == 'param' and r.path[-1] in ('short', 'long') for r in rs) and all(r.kind == 'const' and r.what == 0 for r in ix)
    ctx.ob('N.names', 'ShortLong::try_from:first-names', good, 'the name shown in help is short[0] / long[0] of the NamedArg (%d reads)' % len(idx), where=b.where(), cfg=cfg)
    m = ctx.look(fs.one(r'^params::NamedArg::matches_arg$'))
    cont = [c for c in m.calls() if c.is_(r'slice::<impl \[T\]>::contains')]
    srcs = set()
    for c in cont:
        for r in provenance(m, c.args[0], c.bb, 'term'):
            if r.kind == 'param': srcs.add(r.path[-1] if r.path else r.what)
    ctx.ob('N.names', 'matches_arg:searches-same-vectors', srcs == {'short', 'long'}, 'matches_arg searches %s - the vectors the displayed names are taken from' % sorted(srcs), where=m.where(), cfg=cfg)

def order(ctx, cfg, fs):
    b = ctx.look(fs.one(r'^meta_help::render_help$'))
    marks = {}
    for c in b.calls():
        if c.is_(r'^buffer::Doc::doc$'):
            for r in provenance(b, c.args[1], c.bb, 'term'):
                if r.kind == 'param' and r.what == 'info' and r.path:
                    marks.setdefault(r.path[0], c.bb)
        if c.is_(r'write_meta$'):
            marks.setdefault('usage-line', c.bb)
        if c.is_(r'write_help_item_groups$'):
            marks.setdefault('items', c.bb)
    am = [c for c in b.calls() if c.is_(r'append_meta$')]
    srcs = []
    for c in sorted(am, key=lambda c: (0 if all(b.dominates(c.bb, o.bb) for o in am) else 1)):
        rs = provenance(b, c.args[1], c.bb, 'term')
        srcs.append(sorted({r.what for r in rs if r.kind == 'param'}))
    seq = ['descr', 'usage', 'header', 'items', 'footer']
    ok = all(s in marks for s in seq)
    ctx.ob('O.order', 'render_help:parts-present', ok, 'render_help writes %s' % sorted(marks), where=b.where(), cfg=cfg)
    def before(x, y):
        # every path from entry to y that also passes x has x first: y does not reach x
        return not b.reaches(marks[y], [marks[x]]) and b.reaches(marks[x], [marks[y]])
    if ok:
        for x, y in zip(seq, seq[1:]):
            ctx.ob('O.order', 'render_help:%s-before-%s' % (x, y), before(x, y), 'render_help writes %s before %s' % (x, y), where=b.where(marks[x]), cfg=cfg)
        ctx.ob('O.order', 'render_help:usage-line-with-usage', 'usage-line' in marks and before('descr', 'usage-line') and before('usage-line', 'header'), 'the generated usage line sits between description and header', where=b.where(), cfg=cfg)
    ctx.ob('O.order', 'render_help:items-from-parser-then-help', srcs == [['parser_meta'], ['help_meta']], 'item lists are built from %s' % srcs, where=b.where(), cfg=cfg)
