"""C07 - alternatives are exclusive and chosen by what the user typed (structural clauses).

Decides:
 F fork isolation   ParseOrElse::eval evaluates `this` and `that` exactly once each, on two distinct clones of the
                    caller's state, never on the caller's state.  Every return of ParseOrElse::eval passes this_or_that_picks_first, which is
                    called after BOTH alternatives ran (no early verdict on one alternative's error).
 T adopt-one table  decision table of this_or_that_picks_first over (depth order) x (err_a) x (err_b) x
                    (nothing-consumed tie) x (pick_winner): which fork is swapped into the caller's state, what is
                    returned, and that save_conflicts(winner <- loser) runs when both succeeded on different items.
                    Ties go to the first alternative; the deeper (subcommand) fork has priority, success or failure.
 S selection        the boolean returned selects res_a (true) / res_b (false) in ParseOrElse::eval.
 W pick_winner      scans both ledgers forward (no reversing adaptor) and reports the side that parsed the first
                    index where exactly one side parsed.
 I item state       ItemState tables: conflict-marked items stay present; only the listed functions inspect ItemState.
 C conflicts        Message::render(Unconsumed) consults check_conflicts before anything else.
 E env-backed flag   a flag alternative that is satisfied by its environment variable still looks for (and consumes) its
                    own occurrence on the line first: otherwise the typed flag is left for nobody and the choice is
                    decided by the environment instead of by what the user typed (shared with C18).
 O order            construct!([a, b, c]) expands to a left-nested or_else chain in listed order (witness).
 R scope restore   an adjacent command hands back the scope it was entered with (or its own `name..end`), so the items to the right of
                    its block stay visible to the next round of `many` (shared with C05: values of a repeated choice follow the line).
 F forkers         only the listed functions clone the State: hide() and friends evaluate on the state they were given, so the state a failed deeper
                    branch leaves behind (its depth) is what this_or_that_picks_first compares.
 T depth only grows  State.path is pushed by ParseCommand::eval and never popped: the depth this_or_that_picks_first compares survives the return of an
                    (adjacent) command (shared with C08).
 L leftmost        every named consumer / positional claims the LEFTMOST unconsumed match of its whole name set in one position-major search (shared with C01):
                    name-major lookups make `--a -b` and `-b --a` pick different first items, which is what many() and the leftmost-wins rule order by.
 R registry        collect_shorts descends through every wrapper (Subsection, Decorated, ..), so the short names of every alternative are tokenized
                    the same way however the alternative is wrapped (shared with C02).
 O name once      the spellings of a command are tried until the first one matches and not further (shared with C08); adjacent_scope scans the scope
                    from its first item (shared with C19).
Does not decide: ordering of values collected under many/some."""
import re
from core import *
from dataflow import *
from cfgq import *
from absint import *
from parsers import *
import consumers, scopes, shapes

LEVEL = 'other'
EXPLANATION = __doc__
ASSUMPTIONS = ['Ord::cmp on usize and Option::is_none behave as documented']
FLOORS = {'F.fork': 4, 'T.adopt-one': 14, 'S.selection': 1, 'W.pick_winner': 3, 'I.itemstate': 10, 'C.conflicts': 2, 'O.order': 2, 'E.env-flag': 2, 'L.leftmost': 22, 'R.registry': 13}

def run(ctx):
    cfgs = ['none', 'all'] if ctx.tier == 'quick' else ['none', 'all', 'ac', 'doc']
    ctx.preload(cfgs)
    for cfg in cfgs:
        fs = ctx.facts(cfg)
        ctx.guard(fork, ctx, cfg, fs)
        ctx.guard(table, ctx, cfg, fs)
        ctx.guard(pick_winner, ctx, cfg, fs)
        ctx.guard(ledger_only, ctx, cfg, fs, 'W.pick_winner')
        ctx.guard(consumers.itemstate, ctx, cfg, fs, 'I.itemstate')
        ctx.guard(conflicts, ctx, cfg, fs)
        import c08, c18, c05
        ctx.guard(consumers.forkers, ctx, cfg, fs, 'F.fork')
        # a command name is consumed once: the item after it is never compared with the remaining aliases (shared with C08)
        ctx.guard(c08.first_name_only, ctx, cfg, fs, 'O.order')
        import c19
        # chained adjacent commands inside a repeated choice: the retry window of a command that took nothing is the empty window at
        # its start, found by scanning the scope from its first item (shared with C19)
        ctx.guard(c08.keep_only, ctx, lambda: c19.adjacent_scope(ctx, cfg, fs), lambda o: 'first-foreign-item' in o.key or 'window-starts' in o.key, 'O.order')
        import c12
        # "values follow command-line order" / "leftmost wins" rest on every named consumer claiming the LEFTMOST unconsumed match
        ctx.guard(c08.keep_only, ctx, lambda: consumers.consumers(ctx, cfg, fs, 'L.leftmost'), lambda o: True, 'L.leftmost')
        # ... and on the short-name registry seeing every alternative, however it is wrapped (group_help, docs on a derived enum)
        ctx.guard(c12.walker_rules, ctx, cfg, fs, 'R.registry', {'collect_shorts': c12.WALKERS['collect_shorts']})
        ctx.guard(c08.keep_only, ctx, lambda: c08.matched(ctx, cfg, fs), lambda o: 'State.path:only-pushed' in o.key, 'T.adopt-one')
        ctx.guard(c08.keep_only, ctx, lambda: c05.scope_restore(ctx, cfg, fs), lambda o: 'adjacent-ok-scope' in o.key, 'R.scope-restore')
        ctx.guard(c08.keep_only, ctx, lambda: c18.flag(ctx, cfg, fs), lambda o: 'take_flag-unconditional' in o.key or 'env-only-when-absent' in o.key, 'E.env-flag')
    wfs = load_witness('shapes')
    n = 0
    before = len(ctx.obs)
    ctx.guard(shapes.construct_shapes, ctx, '_skip', wfs)
    # keep only the or_else chain obligations of the witness
    keep = []
    for o in ctx.obs[before:]:
        if o.key.endswith(':or_else-chain'):
            o.rule = 'O.order'; keep.append(o)
    ctx.obs = ctx.obs[:before] + keep

def fork(ctx, cfg, fs):
    b = ctx.look(fs.one(r'^<structs::ParseOrElse<T> as Parser<T>>::eval$'))
    evals = [c for c in result_calls(b) if c.is_(r'Parser<T> for std::boxed::Box', r'as Parser<.*>>::eval$')]
    who = {}
    for c in evals:
        rs = provenance(b, c.args[0], c.bb, 'term')
        fld = sorted({r.path[0] for r in rs if r.kind == 'param' and r.path})
        sid = scopes.state_id(b, c.args[1], c.bb)
        who.setdefault('|'.join(fld), []).append(sid)
    ok = set(who) == {'this', 'that'} and all(len(v) == 1 for v in who.values())
    ctx.ob('F.fork', 'ParseOrElse::eval:each-once', ok, 'ParseOrElse::eval evaluates %s' % {k: len(v) for k, v in who.items()}, where=b.where(), cfg=cfg)
    ids = [v[0] for v in who.values() if v]
    distinct = len(ids) == 2 and ids[0] != ids[1] and all(isinstance(i, tuple) for i in ids)
    ctx.ob('F.fork', 'ParseOrElse::eval:distinct-forks', distinct, 'the two alternatives run on distinct local states %s (never on the caller\'s state)' % [b.name_of(i[1]) if isinstance(i, tuple) else i for i in ids], where=b.where(), cfg=cfg)
    clones = True
    for i in ids:
        if isinstance(i, tuple):
            cl = [c for c in b.calls() if c.is_(r'^<args::inner::State as std::clone::Clone>::clone$') and c.dest == [i[1], []]]
            clones &= len(cl) == 1 and isinstance(scopes.state_id(b, cl[0].args[0], cl[0].bb), str) and all(b.dominates(cl[0].bb, e.bb) for e in evals)
        else:
            clones = False
    ctx.ob('F.fork', 'ParseOrElse::eval:forks-are-clones', clones, 'both forks are clones of the caller\'s state taken before either alternative runs: %s' % clones, where=b.where(), cfg=cfg)
    # no swap into args here (adoption is done by this_or_that_picks_first only)
    sw = [c for c in b.calls() if c.is_(r'^std::mem::swap::<args::inner::State>$')]
    ctx.ob('F.fork', 'ParseOrElse::eval:no-direct-adoption', not sw, 'ParseOrElse::eval itself adopts no fork (%d swaps); this_or_that_picks_first decides' % len(sw), where=b.where(), cfg=cfg)
    # selection: true -> res_a, false -> res_b
    pf = [c for c in b.calls() if c.is_(r'^structs::this_or_that_picks_first$')]
    # .. and this_or_that_picks_first decides EVERY outcome: no return of ParseOrElse::eval is reachable without passing its call, and both
    # alternatives have been evaluated when it is called (an early return on one alternative's error never looks at what the user typed for the other)
    if pf:
        pfb = {c.bb for c in pf}
        early = sorted(r for r in b.return_blocks() if r in reachable_edges(b, 0, avoid=pfb))
        both = all(b.dominates(e.bb, c.bb) for e in evals for c in pf)
        ctx.ob('F.fork', 'ParseOrElse::eval:both-before-decision', both and not early,
               'every return of ParseOrElse::eval passes this_or_that_picks_first with both alternatives evaluated' if both and not early else
               'ParseOrElse::eval can return without consulting this_or_that_picks_first (%d early return(s)) or decides before both alternatives ran' % len(early),
               where=b.where(early[0]) if early else b.where(), cfg=cfg)
    ok = False; detail = ''
    if len(pf) == 1:
        # the bool comes from Try::branch(Continue)
        for sw_ in switches(b):
            if sw_.kind == 'bool' and any(r.kind == 'call' and r.call.is_(r'Try>::branch$') and r.path == ['as Continue', '0'] for r in sw_.roots):
                def eval_sources(op, bb, ix, depth=0):
                    out = set()
                    for r in provenance(b, op, bb, ix, through=None):
                        if r.kind == 'agg' and depth < 4:
                            for f in r.extra['fields']:
                                out |= eval_sources(f, r.site[0], r.site[1], depth + 1)
                        elif r.kind == 'call' and r.call.is_(r'Parser<.*>>?::eval$|::eval$'):
                            for f_ in provenance(b, r.call.args[0], r.call.bb, 'term'):
                                if f_.path: out.add(f_.path[0])
                        elif r.kind == 'call' and depth < 4:
                            # a helper reshaping the Result (e.g. into (Option<T>, Option<Error>)): follow what it was given
                            for a_ in r.call.args:
                                out |= eval_sources(a_, r.call.bb, 'term', depth + 1)
                    return out
                def first_unwrap(t):
                    seen = set(); st = [t]
                    while st:
                        x = st.pop()
                        if x in seen: continue
                        seen.add(x)
                        c = b.call_at(x)
                        if c and c.is_(r'Option::<.*>::unwrap$'):
                            return eval_sources(c.args[0], c.bb, 'term')
                        st += b.succ(x)
                    return set()
                ta = first_unwrap(sw_.target(True)); tb = first_unwrap(sw_.target(False))
                ok = ta == {'this'} and tb == {'that'}
                detail = 'true -> %s, false -> %s' % (sorted(ta), sorted(tb))
    ctx.ob('S.selection', 'ParseOrElse::eval:bool-selects-result', ok, 'the boolean returned by this_or_that_picks_first selects the value: %s' % detail, where=b.where(), cfg=cfg)
    # arguments: (err_a, err_b, args, args_a, args_b) wired to the right forks
    if len(pf) == 1:
        c = pf[0]
        a3 = scopes.state_id(b, c.args[3], c.bb); a4 = scopes.state_id(b, c.args[4], c.bb); a2 = scopes.state_id(b, c.args[2], c.bb)
        ta = who.get('this', [None])[0]; tb = who.get('that', [None])[0]
        ctx.ob('F.fork', 'ParseOrElse::eval:wiring', isinstance(a2, str) and a3 == ta and a4 == tb,
               'this_or_that_picks_first receives (caller state, fork of `this`, fork of `that`): %s' % ((a2, a3, a4),), where=c.where(), cfg=cfg)

def table(ctx, cfg, fs):
    b = ctx.look(fs.one(r'^structs::this_or_that_picks_first$'))
    P = {b.name_of(i): i for i in range(1, b.arg_count + 1)}
    for need in ('err_a', 'err_b', 'args', 'args_a', 'args_b'):
        if need not in P:
            raise Broken('this_or_that_picks_first: parameter %s not found' % need)
    rows = []
    for depth in ('Less', 'Equal', 'Greater'):
        for ea in (False, True):
            for eb in (False, True):
                if depth == 'Equal' and not ea and not eb:
                    rows.append(dict(depth=depth, ea=ea, eb=eb, tie=True, win=None))
                    for w in (True, False):
                        rows.append(dict(depth=depth, ea=ea, eb=eb, tie=False, win=w))
                else:
                    rows.append(dict(depth=depth, ea=ea, eb=eb, tie=None, win=None))
    for row in rows:
        def optv(e): return ('agg', 'std::option::Option', 'Some' if e else 'None', [('err',)] if e else [])
        store = {P['err_a']: optv(row['ea']), P['err_b']: optv(row['eb'])}
        def cm(w, c, st, row=row):
            if c.is_(r'Ord>?::cmp$', r'impl std::cmp::Ord for usize>::cmp$'):
                return ('agg', 'std::cmp::Ordering', row['depth'], [])
            if c.is_(r'Option::<.*>::is_none$'):
                v = w.opval(['cp', [op_place(c.args[0])[0], []]], st) if op_place(c.args[0]) else UNKNOWN
                rs = provenance(b, c.args[0], c.bb, 'term', through=None)
                # which error option is inspected
                for r in rs:
                    if r.kind == 'param' and r.what == 'err_a': return ('c', not row['ea'])
                    if r.kind == 'param' and r.what == 'err_b': return ('c', not row['eb'])
                return None
            if c.is_(r'State::pick_winner$'):
                a0 = scopes.state_id(b, c.args[0], c.bb)
                win = row['win'] if a0 == 'args_a' else (not row['win'])
                return ('agg', 'tuple', None, [('c', win), ('agg', 'std::option::Option', 'Some', [('ix',)])])
            if c.is_(r'State::comp_mut$', r'State::comp_ref$'):
                return ('agg', 'std::option::Option', 'None', [])
            return ('callres', c.name, c.bb)
        def atom(w, sw, st, row=row):
            if sw.kind == 'bool':
                for r in sw.roots:
                    if r.kind == 'bin' and r.extra['op'] in ('Eq', 'Ne'):
                        a = provenance(b, r.extra['a'], r.site[0], r.site[1]); b_ = provenance(b, r.extra['b'], r.site[0], r.site[1])
                        if all(x.kind == 'call' and x.call.is_(r'State::len$') for x in a + b_) and a and b_:
                            ids = {scopes.state_id(b, x.call.args[0], x.call.bb) for x in a + b_}
                            if 'args' in ids and row['tie'] is not None:
                                return row['tie'] if r.extra['op'] == 'Eq' else not row['tie']
            return None
        w = Walker(b, atom=atom, call_model=cm, max_paths=3000)
        paths = [p for p in w.run(0, store) if p.end == 'return']
        outs = set()
        for p in paths:
            adopted = []
            for (bb_, c) in p.calls:
                if c.is_(r'^std::mem::swap::<args::inner::State>$'):
                    ids = [scopes.state_id(b, a, c.bb) for a in c.args]
                    if 'args' in ids:
                        adopted += [i for i in ids if i != 'args']
            confl = []
            for (bb_, c) in p.calls:
                if c.is_(r'State::save_conflicts$'):
                    confl.append('%s<-%s' % (scopes.state_id(b, c.args[0], c.bb), scopes.state_id(b, c.args[1], c.bb)))
            v = p.ret
            if v is not UNKNOWN and v[0] == 'agg' and v[2] == 'Ok':
                r = 'Ok(%s)' % show(v[3][0])
            elif v is not UNKNOWN and v[0] == 'agg' and v[2] == 'Err':
                r = 'Err'
            else:
                rs = p.ret
                r = show(v)
            outs.add((r, tuple(adopted), tuple(confl)))
        d, ea, eb = row['depth'], row['ea'], row['eb']
        if d == 'Less':
            want = {('Err' if eb else 'Ok(False)', ('args_b',), ())}
        elif d == 'Greater':
            want = {('Err' if ea else 'Ok(True)', ('args_a',), ())}
        else:
            if ea and eb: want = {('Err', (), ())}
            elif not ea and eb: want = {('Ok(True)', ('args_a',), ())}
            elif ea and not eb: want = {('Ok(False)', ('args_b',), ())}
            elif row['tie']: want = {('Ok(True)', ('args_a',), ())}
            elif row['win']: want = {('Ok(True)', ('args_a',), ('args_a<-args_b',))}
            else: want = {('Ok(False)', ('args_b',), ('args_b<-args_a',))}
        # `res?` at the end yields Ok(payload.0): accept unknown-bool rendering of the same decision
        def norm(o):
            r, ad, cf = o
            return (r, ad, cf)
        key = 'depth=%s:a=%s:b=%s%s' % (d, 'Err' if ea else 'Ok', 'Err' if eb else 'Ok',
                                        '' if row['tie'] is None else (':tie' if row['tie'] else ':winner=%s' % ('a' if row['win'] else 'b')))
        ctx.ob('T.adopt-one', 'picks_first:%s' % key, {norm(o) for o in outs} == want,
               'this_or_that_picks_first[%s] -> %s (expected %s) [result, fork adopted into the caller\'s state, conflicts saved]' % (key, sorted(outs), sorted(want)),
               where=b.where(), cfg=cfg)

def pick_winner(ctx, cfg, fs):
    b = ctx.look(fs.body('args::inner::State::pick_winner'))
    names = [c.name for c in b.calls()]
    rev = [n for n in names if re.search(r'Iterator>?::(rev|rfind|rposition|last|max|min|nth|skip|step_by)', n) or 'DoubleEnded' in n]
    fwd = any(re.search(r'Iterator>?::(zip|enumerate)', n) for n in names)
    ctx.ob('W.pick_winner', 'pick_winner:forward-scan', fwd and not rev, 'pick_winner walks both ledgers front to back (zip+enumerate, no reversing/skipping adaptor): %s' % (rev or 'ok'), where=b.where(), cfg=cfg)
    # the first-mismatch test (in the loop body or in the predicate closure of find/position) and what is reported
    fam = fs.family(b)
    xor_found = False
    for x in fam:
        for i, k, st in x.stmts():
            if st['k'] == 'assign' and st['rv']['k'] == 'bin' and st['rv']['op'] in ('BitXor', 'Ne'):
                a = provenance(x, st['rv']['a'], i, k, through=None); c_ = provenance(x, st['rv']['b'], i, k, through=None)
                if a and c_ and all(q.kind == 'call' and q.call.is_(r'ItemState::parsed$') for q in a + c_):
                    xor_found = True
    ctx.ob('W.pick_winner', 'pick_winner:first-mismatch-test', xor_found, 'pick_winner looks for the first index where exactly one side parsed (me.parsed() ^ other.parsed()): %s' % xor_found, where=b.where(), cfg=cfg)
    # zip(self.item_state, other.item_state): the first component of each pair is this side
    zips = [c for c in b.calls() if c.is_(r'Iterator>?::zip')]
    order_ok = False
    for c in zips:
        a0 = provenance(b, c.args[0], c.bb, 'term', through=DEFAULT_THROUGH + [r'slice::<impl \[T\]>::iter$']); a1 = provenance(b, c.args[1], c.bb, 'term', through=DEFAULT_THROUGH + [r'slice::<impl \[T\]>::iter$'])
        order_ok = all(q.kind == 'param' and q.what == 'self' for q in a0) and all(q.kind == 'param' and q.what == 'other' for q in a1) and bool(a0) and bool(a1)
    good = False
    # the answer is built in the loop body, or in the closure handed to map / map_or after a find
    for x in fam:
      for i, k, st in x.stmts():
        if st['k'] == 'assign' and st['lhs'] == [0, []] and st['rv']['k'] == 'agg' and st['rv']['agg'] == 'tuple' and x.local_ty(0) == b.local_ty(0):
            f0 = provenance(x, st['rv']['fields'][0], i, k, through=None)
            if f0 and all(r.kind == 'call' and r.call.is_(r'ItemState::parsed$') for r in f0):
                who = set()
                for r in f0:
                    for q in provenance(x, r.call.args[0], r.call.bb, 'term'):
                        who.add(tuple(q.path[-2:]))
                # pair = (index, (mine, theirs)): the state reported is component .1.0
                good = who == {('1', '0')}
    ctx.ob('W.pick_winner', 'pick_winner:reports-own-side', good and order_ok, 'on a mismatch pick_winner returns whether THIS side (first component of zip(self, other)) parsed the item, so the side that consumed the leftmost item wins: %s' % (good and order_ok), where=b.where(), cfg=cfg)

def state_fields_read(fs, body):
    out = set()
    for x in fs.family(body):
        for i, k, st in x.stmts():
            if st['k'] != 'assign': continue
            rv = st['rv']
            pls = []
            if rv['k'] in ('ref', 'rawptr', 'discr'): pls.append(rv['place'])
            for kk in ('op', 'a', 'b'):
                if kk in rv and isinstance(rv[kk], list) and op_place(rv[kk]): pls.append(op_place(rv[kk]))
            for f in rv.get('fields', []):
                if op_place(f): pls.append(op_place(f))
            for pl in pls:
                for (fn, pt) in consumers.field_accesses(pl):
                    if pt == consumers.STATE: out.add(fn)
        for c in x.calls():
            for a in c.args:
                if op_place(a):
                    for (fn, pt) in consumers.field_accesses(op_place(a)):
                        if pt == consumers.STATE: out.add(fn)
            if c.is_(r'^args::inner::State::') :
                out.add('call:' + c.name.split('::')[-1])
    return out

def ledger_only(ctx, cfg, fs, rule):
    b = ctx.look(fs.body('args::inner::State::pick_winner'))
    rd = state_fields_read(fs, b)
    ctx.ob(rule, 'pick_winner:reads-ledger-only', rd == {'item_state'},
           'pick_winner decides from %s of the two forks (must be the consumption ledger only: no recorded position, scope or path may bias which alternative wins)' % sorted(rd), where=b.where(), cfg=cfg)

def pred_conditions(x):
    """the calls that must ALL have returned true for the bool-valued closure x to return true (`a() && b()`), or None
    when the closure is not such a conjunction"""
    true_sites = []
    for i, k, st in x.stmts():
        if st['k'] == 'assign' and st['lhs'] == [0, []]:
            c = op_const(st['rv'].get('op', ['?'])) if st['rv']['k'] == 'use' else None
            if c is not None and c.get('v') is False:
                continue
            if c is not None and c.get('v') is True:
                true_sites.append((i, None)); continue
            return None
    for c in x.calls():
        if c.dest == [0, []]:
            true_sites.append((c.bb, c))
    if len(true_sites) != 1:
        return None
    (i, last) = true_sites[0]
    out = [last] if last is not None else []
    for (a, s_) in x.transitive_control_deps(i):
        sw = Switch(x, a)
        if sw.kind != 'bool' or s_ != sw.target(True) or not sw.roots or not all(r.kind == 'call' and not r.path for r in sw.roots):
            return None
        out += [r.call for r in sw.roots]
    return out

def filtered_for_each(fs, b, x):
    """when closure x is the argument of `for_each` in b and the receiver is `filter(pred)`: [(filter call, pred body)]"""
    out = []
    for fe in b.calls():
        if not fe.is_(r'Iterator>?::for_each$') or len(fe.args) < 2:
            continue
        if not any(r.kind == 'agg' and r.extra.get('closure') == x.path for r in provenance(b, fe.args[1], fe.bb, 'term', through=None)):
            continue
        for r in provenance(b, fe.args[0], fe.bb, 'term', through=None):
            if r.kind == 'call' and r.call.is_(r'Iterator>?::filter$'):
                for q in provenance(b, r.call.args[1], r.call.bb, 'term', through=None):
                    if q.kind == 'agg' and q.extra.get('closure'):
                        pred = fs.bodies.get(q.extra['closure']) if hasattr(fs, 'bodies') else None
                        if pred is not None:
                            out.append((r.call, pred))
    return out

def save_conflicts(ctx, cfg, fs):
    """the winner marks as Conflict exactly the items that are still PRESENT in it and were PARSED by the loser, over the
    whole ledger: an item that was already consumed before the choice (parsed in both forks) must stay consumed, and no
    position is skipped"""
    b = ctx.look(fs.one(r'^args::inner::State::save_conflicts$'))
    fam = fs.family(b)
    marks = [(x, i, k, st) for x in fam for i, k, st in x.stmts() if st['k'] == 'assign' and st['rv']['k'] == 'agg' and st['rv'].get('variant') == 'Conflict' and st['rv'].get('adt', '').endswith('ItemState')]
    ok = bool(marks); why = []; accounted = set()
    NOZIP_ = DEFAULT_THROUGH + [r'Iterator>?::(next|enumerate)$', r'slice::<impl \[T\]>::(iter|iter_mut)$', r'IntoIterator>?::into_iter$']
    ITERS = DEFAULT_THROUGH + [r'Iterator>?::(next|zip|enumerate)$', r'slice::<impl \[T\]>::(iter|iter_mut)$', r'IntoIterator>?::into_iter$']
    for (x, i, k, st) in marks:
        conds = {}
        for (a, s_) in x.transitive_control_deps(i):
            sw = Switch(x, a)
            if sw.kind != 'bool' or s_ != sw.target(True):
                continue
            for r in sw.roots:
                if r.kind == 'call' and r.call.is_(r'^args::ItemState::(present|parsed)$'):
                    side = set()
                    NOZIP = [t_ for t_ in ITERS if 'zip' not in t_] + [r'Iterator>?::(next|enumerate)$']
                    for q in provenance(x, r.call.args[0], r.call.bb, 'term', through=NOZIP):
                        if q.kind in ('param', 'upvar'):
                            side.add(q.what)
                        elif q.kind == 'call' and q.call.is_(r'Iterator>?::zip$'):
                            # element of a zip: the component index says which of the two iterators it came from
                            comp = [p_ for p_ in q.path if p_ in ('0', '1')]
                            ix_ = int(comp[-1]) if comp else 0
                            for z in provenance(x, q.call.args[ix_], q.call.bb, 'term', through=NOZIP):
                                if z.kind in ('param', 'upvar'): side.add(z.what)
                    conds.setdefault(r.call.name.split('::')[-1], set()).update(side)
        # iterator form: `zip(..).filter(pred).for_each(mark)` - the predicate of the filter is the guard of the mark
        for (fc, pred) in filtered_for_each(fs, b, x):
            pc = pred_conditions(pred)
            if pc is None:
                conds.setdefault('unreadable filter predicate', set()).add('?')
                continue
            accounted.add(fc.bb)
            for c_ in pc:
                side = set()
                if not c_.is_(r'^args::ItemState::(present|parsed)$'):
                    conds.setdefault('other:' + c_.name.split('::')[-1], set()).add('?')
                    continue
                for q in provenance(pred, c_.args[0], c_.bb, 'term', through=DEFAULT_THROUGH):
                    comp = [p_ for p_ in q.path if p_ in ('0', '1')]
                    if q.kind == 'param' and comp:
                        for zc in [z_ for z_ in provenance(b, fc.args[0], fc.bb, 'term', through=None) if z_.kind == 'call' and z_.call.is_(r'Iterator>?::zip$')]:
                            for z in provenance(b, zc.call.args[int(comp[-1])], zc.call.bb, 'term', through=NOZIP_):
                                if z.kind in ('param', 'upvar'): side.add(z.what)
                conds.setdefault(c_.name.split('::')[-1], set()).update(side)
        good = conds.get('present') == {'self'} and conds.get('parsed') == {'loser'} and set(conds) == {'present', 'parsed'}
        ok &= good
        why.append('guarded by %s' % {k_: sorted(v_) for k_, v_ in conds.items()})
    skips = [c.name.split('::')[-1] for x in fam for c in x.calls() if c.is_(r'Iterator>?::(skip|skip_while|take|take_while|step_by|rev|filter)$')
             and not (x is b and c.bb in accounted)]
    ctx.ob('C.conflicts', 'save_conflicts:present-in-winner-and-parsed-by-loser', ok and not skips,
           'save_conflicts marks an item as Conflict only when it is present in the winner and parsed by the loser (%s), visiting every position (adaptors: %s)' % ('; '.join(why) or 'no Conflict mark found', skips or 'none'), where=b.where(), cfg=cfg)

def conflicts(ctx, cfg, fs):
    save_conflicts(ctx, cfg, fs)
    b = ctx.look(fs.one(r'^error::Message::render$'))
    cc = [c for c in b.calls() if c.is_(r'^error::check_conflicts$')]
    oo = [c for c in b.calls() if c.is_(r'^error::only_once$', r'^meta_youmean::suggest$')]
    ok = len(cc) == 1 and bool(oo) and all(b.dominates(cc[0].bb, o.bb) for o in oo)
    ctx.ob('C.conflicts', 'render:conflict-first', ok, 'Message::render(Unconsumed) asks check_conflicts before only_once / suggestions: %s' % ok, where=b.where(), cfg=cfg)
