"""C09 - `--` ends option processing; strict positionals honour it.

Decides:
 T tokenizer   State::construct: once pos_only is set every later item is pushed as PosWord on a path that
               bypasses split_os_argument / disambiguate_short / the completion scanner; pos_only is set only
               where the item compares equal to "--" and was not recognised as an option; the marker index
               is items.len() at that very point; the marker item is pre-consumed (Parsed, remaining -= 1).
 A accept sets PosWord is never accepted as an option name, a subcommand name or the value of an argument;
               take_positional_word maps Word -> not strict, PosWord -> strict and nothing else.
 S strictness  decision table of parse_pos_word over Position x is_strict.
 K classes     StrictPos is final, NonStrictPos is catchable (can_catch rows).
 H help        the help/version lookup goes through req_flag -> take_flag, so it cannot match a PosWord.
 R restore         when a wrapper (optional/many/..) absorbs NonStrictPos - raised AFTER the word right of `--` was taken - it puts the
                   pre-attempt state back, so the word stays available to the strict positionals (rows of the parse_option table, C06).
 S carried     every function that returns a ParsePositional built from an existing one (help(), the derived Clone) carries `position`
               over; only strict()/non_strict() set it, each to its own constant.
 C completion  when completing, "only a positional can stand here" is decided by the item BEFORE the word being completed (a PosWord there),
               never by the spelling or kind of the word itself (shared with C14).
 R restore (b)     fallback / fallback_with put the pre-attempt state back when they absorb a failure (NonStrictPos is raised after the word was taken).
 K after `--`      no typo suggestion is computed for a PosWord on any route into suggest(); Comp::is_pos excludes flags, arguments and commands.
 T context free   the tokenizer never reads back the items collected so far (which item is the separator is decided as it is met; shared with C05);
 S first_item      Meta::first_item looks through Strict like through any other wrapper (shared with C12); C dash test: Complete::complete consults the
                        spelling of the typed word only while pos_only is false.
Does not decide: which candidates completion offers (C14)."""
import re
from core import *
from dataflow import *
from cfgq import *
from absint import *
from parsers import *
import consumers

LEVEL = 'other'
EXPLANATION = __doc__
ASSUMPTIONS = ['split_os_argument returns None for the literal `--` (value-level, read from the source, not decided here)']
FLOORS = {'T.tokenizer': 7, 'A.accept-sets': 8, 'S.strictness': 6, 'K.classes': 2, 'H.help': 3, 'R.restore': 5}

def run(ctx):
    cfgs = ['none', 'all'] if ctx.tier == 'quick' else ['none', 'all', 'ac', 'doc']
    ctx.preload(cfgs)
    for cfg in cfgs:
        fs = ctx.facts(cfg)
        ctx.guard(tokenizer, ctx, cfg, fs)
        ctx.guard(consumers.accept_sets, ctx, cfg, fs, 'A.accept-sets')
        ctx.guard(strictness, ctx, cfg, fs)
        ctx.guard(position_carried, ctx, cfg, fs)
        if fs.find(r'^complete_gen::<impl args::inner::State>::check_complete$', required=False):
            import c14
            ctx.guard(c14.pos_only_source, ctx, cfg, fs, 'C.completion')
            ctx.guard(dash_test_scoped, ctx, cfg, fs)
        import wiring
        ctx.guard(wiring.builders, ctx, cfg, fs, 'S.strictness', r'^(positional|params::build_positional|params::ParsePositional::<T>::(strict|non_strict|help))$')
        ctx.guard(classes, ctx, cfg, fs)
        # which item is the separator is decided while tokenizing, never by looking at the text of items collected so far (shared with C05)
        import c05 as c05t
        ctx.guard(c05t.tokenizer_context_free, ctx, cfg, fs, 'T.tokenizer')
        import c12
        # a strict positional may open an adjacent group: Meta::first_item looks through the Strict wrapper like through any other (shared with C12)
        ctx.guard(c12.walker_rules, ctx, cfg, fs, 'S.strictness', {'first_item': c12.WALKERS['first_item']})
        ctx.guard(after_separator, ctx, cfg, fs)
        ctx.guard(helpflag, ctx, cfg, fs)
        import c06, c08, c05
        ctx.guard(c08.keep_only, ctx, lambda: c05.snapshot(ctx, cfg, fs), lambda o: 'restore-on-caught-failure' in o.key, 'R.restore')
        ctx.guard(c08.keep_only, ctx, lambda: c06.k3(ctx, cfg, fs, c06.k1(ctx, cfg, fs)), lambda o: o.rule == 'K3.consult' and 'NonStrictPos' in o.key, 'R.restore')

def tokenizer(ctx, cfg, fs):
    b = ctx.look(fs.body('args::inner::State::construct'))
    # the literal-separator comparison and the flag it sets (found structurally, not by variable name)
    eqs0 = []
    for c in b.calls():
        if c.is_(r'PartialEq.*>::eq$'):
            if any(r.kind == 'const' and r.what == '--' for a in c.args for r in provenance(b, a, c.bb, 'term')):
                eqs0.append(c)
    po = None
    for c in eqs0:
        sw = switch_on_call(b, c)
        if sw is None or sw.kind != 'bool':
            continue
        for i, k, st in b.stmts():
            if st['k'] == 'assign' and not st['lhs'][1] and b.local_ty(st['lhs'][0]) == 'bool' and st['rv']['k'] == 'use' and \
                    (op_const(st['rv']['op']) or {}).get('v') is True and only_via_edge(b, sw.b, sw.target(True), i) and st['lhs'][0] in b.local_names:
                po = st['lhs'][0]
    if po is None:
        raise Broken('State::construct: no flag set on the `--` comparison')
    # loop header: the next() on the argument iterator
    nx = [c for c in b.calls() if c.is_(r'Iterator>?::next$') and 'OsString' in c.full]
    if len(nx) != 1:
        raise Broken('State::construct: expected one next() over the argument iterator, got %d' % len(nx))
    header = nx[0].bb
    # switches on pos_only
    first = None
    for sw in switches(b):
        if sw.kind != 'bool':
            continue
        opp = op_place(sw.t['op'])
        # `_21 = pos_only; switch _21`
        defs = reaching_defs(b, opp[0], sw.b, 'term') if opp else []
        reads_po = any(k == 'assign' and st['rv']['k'] == 'use' and op_place(st['rv']['op']) == [po, []] for (_, _, k, st) in defs) or (opp == [po, []])
        if reads_po and b.dominates(header, sw.b):
            if first is None or b.dominates(sw.b, first.b):
                first = sw
    if first is None:
        raise Broken('State::construct: no test of pos_only inside the loop')
    sens = [c.bb for c in b.calls() if c.is_(r'^arg::split_os_argument$', r'^args::disambiguate_short$', r'ArgScanner.*check_next$')]
    if not sens:
        raise Broken('State::construct: tokenizer calls not found')
    reach = reachable_edges(b, first.target(True), avoid=[header])
    leak = [x for x in sens if x in reach]
    ctx.ob('T.tokenizer', 'construct:pos-only-bypasses-tokenizer', not leak,
           'after `--` the loop body reaches the next iteration without split_os_argument / disambiguate_short / completion scanner: %s' % (not leak), where=b.where(first.b), cfg=cfg)
    # on that path exactly one push, of Arg::PosWord
    pushes = [c for c in b.calls() if c.bb in reach and c.is_(r'Vec::<arg::Arg>::push$')]
    kinds = set()
    for c in pushes:
        for r in provenance(b, c.args[1], c.bb, 'term', through=None):
            kinds.add(r.what if r.kind == 'agg' else r.kind)
    ctx.ob('T.tokenizer', 'construct:pos-only-pushes-PosWord', len(pushes) == 1 and kinds == {'arg::Arg::PosWord'},
           'on the positional-only path the item is pushed verbatim as %s (%d push)' % (sorted(kinds), len(pushes)), where=b.where(first.b), cfg=cfg)
    # the tested-first property: the pos_only test dominates every tokenizer call of the loop
    ctx.ob('T.tokenizer', 'construct:pos-only-tested-first', all(b.dominates(first.b, x) for x in sens),
           'the pos_only test dominates every tokenizer call', where=b.where(first.b), cfg=cfg)
    # where pos_only becomes true
    sets = [(i, k) for i, k, st in b.stmts() if st['k'] == 'assign' and st['lhs'] == [po, []] and (op_const(st['rv'].get('op', ['?'])) or {}).get('v') is True]
    eqs = []
    for c in b.calls():
        if c.is_(r'PartialEq<&str>>::eq$', r'PartialEq.*>::eq$'):
            if any(r.kind == 'const' and r.what == '--' for a in c.args for r in provenance(b, a, c.bb, 'term')):
                eqs.append(c)
    ok = bool(sets) and bool(eqs)
    for (i, k) in sets:
        good = False
        for c in eqs:
            sw = switch_on_call(b, c)
            if sw is not None and sw.kind == 'bool' and only_via_edge(b, sw.b, sw.target(True), i):
                good = True
        ok &= good
    ctx.ob('T.tokenizer', 'construct:pos-only-set-on-literal', ok, 'pos_only becomes true only on the edge where the item equals the literal "--" (%d assignment(s), %d comparison(s))' % (len(sets), len(eqs)), where=b.where(sets[0][0]) if sets else b.where(), cfg=cfg)
    # ... and only for items that are not options (None arm of split_os_argument)
    sp = [c for c in b.calls() if c.is_(r'^arg::split_os_argument$')]
    ok2 = False
    if sp and eqs:
        sw = switch_on_call(b, sp[0])
        ok2 = sw is not None and sw.target('None') is not None and all(only_via_edge(b, sw.b, sw.target('None'), c.bb) for c in eqs)
    ctx.ob('T.tokenizer', 'construct:separator-is-not-an-option', ok2, 'the "--" comparison happens only in the arm where split_os_argument found no option: %s' % ok2, where=b.where(), cfg=cfg)
    # pre-consumption after the loop: the item marked Parsed is the one recorded when the separator was detected
    parsed = [i for i, k, st in b.stmts() if st['k'] == 'assign' and st['rv']['k'] == 'agg' and st['rv'].get('adt') == 'args::ItemState' and st['rv'].get('variant') == 'Parsed']
    dec = [i for i, k, st in b.stmts() if st['k'] == 'assign' and st['rv']['k'] == 'bin' and st['rv']['op'].startswith('Sub') and (op_const(st['rv']['b']) or {}).get('v') == 1
           and b.local_ty((op_place(st['rv']['a']) or [0])[0]) == 'usize' and not b.reaches(i, [header])]
    if not parsed:
        ctx.ob('T.tokenizer', 'construct:marker-preconsumed', False, 'State::construct never marks the separator item Parsed', where=b.where(), cfg=cfg)
        return
    idx_calls = [c for c in b.calls() if c.is_(r'IndexMut<usize>>::index_mut$') and 'ItemState' in c.full and b.reaches(parsed[0], [c.bb])]
    good = bool(idx_calls); desc = []
    set_blocks = {i for (i, k) in sets}
    for c in idx_calls:
        rs = provenance(b, c.args[1], c.bb, 'term', through=None)
        for r in rs:
            desc.append('%s:%s' % (r.kind, r.what))
            if not (r.kind == 'call' and r.call.is_(r'Vec::<arg::Arg>::len$') and (r.call.target in set_blocks or r.call.bb in set_blocks)):
                good = False
    ctx.ob('T.tokenizer', 'construct:marker-is-current-length', good,
           'the item marked Parsed is items.len() as recorded in the very block that detects the separator (not searched for afterwards): %s' % sorted(set(desc)),
           where=b.where(parsed[0]), cfg=cfg)
    guard = False
    for sw in switches(b):
        if sw.kind == 'enum' and sw.target('Some') is not None and all(only_via_edge(b, sw.b, sw.target('Some'), i) for i in parsed + dec) and not b.reaches(sw.b, [header]):
            guard = True
    ctx.ob('T.tokenizer', 'construct:marker-preconsumed', guard and bool(dec),
           'the separator item is marked Parsed and remaining is decremented by one, only when a separator was recorded: %s' % (guard and bool(dec)), where=b.where(parsed[0]), cfg=cfg)

def strictness(ctx, cfg, fs):
    b = ctx.look(fs.host(r'^params::parse_pos_word$', r'State>::take_positional_word$'))
    params = {b.name_of(i): i for i in range(1, b.arg_count + 1)}
    tk = [c for c in b.calls() if c.is_(r'take_positional_word$')]
    # the restriction is the `position` parameter, or - when the helper became a method - the `position` field of self
    if 'position' in params:
        pos_key = (params['position'], ())
    elif 'self' in params and 'ParsePositional' in (b.local_ty(params['self']) or ''):
        pos_key = (params['self'], ('position',))
    else:
        pos_key = None
    if len(tk) != 1 or pos_key is None:
        raise Broken('parse_pos_word: anchors not found')
    want = {('Unrestricted', False): 'Ok', ('Unrestricted', True): 'Ok', ('Strict', False): 'Err(StrictPos)', ('Strict', True): 'Ok',
            ('NonStrict', False): 'Ok', ('NonStrict', True): 'Err(NonStrictPos)'}
    for (pos, strict), expect in want.items():
        def atom(w, sw, store, pos=pos, strict=strict):
            if sw.kind == 'enum':
                rs = provenance(b, sw.place, sw.discr_site[0], sw.discr_site[1], through=None)
                if any(r.kind == 'call' and r.call.bb == tk[0].bb and not r.path for r in rs):
                    return 'Ok'
                if any(r.kind == 'param' and (r.what == 'position' or (r.what == 'self' and r.path[:1] == ['position'])) for r in rs):
                    return pos
            if sw.kind == 'bool':
                for r in sw.roots:
                    if r.kind == 'call' and r.call.bb == tk[0].bb and r.path == ['as Ok', '0', '1']:
                        return strict
                    if r.kind == 'un' and r.extra['op'] == 'Not':
                        q = provenance(b, r.extra['a'], r.site[0], r.site[1], through=None)
                        if any(x.kind == 'call' and x.call.bb == tk[0].bb and x.path == ['as Ok', '0', '1'] for x in q):
                            return not strict
                    if r.kind == 'call' and r.call.is_(r'touching_last_remove$', r'check_no_pos_ahead$'):
                        return False
            return None
        w = Walker(b, atom=atom, call_model=lambda w, c, st: ('callres', c.name, c.bb), variant_of={pos_key: pos})
        paths = [p for p in w.run() if p.end == 'return']
        outs = set()
        for p in paths:
            v = p.ret
            if v is not UNKNOWN and v[0] == 'agg' and v[2] == 'Err':
                msgs = [st['rv']['variant'] for x in p.blocks for st in b.blocks[x]['stmts'] if st['k'] == 'assign' and st['rv']['k'] == 'agg' and st['rv'].get('adt') == 'error::Message']
                outs.add('Err(%s)' % '|'.join(sorted(set(msgs))))
            elif v is not UNKNOWN and v[0] == 'agg' and v[2] == 'Ok':
                outs.add('Ok')
            else:
                outs.add(show(v))
        ctx.ob('S.strictness', 'parse_pos_word:%s:%s' % (pos, 'right-of-dashes' if strict else 'left-of-dashes'), outs == {expect},
               'parse_pos_word(position=%s) on a word taken from the %s of `--` -> %s (expected %s)' % (pos, 'right' if strict else 'left', sorted(outs), expect), where=b.where(), cfg=cfg)

def position_carried(ctx, cfg, fs):
    """strictness lives in one field of the positional parser: every method / impl that hands back a ParsePositional built
    from an existing one (help(), the derived Clone, ..) must carry `position` over - only strict() / non_strict() set it,
    each to its own constant, and only the constructor starts from Unrestricted"""
    SETTERS = {'params::ParsePositional::<T>::strict': 'Strict', 'params::ParsePositional::<T>::non_strict': 'NonStrict'}
    n = 0
    for p, b in sorted(fs.bodies.items()):
        if b.kind == 'closure' or not re.match(r'params::ParsePositional<', b.local_ty(0) or '') or b.arg_count < 1:
            continue
        if not re.match(r'&?(mut )?params::ParsePositional<', b.local_ty(1) or ''):
            continue
        ctx.look(b); n += 1
        why = []
        sets = []
        for i, k, st in b.stmts():
            if st['k'] == 'assign' and 'position' in place_fields(st['lhs']):
                rs = provenance(b, st['rv']['op'], i, k, through=None) if st['rv']['k'] == 'use' else []
                sets += [r.extra.get('variant') if r.kind == 'agg' else '%s:%s' % (r.kind, r.what) for r in rs] or ['?']
            if st['k'] == 'assign' and st['rv']['k'] == 'agg' and st['rv'].get('adt', '').startswith('params::ParsePositional'):
                names = st['rv'].get('field_names') or []
                if 'position' in names:
                    rs = provenance(b, st['rv']['fields'][names.index('position')], i, k)
                    if not (rs and all(r.kind == 'param' and r.what == 'self' and r.path == ['position'] for r in rs)):
                        why.append('builds a new value with position <- %s' % [str(r) for r in rs])
        if p in SETTERS:
            if sets != [SETTERS[p]]:
                why.append('sets position to %s (expected %s)' % (sets, SETTERS[p]))
        elif sets:
            why.append('writes position (%s)' % sets)
        # what is returned: self itself, or the value built above
        for r in provenance(b, ['cp', [0, []]], *ret_site(b), through=None):
            if r.kind == 'param' and r.what == 'self' and not r.path:
                continue
            if r.kind == 'agg' and r.what.startswith('params::ParsePositional'):
                continue
            why.append('returns %s%s' % (r.kind, (' ' + short(r.call.name)) if r.kind == 'call' else ''))
        ctx.ob('S.strictness', 'carried:%s' % short(p), not why, '%s keeps the strictness of the parser it was given: %s' % (short(p), '; '.join(why) or 'ok'), where=b.where(), cfg=cfg)
    if n < 3:
        raise Broken('position_carried: only %d functions returning ParsePositional found' % n)

def ret_site(b):
    r = b.return_blocks()
    if not r:
        raise Broken('%s: no return block' % b.path)
    return (r[0], 'term')

def after_separator(ctx, cfg, fs):
    """two places that talk ABOUT words right of `--` must agree with the parser, which never takes such a word for a name:
    (1) the "did you mean" helper gives no suggestion for a PosWord - on every route into it (unconsumed item AND missing item);
    (2) completion's notion of "can stand at a positional place" (Comp::is_pos) excludes flags, arguments and COMMANDS - take_cmd
    never accepts a PosWord, so a command name offered after `--` could not be typed there."""
    sg = ctx.look(fs.one(r'^meta_youmean::suggest$'))
    nx = [c for c in sg.calls() if c.is_(r'Iterator>?::next$') and 'ArgsIter' in c.full]
    inside = False
    rty = sg.local_ty(0)
    somes = [i for i, k, st in sg.stmts() if st['k'] == 'assign' and st['rv']['k'] == 'agg' and st['rv'].get('variant') == 'Some' and sg.local_ty(st['lhs'][0]) == rty]
    def from_front(sw):
        rs = provenance(sg, sw.place, sw.discr_site[0], sw.discr_site[1], through=[r'Try>::branch$'])
        return bool(nx) and bool(rs) and all(r.kind == 'call' and r.call.bb == nx[0].bb for r in rs)
    for (a_, t_) in variant_edges(sg, 'arg::Arg', 'PosWord', from_front):
        reach = reachable_edges(sg, t_)
        if somes and not any(x in reach for x in somes) and all(sg.dominates(a_, x) for x in somes):
            inside = True
    ok = inside; why = 'inside suggest(), before anything is compared'
    if not inside:
        # the test may live at the call sites instead - then at ALL of them
        unguarded = []
        for x in fs.bodies.values():
            for c in x.calls():
                if c.is_(r'^meta_youmean::suggest$'):
                    g = False
                    for (a_, t_) in variant_edges(x, 'arg::Arg', 'PosWord'):
                        if c.bb not in reachable_edges(x, t_) and x.dominates(a_, c.bb):
                            g = True
                    if not g:
                        unguarded.append(x.where(c.bb))
        ok = not unguarded and bool([1 for x in fs.bodies.values() for c in x.calls() if c.is_(r'^meta_youmean::suggest$')])
        why = 'at the call sites; unguarded: %s' % (unguarded or 'none')
    ctx.ob('K.classes', 'suggest:nothing-for-strictly-positional-words', ok, 'no typo suggestion is computed for a word right of `--`: the PosWord test sits %s' % why, where=sg.where(), cfg=cfg)
    cands = fs.find(r'^complete_gen::Comp::is_pos$', required=False)
    if cands:
        ip = ctx.look(cands[0])
        enum, t = enum_const_table(ip)
        bad = {k_: v_ for k_, v_ in t.items() if k_ in ('Flag', 'Argument', 'Command') and v_ is not False}
        ctx.ob('K.classes', 'Comp::is_pos:names-are-not-positional', enum == 'complete_gen::Comp' and not bad and all(k_ in t for k_ in ('Flag', 'Argument', 'Command')),
               'Comp::is_pos = %s (flags, arguments and commands cannot be typed right of `--`)' % {k_: t.get(k_) for k_ in sorted(t)}, where=ip.where(), cfg=cfg)

def dash_test_scoped(ctx, cfg, fs, rule='C.completion'):
    """Complete::complete looks at the SPELLING of the typed word in one place (a word that starts with a dash is taken for an attempt to
    type a name, and placeholders of positionals are withheld).  Right of `--` a dash is just text: every decision that hangs on a
    dash test of the typed word is also conditional on `pos_only` being false."""
    cs = fs.find(r'^complete_gen::Complete::complete$', required=False)
    if not cs:
        return
    b = ctx.look(cs[0])
    pos = [l for l, nm in b.local_names.items() if nm == 'pos_only' and l <= b.arg_count]
    if not pos:
        raise Broken('Complete::complete: no parameter called pos_only')
    pl = pos[0]
    def reads_pos_only(sw):
        return sw.kind == 'bool' and bool(sw.roots) and all(r.kind == 'param' and r.what in (pl, 'pos_only') and not r.path for r in sw.roots)
    n = 0; bad = []
    for c in b.calls():
        if not c.is_(r'str>?::starts_with') or not c.args:
            continue
        rs = provenance(b, c.args[0], c.bb, 'term', through=None)
        if not (rs and all(r.kind == 'param' for r in rs)):
            continue
        sw = switch_on_call(b, c)
        if sw is None:
            continue
        n += 1
        t = sw.target(True) if sw.kind == 'bool' else None
        if t is None:
            bad.append('dash test at %s is not a plain boolean test' % b.where(c.bb)); continue
        # either the test is only EVALUATED while pos_only is false (`!pos_only && arg.starts_with('-')`, also when the whole
        # conjunction is kept in a named bool first), or what it decides is reached only then
        deps = set(b.transitive_control_deps(t)) | {(sw.b, t)} | set(b.transitive_control_deps(c.bb))
        if not any(reads_pos_only(Switch(b, a_)) and s_ == Switch(b, a_).target(False) for (a_, s_) in deps if b.term(a_)['k'] == 'switch'):
            bad.append('what the dash test at %s decides does not depend on pos_only being false' % b.where(c.bb))
    ctx.ob(rule, 'Complete::complete:dash-test-only-left-of-separator', n >= 1 and not bad,
           '%d spelling test(s) of the typed word in Complete::complete: %s' % (n, '; '.join(bad) or 'each one only matters while pos_only is false'), where=b.where(), cfg=cfg)

def classes(ctx, cfg, fs):
    cc = ctx.look(fs.one(r'^error::Message::can_catch$'))
    enum, t = enum_const_table(cc)
    ctx.ob('K.classes', 'can_catch:StrictPos', t.get('StrictPos') is False, 'can_catch(StrictPos) = %s (final)' % t.get('StrictPos'), where=cc.where(), cfg=cfg)
    ctx.ob('K.classes', 'can_catch:NonStrictPos', t.get('NonStrictPos') is True, 'can_catch(NonStrictPos) = %s (catchable: the word belongs to a later consumer)' % t.get('NonStrictPos'), where=cc.where(), cfg=cfg)

def helpflag(ctx, cfg, fs):
    ev = ctx.look(fs.one(r'^<info::Info as Parser<info::ExtraParams>>::eval$'))
    sites = info_parser_sites(ev)
    for nm, kind in (('mk_help_parser', 'help'), ('mk_version_parser', 'version')):
        hs = fs.find(r'^info::Info::%s$' % nm, required=False)
        if hs:
            b = ctx.look(hs[0])
            rq = [c for c in b.calls() if c.is_(r'NamedArg::req_flag')]
            ok = len(rq) == 1 and bool(sites[kind]); n = len(rq)
        else:
            # the helper was written out at its callers: every construction found there is a req_flag on the right name
            b = ev
            ok = bool(sites[kind]) and all(c.is_(r'NamedArg::req_flag') for c in sites[kind]); n = len(sites[kind])
        ctx.ob('H.help', '%s:req_flag' % nm, ok, 'the %s parser of Info is built with NamedArg::req_flag (%d call) and evaluated by Info::eval' % (kind, n), where=b.where(), cfg=cfg)
    b = ctx.look(fs.one(r'^<params::ParseFlag<T> as Parser<T>>::eval$'))
    tf = [c for c in b.calls() if c.is_(r'take_flag$')]
    others = [c.name for c in b.calls() if c.is_(r'State.*take_(arg|cmd|positional_word)$', r'items_iter$')]
    ctx.ob('H.help', 'ParseFlag::eval:only-take_flag', len(tf) == 1 and not others, 'a flag parser looks at the command line only through take_flag (whose matcher rejects Word/ArgWord/PosWord): %s' % others, where=b.where(), cfg=cfg)
