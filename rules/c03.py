"""C03 - order of named options is irrelevant (the anchored mechanism only).

Decides:
 S whole-scope search   take_flag / take_arg select by NAME with find over the whole scope-filtered iterator
                        (take_cmd is the only front-only consumer).
 I index is opaque      in take_flag / take_arg the index found flows only into remove(), get(), `+ 1` (value
                        slot), `current` and the returned tuple: it is never compared with another index or bound,
                        so where the named item sits cannot influence whether it is taken.
 M matcher              matches_arg decides on the name (and the attached-value bit) only: words never match.
 C command scope       a matched command's scope runs from its name to the END of the enclosing scope (not to the first
                        hole left by an outer named item written among the command's own items): shared with C08.
 T separator position   the `--` marker that is pre-consumed is the item at the position it was tokenized into (one argv word can
                        expand into several items, so a word index would make the outcome depend on which named spellings
                        precede `--`): shared with C09.
 H help/version        when both the help and the version flag are on the line the answer is help, whichever is written first: the
                        two lookups are sequential, not alternatives decided by position (shared with C10).
 P positionals skip     take_positional_word considers Word / PosWord only and skips every named item.
 O own items     only the primitive consumers (take_flag / take_arg / take_cmd / take_positional_word, `any`) call State::remove or
                        State::get: no parser peeks at or removes the neighbour of its own item (who-may-call registry).
 L repetition    whether a repetition goes round again depends only on what the inner parser returned and on State::len(), never on the
                        position of the consumed item or on the item next to it.
 T context free  the tokenizer never reads back items it produced for other words (the class of `-5` or `-vx` cannot depend on what precedes it).
 R registry      collect_shorts descends through every wrapper (shared with C02): a short name that is missing from the cluster registry makes `-j4`
                        a plain word, i.e. a positional whose place in the line matters.
 T empty value   `--name=` carries the empty value and does not reach for its neighbour (shared with C02).
 R registry rows every item kind hands ALL its short names (hidden aliases too) to the registry and run_inner wires the registry straight (shared with C02).
 S forks         both alternatives of or_else are always evaluated on forks; none is adopted before the other was tried (shared with C07).
Does not decide: invariance of the outcome under all permutations (value-level)."""
from core import *
from dataflow import *
from cfgq import *
import consumers, c07, c08, c09

LEVEL = 'other'
EXPLANATION = __doc__
ASSUMPTIONS = []
FLOORS = {'S.search': 18, 'I.index-opaque': 2, 'M.matcher': 8, 'C.command-scope': 1, 'T.separator': 2, 'H.help-version-order': 3, 'O.own-items': 10, 'L.repetition': 3, 'R.registry': 20}

def run(ctx):
    cfgs = ['none', 'all']
    ctx.preload(cfgs)
    for cfg in cfgs:
        fs = ctx.facts(cfg)
        ctx.guard(consumers.consumers, ctx, cfg, fs, 'S.search')
        ctx.guard(consumers.accept_sets, ctx, cfg, fs, 'M.matcher')
        ctx.guard(c07.ledger_only, ctx, cfg, fs, 'I.index-opaque')
        ctx.guard(consumers.ledger_callers, ctx, cfg, fs, 'O.own-items')
        import c05, c02, c12
        ctx.guard(c05.tokenizer_context_free, ctx, cfg, fs, 'T.separator')
        ctx.guard(c08.keep_only, ctx, lambda: c02.equals_value(ctx, cfg, fs), lambda o: True, 'T.separator')
        ctx.guard(c12.walker_rules, ctx, cfg, fs, 'R.registry', {'collect_shorts': c12.WALKERS['collect_shorts']})
        ctx.guard(c08.keep_only, ctx, lambda: c02.registry(ctx, cfg, fs), lambda o: True, 'R.registry')
        ctx.guard(c08.keep_only, ctx, lambda: c02.name_search(ctx, cfg, fs), lambda o: o.rule == 'R.registry', 'R.registry')
        # both alternatives are always evaluated on forks and the winner is picked by position (shared with C07): an early win of the first
        # alternative would make the outcome depend on which shared item comes first
        ctx.guard(c08.keep_only, ctx, lambda: c07.fork(ctx, cfg, fs), lambda o: 'ParseOrElse' in o.key, 'S.search')
        import c06
        ctx.guard(c06.loop_conditions, ctx, cfg, fs, 'L.repetition')
        ctx.guard(c08.keep_only, ctx, lambda: c09.tokenizer(ctx, cfg, fs), lambda o: 'marker-' in o.key, 'T.separator')
        import c10
        ctx.guard(c08.keep_only, ctx, lambda: c10.info(ctx, cfg, fs), lambda o: True, 'H.help-version-order')
        ctx.guard(c08.keep_only, ctx, lambda: c08.matched(ctx, cfg, fs), lambda o: 'scope-from-name-to-end' in o.key, 'C.command-scope')
        for nm in ('take_flag', 'take_arg'):
            b = ctx.look(fs.body(consumers.CONSUMERS[nm][0]))
            # locals holding the found index
            idx = set()
            for l in range(len(b.locals)):
                if b.local_ty(l) == 'usize' and l > b.arg_count:
                    ks = consumers.index_sources(b, ['cp', [l, []]], *last_def(b, l)) if last_def(b, l) else set()
                    if ks and ks <= {'iter', 'iter+1'}:
                        idx.add(l)
            bad = []
            for l in sorted(idx):
                for (bb, k, kind, p) in uses_of(b, l):
                    if kind == 'switch' or kind == 'assert':
                        if kind == 'switch':
                            bad.append('switch on %s' % b.name_of(l))
                    elif kind == 'assign':
                        rv = p['rv']
                        if rv['k'] == 'bin':
                            if rv['op'].startswith('Add') and (op_const(rv['b']) or {}).get('v') == 1:
                                continue
                            bad.append('%s(%s)' % (rv['op'], b.name_of(l)))
                    elif kind == 'call':
                        c = Call(b, bb, p)
                        if not c.is_(r'State::(remove|get)$'):
                            bad.append('passed to %s' % c.name)
            ctx.ob('I.index-opaque', '%s:index-uses' % nm, bool(idx) and not bad,
                   '%s: the index of the matched item (%d index locals) is only removed / read at +1 / recorded: %s' % (nm, len(idx), bad or 'no comparison or other arithmetic'), where=b.where(), cfg=cfg)

def last_def(b, l):
    ds = b.defs().get(l, [])
    for (bb, k, kind, st) in ds:
        if kind == 'assign':
            return (bb, k + 1)
    return None
