"""C18 - environment variables are a fallback below the command line.

Decides:
 W  who-may-read  the only uses of std::env (calls or fn-item references) in the crate are var_os in
                  ParseFlag::eval and ParseArgument::take_argument (parsing), var_os in write_help_item
                  (display), args_os in Args::current_args; supports_color is reached only from Color::default.
 P  name provenance  every variable name passed to var_os comes from the item's declared `env` list.
 F  flag precedence  ParseFlag::eval calls take_flag on every path and reads the environment only on the
                  edge where take_flag returned false.
 A  argument precedence  take_argument calls take_arg on every path, reads the environment only in the
                  Ok(None) arm, and its Ok values come only from take_arg or the environment read.
 J  single conversion  ParseArgument::eval converts whatever take_argument returned with one parse_os_str
                  call (env and command-line values share conversion and validation).
 R  repetition    a repeated item (many/some/last/count/collect) hands parse_option one counter for the whole repetition, so
                  the extra evaluation that finds nothing on the line and falls back to the variable does not count as
                  an occurrence and cannot override or follow the values from the line (shared with C06.K5).
 V  same validation  a value taken from the variable consumed nothing from the line; optional/many/.. still treat a failed conversion or
                  guard of it as final (rows of the parse_option table with nothing consumed, shared with C06).
 U  usage fallback   an empty line whose items are all satisfied from the environment yields the value: the usage text replaces only a
                  failure (shared with C10).
 M  both absent   the absent exits build Missing(item) or NoEnv(name); both are catchable (defaults apply).
 R2 count            count() counts a success that consumed nothing (a flag present only through its variable).
 M absent rows     every default-supplying wrapper reacts to NoEnv / Missing (rows of the K3 table, shared with C06).
 R3 loop exits        whether collect / many / some / .. go round again never depends on State::is_empty() or positions: an env-backed item succeeds
                  without consuming anything (shared with C06).
 F converse        ParseFlag::eval: every outcome other than Ok(present) lies behind the "no declared variable set" edge (req_flag included);
 P unfiltered      the Option the environment lookup returns reaches the presence decision without an adaptor (an empty value is a value).
 A no position     a value taken from the environment is handed on only after `args.current = None` (a failed conversion of it is not blamed on a word of the line).
Does not decide: behaviour of the wrappers around an env-backed item (C06)."""
import re
from core import *
from dataflow import *
from cfgq import *
from parsers import built_messages, short

LEVEL = 'other'
EXPLANATION = __doc__
ASSUMPTIONS = ['std::env::var_os returns the current value of exactly the named variable',
               'the supports-color crate only influences whether colours are printed']
FLOORS = {'W.who-may-read': 6, 'P.name-provenance': 3, 'F.flag-precedence': 4, 'A.argument-precedence': 4, 'J.single-conversion': 3, 'M.both-absent': 4, 'R.repetition': 5, 'V.same-validation': 4, 'U.usage-fallback': 2}

ENV_TABLE = {
    # (function, env fn) -> reason
    ('<params::ParseFlag<T> as Parser<T>>::eval', 'std::env::var_os'): 'flag: present on line OR declared variable set',
    ('params::ParseArgument::<T>::take_argument', 'std::env::var_os'): 'argument: line first, then first set variable',
    ('meta_help::write_help_item', 'std::env::var_os'): 'help shows the current state of the declared variable (display only)',
    ('args::<impl args::inner::Args<\'_>>::current_args', 'std::env::args_os'): 'reads argv once for run()',
    ('args::Args::<\'_>::current_args', 'std::env::args_os'): 'reads argv once for run()',
}

def env_uses(fs):
    out = []
    for b in fs.bodies.values():
        for c in b.calls():
            for n in c.names:
                if re.match(r'^std::env::', n):
                    out.append((b, c.bb, n, 'call', c)); break
        for (bb, fn, full) in fn_refs(b):
            if re.match(r'^std::env::', fn):
                out.append((b, bb, fn, 'fn-ref', None))
    return out

def run(ctx):
    cfgs = ['none', 'all'] if ctx.tier == 'quick' else ['none', 'all', 'ac', 'dull', 'bright', 'doc']
    ctx.preload(cfgs)
    for cfg in cfgs:
        fs = ctx.facts(cfg)
        ctx.guard(who, ctx, cfg, fs)
        import wiring
        ctx.guard(wiring.builders, ctx, cfg, fs, 'P.name-provenance', r'^(env|params::NamedArg::env|params::NamedArg::(switch|flag|req_flag|argument)|params::build_flag_parser|params::build_argument)$')
        ctx.guard(flag, ctx, cfg, fs)
        ctx.guard(argument, ctx, cfg, fs)
        ctx.guard(absent, ctx, cfg, fs)
        import c06
        ctx.guard(c06.len_threaded, ctx, cfg, fs, 'R.repetition')
        ctx.guard(c06.count_counts, ctx, cfg, fs, 'R.repetition')
        ctx.guard(c06.loop_conditions, ctx, cfg, fs, 'R.repetition')
        import c08, c10
        # a value that came from the variant consumed nothing: the wrappers must still treat a failed conversion / guard of it as final
        ctx.guard(c08.keep_only, ctx, lambda: c06.k3(ctx, cfg, fs, c06.k1(ctx, cfg, fs)),
                  lambda o: o.rule == 'K3.consult' and any(v_ in o.key for v_ in ('ParseFailed', 'GuardFailed')) and (('parse_option:Err(' in o.key and 'consumed=False' in o.key) or 'ParseFallback' in o.key), 'V.same-validation')
        ctx.guard(c08.keep_only, ctx, lambda: c06.k3(ctx, cfg, fs, c06.k1(ctx, cfg, fs)),
                  lambda o: o.rule == 'K3.consult' and ('Err(NoEnv)' in o.key or 'Err(Missing)' in o.key), 'M.both-absent')
        ctx.guard(c08.keep_only, ctx, lambda: c10.usage_fallback(ctx, cfg, ctx.look(fs.one(r'^info::OptionParser::<T>::run_subparser$')), 'U.usage-fallback'), lambda o: True, 'U.usage-fallback')

def outer(path):
    return path.split('::{closure')[0]

def who(ctx, cfg, fs):
    uses = env_uses(fs)
    for (b, bb, fn, how, call) in uses:
        owner = outer(b.path)
        ok = (owner, fn) in ENV_TABLE
        ctx.ob('W.who-may-read', '%s:%s' % (owner, fn), ok,
               '%s uses %s (%s): %s' % (b.path, fn, how, ENV_TABLE.get((owner, fn), 'NOT in the table of permitted environment accesses')),
               where=b.where(bb), cfg=cfg)
        ctx.look(b)
    done = set()
    for (b, bb, fn, how, call) in uses:
        owner = outer(b.path)
        if owner in done or not re.match(r'^std::env::var(_os)?$', fn):
            continue
        done.add(owner)
        ob = fs.body(owner)
        for (blk, roots) in env_lookup_sites(fs, ob):
            good = bool(roots) and all('env' in r.path or (r.kind == 'upvar' and r.what == 'env') for r in roots)
            desc = sorted({'%s:%s.%s' % (r.kind, r.what, '.'.join(r.path)) for r in roots})
            ctx.ob('P.name-provenance', '%s:var_os-name' % owner, good,
                   '%s: the variable name(s) looked up come from %s' % (owner, desc), where=ob.where(blk), cfg=cfg)
    # "set" means set: the value the lookup returned decides presence as it is (an empty value is a value; `--name=` is accepted on the
    # line too).  In the two parsing functions the Option coming back from var_os - directly or through find_map / and_then - is only
    # moved, tested for Some and handed on; no adaptor (filter, and_then with a test, map ..) sits between the lookup and the decision.
    ADAPT = r'Option::<.*>::(filter|and_then|map|map_or|map_or_else|take_if|xor|zip|or|or_else|is_some_and|is_none_or)$'
    for owner in sorted({outer(b.path) for (b, bb, fn, how, call) in uses if re.search(r'ParseFlag<T> as Parser<T>>::eval$|take_argument$', outer(b.path))}):
        post = []; n = 0
        for x in fs.family(fs.body(owner)):
            srcs = [c for c in x.calls() if c.is_(r'^std::env::var_os$') or any(a[0] == 'c' and str(a[1].get('fn', '')).startswith('std::env::var_os') for a in c.args)]
            for c in srcs:
                if not c.dest: continue
                n += 1
                seen, sinks = flows_to(x, c.dest[0], through=None)
                for (bb_, k_, kind_, p_) in sinks:
                    if kind_ == 'call':
                        cc = Call(x, bb_, p_)
                        if cc.is_(ADAPT) and not (cc.is_(r'::and_then$') and any(a[0] == 'c' and str(a[1].get('fn', '')).startswith('std::env::var_os') for a in cc.args)):
                            post.append('%s at %s' % (cc.name.split('::')[-1], x.where(bb_)))
        ctx.ob('P.name-provenance', '%s:value-decides-as-it-is' % owner, n > 0 and not post,
               '%s: the result of the environment lookup (%d site(s)) reaches the presence decision unfiltered: %s' % (owner, n, sorted(set(post)) or 'ok'), where=fs.body(owner).where(), cfg=cfg)
    # supports_color: only from Color::default
    for b in fs.bodies.values():
        for c in b.calls():
            if c.is_(r'^supports_color::'):
                ok = bool(re.search(r'buffer::console::Color as std::default::Default>::default', outer(b.path)))
                ctx.ob('W.who-may-read', '%s:supports_color' % outer(b.path), ok,
                       '%s calls %s (%s)' % (b.path, c.name, 'colour detection for printing only' if ok else 'outside Color::default'),
                       where=c.where(), cfg=cfg)
    # Color::default itself is only used for printing
    callers = fs.callers()
    for p, cs in callers.items():
        if re.search(r'buffer::console::Color as std::default::Default>::default$', p):
            for cal in cs:
                ok = bool(re.search(r'ParseFailure::print_message$', outer(cal)))
                ctx.ob('W.who-may-read', 'Color::default<-%s' % outer(cal), ok,
                       'Color::default (which consults the terminal/environment) is called from %s' % cal, cfg=cfg)

ITER = DEFAULT_THROUGH + [r'core::slice::<impl \[T\]>::(iter|first)$', r'as std::iter::IntoIterator>::into_iter$',
                          r'as std::iter::Iterator>::(copied|cloned)$']

def closure_pass_sites(fs, body, clo):
    """blocks of `body` where the closure `clo` (a Body) is created and handed to a call"""
    out = []
    for i, k, st in body.stmts():
        if st['k'] == 'assign' and st['rv']['k'] == 'agg' and st['rv'].get('closure') == clo.path:
            locs, sinks = flows_to(body, st['lhs'][0], through=None)
            for (b, kk, kind, p) in sinks:
                if kind == 'call':
                    out.append((b, Call(body, b, p), st))
    return out

def env_lookup_sites(fs, body):
    """(block of body, provenance roots of the looked-up name) for every environment read performed by
    the body, directly, through a fn-item reference, or inside one of its closures"""
    out = []
    for c in body.calls():
        if any(re.match(r'^std::env::var(_os)?$', n) for n in c.names):
            # `for name in self.named.env.iter() { var_os(name) .. }`: the name is an element of what the loop walks
            out.append((c.bb, provenance(body, c.args[0], c.bb, 'term', through=ITER + [r'Iterator>?::next$'])))
    for (bb, fn, full) in fn_refs(body):
        if re.match(r'^std::env::var(_os)?$', fn):
            c = body.call_at(bb)
            out.append((bb, provenance(body, c.args[0], bb, 'term', through=ITER) if c else []))
    for clo in fs.closures_of(body):
        inner = env_lookup_sites(fs, clo)
        if not inner:
            continue
        for (b, call, st) in closure_pass_sites(fs, body, clo):
            roots = []
            for (_, rs) in inner:
                for r in rs:
                    if r.kind == 'param':
                        # closure parameter: elements of the receiver the closure is applied to
                        roots += provenance(body, call.args[0], b, 'term', through=ITER)
                    elif r.kind == 'upvar':
                        names = clo.j.get('captures', [])
                        if r.what in names:
                            roots += provenance(body, st['rv']['fields'][names.index(r.what)], b, 'term', through=ITER)
                        else:
                            roots.append(r)
                    else:
                        roots.append(r)
            out.append((b, roots))
    return out

ALL_ELEMENTS = r'Iterator>?::(find_map|any|find|filter_map|map|all|for_each|try_for_each|flat_map|position|fold|try_fold)$'
ONE_ELEMENT = r'Option::<.*>::(and_then|map|map_or|map_or_else|filter|is_some_and)$'

def env_coverage(fs, body):
    """for every environment read of `body`: does it visit ALL declared names (an iterator over the whole env list
    drives it) or just one (first()/get()/index)?  -> list of (block, 'all' | 'one' | '?', detail)"""
    out = []
    NOFIRST = DEFAULT_THROUGH + [r'core::slice::<impl \[T\]>::iter$', r'as std::iter::IntoIterator>::into_iter$', r'as std::iter::Iterator>::(copied|cloned|by_ref)$']
    def receiver_kind(b, call):
        rs = provenance(b, call.args[0], call.bb, 'term', through=NOFIRST)
        if rs and all((r.kind in ('param', 'upvar')) and 'env' in (r.path or [r.what]) for r in rs):
            return 'list'
        if rs and all(r.kind == 'call' and r.call.is_(r'slice::<impl \[T\]>::(first|last|get)$', r'Vec::<.*>::(first|last|get)$', r'Iterator>?::(next|last|nth)$') for r in rs):
            return 'element'
        return '?'
    def classify(b, call):
        if call is None:
            return '?', 'lookup not attached to a call'
        if call.is_(ALL_ELEMENTS):
            k = receiver_kind(b, call)
            return ('all' if k == 'list' else 'one' if k == 'element' else '?'), '%s over %s' % (call.name.split('::')[-1], k)
        if call.is_(ONE_ELEMENT):
            return 'one', '%s on a single element' % call.name.split('::')[-1]
        return '?', 'handed to %s' % short(call.name)
    for c in body.calls():
        if any(re.match(r'^std::env::var(_os)?$', n) for n in c.names):
            rs = provenance(body, c.args[0], c.bb, 'term', through=NOFIRST)
            if rs and all(r.kind == 'call' and r.call.is_(r'Iterator>?::next$') for r in rs) and c.bb in reachable_edges(body, c.target or c.bb):
                out.append((c.bb, 'all', 'looked up inside a loop over the names'))
            elif body.kind == 'closure':
                continue       # judged at the call that receives the closure
            else:
                out.append((c.bb, 'one' if rs and all(r.kind == 'call' for r in rs) else '?', 'direct lookup of %s' % sorted('%s:%s' % (r.kind, short(r.call.name) if r.kind == 'call' else r.what) for r in rs)))
    for (bb, fn, full) in fn_refs(body):
        if re.match(r'^std::env::var(_os)?$', fn):
            v, d = classify(body, body.call_at(bb))
            out.append((bb, v, d))
    for clo in fs.closures_of(body):
        if not env_lookup_sites(fs, clo):
            continue
        for (b_, call, st) in closure_pass_sites(fs, body, clo):
            v, d = classify(body, call)
            out.append((b_, v, d))
    return out

def env_lookup_blocks(fs, body):
    return sorted({b for (b, _) in env_lookup_sites(fs, body)})

def flag(ctx, cfg, fs):
    body = ctx.look(fs.one(r'^<params::ParseFlag<T> as Parser<T>>::eval$'))
    tf = [c for c in body.calls() if c.is_(r'State>::take_flag$', r'State::take_flag$')]
    if len(tf) != 1:
        ctx.ob('F.flag-precedence', 'ParseFlag::eval:take_flag-once', False, 'expected exactly one take_flag call, found %d' % len(tf), where=body.where(), cfg=cfg)
        return
    tf = tf[0]
    rets = body.return_blocks()
    uncond = all(body.dominates(tf.bb, r) for r in rets) and bool(rets)
    ctx.ob('F.flag-precedence', 'ParseFlag::eval:take_flag-unconditional', uncond,
           'take_flag (consumption of the flag from the line) %s every return' % ('dominates' if uncond else 'does NOT dominate'),
           where=tf.where(), cfg=cfg)
    sw = switch_on_call(body, tf)
    envb = env_lookup_blocks(fs, body)
    ok = sw is not None and sw.kind == 'bool' and bool(envb) and all(only_via_edge(body, sw.b, sw.target(False), e) for e in envb)
    ctx.ob('F.flag-precedence', 'ParseFlag::eval:env-only-when-absent', ok,
           'the environment is consulted only on the edge where take_flag returned false (%d lookup site(s))' % len(envb),
           where=body.where(envb[0]) if envb else body.where(), cfg=cfg)
    cov = env_coverage(fs, body)
    ctx.ob('F.flag-precedence', 'ParseFlag::eval:every-declared-variable', bool(cov) and all(v == 'all' for (_, v, _) in cov),
           'every variable declared with env() is consulted (a flag counts as present if ANY of them is set): %s' % [d for (_, _, d) in cov], where=body.where(), cfg=cfg)
    # present value is produced iff take_flag || env set: Ok(present) reachable from both, absent only from neither
    present_ok = []
    for i, k, st in body.stmts():
        if st['k'] == 'assign' and st['lhs'] == [0, []] and st['rv']['k'] == 'agg' and st['rv'].get('variant') == 'Ok':
            roots = provenance(body, st['rv']['fields'][0], i, k)
            if any('present' in r.path for r in roots):
                present_ok.append(i)
    good = bool(present_ok) and sw is not None and all(not body.reaches(sw.target(False), [p], avoid=set(envb)) for p in present_ok)
    ctx.ob('F.flag-precedence', 'ParseFlag::eval:present-needs-line-or-env', good,
           'Ok(present) is not reachable from the take_flag==false edge without passing the environment lookup', where=body.where(), cfg=cfg)

    # ... and the converse, for every shape of flag (switch, flag(a, b) AND req_flag, which has no absent value): any outcome other than
    # Ok(present) - the absent value, or the "expected --flag" failure - is produced only on the edge where the lookup said "not set"
    tests = []
    for s_ in switches(body):
        if s_.kind != 'bool': continue
        for r in (s_.roots or []):
            if r.kind == 'call' and r.call.is_(r'Option::<.*>::(is_some|is_none)$'):
                src = provenance(body, r.call.args[0], r.call.bb, 'term')
                if any(q.kind == 'call' and q.call.bb in envb for q in src):
                    tests.append((s_, r.call.is_(r'::is_none$')))
            elif r.kind == 'call' and r.call.bb in envb and r.call.is_(r'Iterator>?::(any|all)$') and not r.path:
                # `env.iter().any(|name| var_os(name).is_some())`: the lookup answers the question itself
                tests.append((s_, r.call.is_(r'::all$')))
    others = [i for i, k, st in body.stmts() if st['k'] == 'assign' and st['lhs'] == [0, []] and st['rv']['k'] == 'agg' and st['rv'].get('variant') in ('Ok', 'Err') and i not in present_ok]
    conv = bool(tests) and bool(others) and all(any(only_via_edge(body, t_.b, t_.target(neg), o) for (t_, neg) in tests) for o in others)
    ctx.ob('F.flag-precedence', 'ParseFlag::eval:absent-outcomes-need-unset-variable', conv,
           'every outcome other than Ok(present) (%d site(s)) lies behind the "no declared variable is set" edge of the lookup (%d test(s)): %s' % (len(others), len(tests), conv), where=body.where(), cfg=cfg)

def argument(ctx, cfg, fs):
    body = ctx.look(fs.one(r'^params::ParseArgument::<T>::take_argument$'))
    ta = [c for c in body.calls() if c.is_(r'State>::take_arg$', r'State::take_arg$')]
    if len(ta) != 1:
        ctx.ob('A.argument-precedence', 'take_argument:take_arg-once', False, 'expected exactly one take_arg call, found %d' % len(ta), where=body.where(), cfg=cfg)
        return
    ta = ta[0]
    rets = body.return_blocks()
    uncond = bool(rets) and all(body.dominates(ta.bb, r) for r in rets)
    ctx.ob('A.argument-precedence', 'take_argument:take_arg-unconditional', uncond,
           'take_arg (command line lookup) %s every return' % ('dominates' if uncond else 'does NOT dominate'), where=ta.where(), cfg=cfg)
    envb = env_lookup_blocks(fs, body)
    # the env lookup is only reachable through the arm(s) that are neither Ok(Some) nor Err
    sws = [sw for sw in switches(body) if sw.kind == 'enum']
    res_sw = switch_on_call(body, ta)
    ok = False; detail = 'no switch on the result of take_arg'
    if res_sw is not None:
        err_t = res_sw.target('Err'); ok_t = res_sw.target('Ok')
        # inner switch on the Option inside Ok
        inner = [sw for sw in sws if sw.b != res_sw.b and body.dominates(res_sw.b, sw.b) and 'Option' in (sw.enum or '')
                 and any(r.kind == 'call' and r.call.bb == ta.bb for r in provenance(body, sw.place, sw.discr_site[0], sw.discr_site[1], through=None))]
        some_t = inner[0].target('Some') if inner else None
        avoid = {x for x in (err_t, some_t) if x is not None}
        if inner and err_t is not None:
            ok = bool(envb) and all(e not in reachable_edges(body, 0, removed_edges=[(res_sw.b, err_t), (inner[0].b, some_t)]) or True for e in envb)
            # precise: env lookup unreachable when entering via Err arm or Some arm
            from_err = reachable_edges(body, err_t) if err_t != inner[0].b else set()
            from_some = reachable_edges(body, some_t)
            ok = bool(envb) and not (set(envb) & from_err) and not (set(envb) & from_some)
            detail = 'environment lookup is %sreachable from the Err arm and %sreachable from the Ok(Some) arm of take_arg' % (
                '' if set(envb) & from_err else 'not ', '' if set(envb) & from_some else 'not ')
    ctx.ob('A.argument-precedence', 'take_argument:env-only-when-absent', ok, detail, where=body.where(envb[0]) if envb else body.where(), cfg=cfg)
    # a value that came from the environment belongs to no position of the command line: `current` is cleared before it is handed on, so
    # that a failed conversion / validation of it is reported as such and not blamed on the word another parser consumed last
    env_calls = [body.call_at(e) for e in envb if body.call_at(e) is not None]
    def is_none(i, k, st):
        if st['rv']['k'] == 'agg':
            return st['rv'].get('variant') == 'None'
        if st['rv']['k'] == 'use':
            rs = provenance(body, st['rv']['op'], i, k, through=None)
            return bool(rs) and all(r.kind == 'agg' and r.extra.get('variant') == 'None' for r in rs)
        return False
    cleared = [i for i, k, st in body.stmts() if st['k'] == 'assign' and place_fields(st['lhs'])[-1:] == ['current'] and is_none(i, k, st)]
    oks = [i for i, k, st in body.stmts() if st['k'] == 'assign' and st['lhs'] == [0, []] and st['rv']['k'] == 'agg' and st['rv'].get('variant') == 'Ok']
    leak = []; n_env_ok = 0
    for c in env_calls:
        sw_ = switch_on_call(body, c)
        t_ = sw_.target('Some') if (sw_ is not None and sw_.kind == 'enum') else None
        if t_ is None:
            continue
        from_env = reachable_edges(body, t_, avoid=[c.bb])
        unc = reachable_edges(body, t_, avoid=[c.bb] + cleared)
        for o in oks:
            if o in from_env:
                n_env_ok += 1
                if o in unc: leak.append(body.where(o))
    ctx.ob('A.argument-precedence', 'take_argument:env-value-has-no-position', n_env_ok > 0 and not leak,
           'the Ok(value) reached from a successful environment lookup (%d site(s)) comes after `args.current = None`: %s' % (n_env_ok, leak or 'ok'), where=body.where(), cfg=cfg)
    cov = env_coverage(fs, body)
    ctx.ob('A.argument-precedence', 'take_argument:every-declared-variable', bool(cov) and all(v == 'all' for (_, v, _) in cov),
           'every variable declared with env() is consulted, in declaration order, until one is set: %s' % [d for (_, _, d) in cov], where=body.where(), cfg=cfg)
    # known finding: nothing tells take_argument that the item was already taken from the line by an earlier iteration of
    # a repetition, so many/some/last/count evaluate it once more, reach the variable, and an INVALID value there fails a
    # run whose line supplied valid values
    conds = set()
    for e in envb:
        for (a_, s_) in body.transitive_control_deps(e):
            sw_ = Switch(body, a_)
            rs_ = sw_.roots if sw_.kind != 'enum' else provenance(body, sw_.place, sw_.discr_site[0], sw_.discr_site[1], through=None)
            for r in rs_:
                conds.add('take_arg' if (r.kind == 'call' and (r.call.bb == ta.bb or r.call.is_(r'Try>::branch$'))) else '%s:%s' % (r.kind, r.what if r.kind != 'call' else short(r.call.name)))
    other = sorted(c_ for c_ in conds if c_ != 'take_arg')
    ctx.ob('R.repetition', 'take_argument:env-reconsulted-after-line-occurrences', bool(other),
           'the environment lookup of take_argument depends only on %s: inside a repetition it runs again after the occurrences on the line are used up (no marker says the item was already matched)' % sorted(conds), where=body.where(envb[0]) if envb else body.where(), cfg=cfg)
    # Ok values: only from take_arg or the env lookup
    srcs = set(); good = True
    for i, k, st in body.stmts():
        if st['k'] == 'assign' and st['lhs'] == [0, []] and st['rv']['k'] == 'agg' and st['rv'].get('variant') == 'Ok':
            for r in provenance(body, st['rv']['fields'][0], i, k):
                if r.kind == 'call' and r.call.bb == ta.bb:
                    srcs.add('take_arg')
                elif r.kind == 'call' and r.call.bb in envb:
                    srcs.add('env')
                else:
                    srcs.add('%s:%s' % (r.kind, r.what)); good = False
    ctx.ob('A.argument-precedence', 'take_argument:ok-sources', good and srcs == {'take_arg', 'env'},
           'values returned by take_argument come from %s' % sorted(srcs), where=body.where(), cfg=cfg)
    # J: single conversion in eval
    ev = ctx.look(fs.one(r'^<params::ParseArgument<T> as Parser<T>>::eval$'))
    conv = [c for c in ev.calls() if c.is_(r'from_os_str::parse_os_str$')]
    tk = [c for c in ev.calls() if c.is_(r'ParseArgument::<T>::take_argument$')]
    ok1 = len(conv) == 1 and len(tk) == 1
    ctx.ob('J.single-conversion', 'ParseArgument::eval:one-conversion', ok1,
           'ParseArgument::eval has %d take_argument call(s) and %d parse_os_str call(s)' % (len(tk), len(conv)), where=ev.where(), cfg=cfg)
    if ok1:
        roots = provenance(ev, conv[0].args[0], conv[0].bb, 'term', through=DEFAULT_THROUGH + [r'as std::ops::Try>::branch$'])
        ok2 = bool(roots) and all(r.kind == 'call' and r.call.bb == tk[0].bb for r in roots)
        ctx.ob('J.single-conversion', 'ParseArgument::eval:converts-what-was-taken', ok2,
               'parse_os_str converts exactly the value returned by take_argument (so command-line and environment values share conversion): %s' % roots,
               where=conv[0].where(), cfg=cfg)
        rets = ev.return_blocks()
        # every Ok return is dominated by the conversion
        oks = value_sites(ev, 'Ok')
        ok3 = bool(oks) and all(ev.dominates(conv[0].bb, o) for o in oks)
        ctx.ob('J.single-conversion', 'ParseArgument::eval:ok-needs-conversion', ok3, 'every Ok of ParseArgument::eval is dominated by parse_os_str', where=ev.where(), cfg=cfg)

def err_messages(body):
    """(bb, variant) of every error::Message aggregate built in the body"""
    out = []
    for i, k, st in body.stmts():
        if st['k'] == 'assign' and st['rv']['k'] == 'agg' and st['rv'].get('adt') == 'error::Message':
            out.append((i, st['rv']['variant']))
    return out

def absent(ctx, cfg, fs):
    for rx, nm in ((r'^<params::ParseFlag<T> as Parser<T>>::eval$', 'ParseFlag::eval'), (r'^params::ParseArgument::<T>::take_argument$', 'take_argument')):
        body = fs.one(rx)
        envb = env_lookup_blocks(fs, body)
        after = set()
        for e in envb:
            after |= body.reachable(e)
        ms = sorted({v for (b, v) in built_messages(fs, body) if b in after})
        ok = set(ms) <= {'Missing', 'NoEnv'} and 'Missing' in ms and 'NoEnv' in ms
        ctx.ob('M.both-absent', '%s:absent-errors' % nm, ok, '%s: errors built after the environment lookup failed: %s' % (nm, ms), where=body.where(), cfg=cfg)
    cc = ctx.look(fs.one(r'error::Message::can_catch$'))
    enum, table = enum_const_table(cc)
    for v in ('Missing', 'NoEnv'):
        ctx.ob('M.both-absent', 'can_catch:%s' % v, table.get(v) is True,
               'Message::can_catch(%s) = %s (absent item: optional/fallback wrappers may substitute their default)' % (v, table.get(v)), where=cc.where(), cfg=cfg)
