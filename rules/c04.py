"""C04 - running a parser is total, terminating and pure (structural clauses).

Decides:
 P.census     every panic-capable site of the crate (bounds checks, overflow asserts, Index/slice ops, unwrap/expect,
              explicit panics, drain/remove/truncate, process::exit) in every analysed configuration is covered by
              the hand-reviewed audit (audit/panic_audit.json: per function and site class, with the reason; sites of unreviewed helpers are charged to the reviewed functions that call them);
              budgets are per site CLASS (index, str-cut, vec-op, explicit, sub ...), so `&s[..i]` vs `s.split_at(i)` or
              `.unwrap()` vs `match .. None => unreachable!()` are the same obligation; more sites of a class than were
              reviewed, or a site not reachable only from reviewed functions, is a violation.
 P.grow       additions/multiplications of sizes, counts and indices of in-memory data cannot overflow usize before memory
              is exhausted: discharged automatically unless an operand is a huge constant or a number parsed from text.
 P.str-index  byte/char discipline: every index used to slice a str/String comes from byte-offset sources
              (char_indices, len, len_utf8, find, token byte counts ...), never from a character count/enumerate.
 P.nonempty   constructor invariants behind `[0]` / todo!(): NamedArg and ParseCommand.longs are only built with
              one element and only pushed to.
 P.dead-arm   Block::Meta (todo!() arms of the renderers) has no producer.
 P.exit       process::exit/abort sites are the listed ones (run; two completion-protocol exits = known findings).
 I.invariant  ParseAdjacent's unreachable!() is excluded by check_invariants: positional_invariant_check panics for an
              adjacent group without a first item (sibling agreement); ArgRangesIter yields only start positions it
              compared with the end of the scope (ParseAdjacent slices the ledger with `start..scope.end`).
 T.loops      every loop is driven by a finite std iterator (auto-discharged: the exit tests the None of a
              next()/find() on a slice/vec/str/range-like iterator that every iteration passes), or is a listed open
              loop whose variant is checked (parse_option strict progress + *len update with ONE counter per repetition,
              every way back to the call crossing a progress witness; cursor +1 iterators; Splitter: a word ends only at
              a separator that the prefix handlers consume, so an empty word can never be yielded forever).
 T.recursion  every call-graph cycle is a listed structural recursion (walkers over Meta / sections, Parser::eval over
              the finite parser tree) or descends structurally (every call inside the cycle passes a strict sub-part of
              a parameter of the caller).
 G.group-flag the no-nesting flag of append_meta::go is monotone (never reset to false on the way down), which
              find_group / write_help_item_groups rely on to drain non-empty ranges.
 U.purity     ambient effects (env, args, process, fs, time, io, thread_local) only at listed sites; no statics; no
              interior mutability (Cell/RefCell/Mutex/Atomic/UnsafeCell/OnceCell) in any crate type; Parser::eval and
              meta take &self; run_inner builds a fresh State from its argument.
 E exit sites      words right of `--` never reach the completion scanner (whose markers lead to process::exit): the pos_only test comes first (shared with C09).
 I doc invariants  tokens spliced from another Doc come with the payload they describe; write_str/write record byte lengths (the slicing of the
                   renderers relies on it); constant indexes into the slices handed to the completion renderers sit under a size test of that slice.
 U units           a byte offset / byte length of a string (char_indices, str::len, find ..) never reaches the index of a Vec or slice of non-byte
                   elements (tables laid out by character count: the edit-distance matrix of the "did you mean" helper) - forward taint per function family.
 N short names     split_os_argument (and its utf8 twin) never return an empty Short name: every such path pushed onto `name` first (State::construct
                   unwraps its first character).
 U hash order     no std hash container anywhere in the crate (iteration order differs between runs); I remove guard: State::remove only decrements for an
                   item inside the scope and present (shared with C05).
Does not decide: arithmetic facts the audit asserts (e.g. PADDING[..n]); user closures / FromStr assumed total."""
import re, json
from core import *
from dataflow import *
from cfgq import *
from parsers import *
import panics, c06

LEVEL = 'other'
EXPLANATION = __doc__
ASSUMPTIONS = ['user closures, FromStr impls and third-party Parser impls are total and pure',
               'std collections/iterators behave as documented; allocation failure and stack exhaustion on adversarially deep parser trees are out of scope',
               'audit/panic_audit.json reasons were established by reading the code (value-level arithmetic is asserted there, not re-derived)']
FLOORS = {'P.units': 12, 'P.census': 64, 'P.grow': 28, 'P.str-index': 12, 'P.nonempty': 6, 'P.dead-arm': 1, 'P.exit': 3, 'I.invariant': 3, 'T.loops': 83, 'T.recursion': 9, 'G.group-flag': 3, 'U.purity': 21, 'E.exit-sites': 2}

AUDIT = json.load(open(os.path.join(VERIF, 'audit/panic_audit.json')))['functions']

EXIT_SITES = {'info::OptionParser::<T>::run': 'documented behaviour of run()',
              "complete_run::ArgScanner::<'_>::check_next": 'KNOWN FINDING: exits inside run_inner after dumping a completer stub',
              'complete_gen::check_complete': 'KNOWN FINDING: exits inside run_inner on an unknown completion revision'}

def run(ctx):
    cfgs = ['none', 'all'] if ctx.tier == 'quick' else ['none', 'all', 'ac', 'doc', 'dull', 'bright', 'bat']
    ctx.preload(cfgs)
    for cfg in cfgs:
        fs = ctx.facts(cfg)
        ctx.guard(census, ctx, cfg, fs)
        ctx.guard(str_index, ctx, cfg, fs)
        ctx.guard(str_cut, ctx, cfg, fs)
        ctx.guard(unit_agreement, ctx, cfg, fs)
        ctx.guard(no_hash_order, ctx, cfg, fs)
        ctx.guard(nonempty, ctx, cfg, fs)
        ctx.guard(short_name_nonempty, ctx, cfg, fs)
        import consumers, c08 as c08k
        # `remaining -= 1` in State::remove cannot underflow because the item is known to be inside the scope and present (shared with C05)
        ctx.guard(c08k.keep_only, ctx, lambda: consumers.primitives(ctx, cfg, fs, 'I.invariant'), lambda o: o.key.startswith('remove:'), 'I.invariant')
        ctx.guard(dead_arm, ctx, cfg, fs)
        ctx.guard(invariant, ctx, cfg, fs)
        if any(p.startswith('complete_shell::render_') for p in fs.bodies):
            ctx.guard(guarded_const_index, ctx, cfg, fs)
        import docwalk
        ctx.guard(docwalk.payload_writers, ctx, cfg, fs, 'I.invariant')
        ctx.guard(docwalk.cursor_advance, ctx, cfg, fs, 'I.invariant')
        if fs.find(r'^buffer::manpage::escape::escape$', required=False):
            import c16
            ctx.guard(c08.keep_only, ctx, lambda: c16.escaper(ctx, cfg, fs), lambda o: 'table-closed' in o.key or 'verbatim' in o.key or 'Spaces' in o.key or 'non-ascii' in o.key, 'I.invariant')
        ctx.guard(loops, ctx, cfg, fs)
        ctx.guard(recursion, ctx, cfg, fs)
        ctx.guard(group_flag, ctx, cfg, fs)
        ctx.guard(purity, ctx, cfg, fs)
        import c08, c09
        ctx.guard(c08.keep_only, ctx, lambda: c09.tokenizer(ctx, cfg, fs), lambda o: 'pos-only' in o.key, 'E.exit-sites')

# Sites are budgeted per CLASS, not per spelling: `&s[..i]` and `s.split_at(i)`, `v[i]` through the Index trait and a
# bounds-checked array access, `.unwrap()` and `match .. None => unreachable!()` are the same obligation.
def site_class(kind, what):
    if kind == 'overflow':
        if what in ('Add', 'Mul', 'Shl'):
            return 'grow'
        return 'sub' if what in ('Sub', 'Neg') else 'arith:' + what
    if kind == 'assert':
        return 'div' if 'Zero' in what else 'assert:' + what
    if kind == 'bounds':
        return 'index'
    if kind == 'index':
        return 'str-cut' if re.match(r'index\[(&?str|String)\b', what) else 'index'
    if kind == 'slice-op':
        return 'str-cut' if what.startswith('str::') else 'index'
    if kind in ('string-op',):
        return 'str-cut'
    if kind == 'truncate':
        return 'str-cut' if 'String' in what else 'vec-op'
    if kind in ('unwrap', 'panic', 'diverge'):
        return 'explicit'
    return kind

LARGE = 1 << 31
USER_NUMBER = [r'FromStr>?::from_str$', r'str::<impl str>::parse', r'from_str_radix$']

def grow_sources(b, op, bb, idx, depth=0):
    """offending leaves of an addition/multiplication: a constant too large to be a size, or a number parsed from
    user text; everything else in this crate is a length, a count or an index of something held in memory"""
    bad = []
    for r in provenance(b, op, bb, idx, through=DEFAULT_THROUGH):
        if r.kind == 'const' and isinstance(r.what, int) and abs(r.what) >= LARGE:
            bad.append('constant %d' % r.what)
        elif r.kind == 'const' and isinstance(r.extra, dict) and re.search(r'::MAX$', r.extra.get('def', '') or ''):
            bad.append('constant %s' % r.extra.get('def'))
        elif r.kind == 'call' and any(r.call.is_(x) for x in USER_NUMBER):
            bad.append('number parsed from text (%s)' % short(r.call.name))
        elif r.kind == 'bin' and depth < 3:
            bad += grow_sources(b, r.extra['a'], r.site[0], r.site[1], depth + 1) + grow_sources(b, r.extra['b'], r.site[0], r.site[1], depth + 1)
    return bad

def audit_budget(a):
    out = {}
    for k, n in a['sites'].items():
        kind, what = k.split('|', 1)
        c = site_class(kind, what)
        out[c] = out.get(c, 0) + n
    return out

def charge_to(fs, fn, audited, cache):
    """the reviewed functions a panic-capable site inside the unreviewed function `fn` is charged to: walk the callers
    (calls, fn-item references, closure parents) upwards until reviewed functions are met.  None in the result means
    some way into `fn` starts at code that was never reviewed (a new entry point)."""
    if fn in cache:
        return cache[fn]
    cache[fn] = set()
    cal = fs.callers(); out = set(); seen = {fn}; st = [fn]
    while st:
        x = st.pop()
        ups = {outer(p) for p in cal.get(x, ())} | {outer(p) for p in cache.setdefault('__refs__', {}).get(x, ())}
        ups.discard(x)
        if not ups:
            out.add(None)
        for u in ups:
            if short(u) in audited:
                out.add(short(u))
            elif u not in seen:
                seen.add(u); st.append(u)
    cache[fn] = out
    return out

def census(ctx, cfg, fs):
    sites = panics.census(fs)
    refs = {}
    for b in fs.bodies.values():
        for (_, fn, _) in fn_refs(b):
            refs.setdefault(fn, set()).add(b.path)
    cache = {'__refs__': refs}
    observed = {}     # reviewed fn -> class -> [(site, via)]
    loose = []
    for s in sites:
        fn = short(s.fn)
        if s.kind == 'exit':
            continue
        cls = site_class(s.kind, s.what)
        if cls == 'grow':
            bad = []
            t = s.body.blocks[s.bb]['term']
            for o in t.get('ops', []):
                bad += grow_sources(s.body, o, s.bb, 'term')
            ctx.ob('P.grow', '%s|%s' % (fn, s.what), not bad,
                   '%s: %s of sizes/counts/indices of in-memory data cannot overflow usize before memory is exhausted (operands: %s): %s' % (fn, s.what, s.desc[:80], bad or 'ok'), where=s.where(), cfg=cfg)
            continue
        if fn in AUDIT:
            observed.setdefault(fn, {}).setdefault(cls, []).append((s, None))
        else:
            tg = charge_to(fs, s.fn, AUDIT, cache)
            if None in tg or not tg:
                loose.append((s, cls))
            for t_ in tg:
                if t_ is not None:
                    observed.setdefault(t_, {}).setdefault(cls, []).append((s, fn))
    per_exit = {}
    for s in sites:
        if s.kind == 'exit':
            per_exit.setdefault(short(s.fn), []).append(s)
    for fn, ss in sorted(per_exit.items()):
        ok = fn in EXIT_SITES
        known = ok and 'KNOWN FINDING' in EXIT_SITES[fn]
        ctx.ob('P.exit', 'exit:%s' % fn, ok and not known, '%s calls process::exit: %s' % (fn, EXIT_SITES.get(fn, 'NOT a listed exit site: a process exit inside parsing/rendering')), where=ss[0].where(), cfg=cfg)
    for fn, classes in sorted(observed.items()):
        a = AUDIT[fn]; budget = audit_budget(a)
        for cls, ss in sorted(classes.items()):
            allowed = budget.get(cls, 0)
            ok = len(ss) <= allowed
            helpers = sorted({v for (_, v) in ss if v})
            if allowed == 0:
                why = 'no site of this class was reviewed in this function (reviewed: %s)' % sorted(budget)
            elif not ok:
                why = '%d sites, only %d were reviewed' % (len(ss), allowed)
            else:
                why = a['reason']
            ctx.ob('P.census', '%s|%s' % (fn, cls), ok, '%s: %d panic-capable site(s) of class %s%s [%s]: %s' % (
                fn, len(ss), cls, (' (incl. helpers %s)' % helpers) if helpers else '', ss[0][0].desc[:80], why), where=ss[0][0].where(), cfg=cfg)
            ctx.look(ss[0][0].body)
    for (s, cls) in loose:
        ctx.ob('P.census', '%s|%s' % (short(s.fn), cls), False, '%s: panic-capable site of class %s (%s %s) [%s] in a function that is neither reviewed nor reachable only from reviewed functions: new panic-capable code' % (
            short(s.fn), cls, s.kind, s.what, s.desc[:80]), where=s.where(), cfg=cfg)

BYTE_SOURCES = [r'CharIndices.*next$', r'str::<impl str>::len$', r'String::len$', r'len_utf8$', r'str::<impl str>::(find|rfind)$', r'OsStr::len$',
                r'Iterator>?::position$']

def nonempty_edges(b, param_local, need=1):
    """edges (block, target) whose being taken implies that the parameter slice has at least `need` elements"""
    pname = b.name_of(param_local)
    def of_param(op, bb, ix):
        for r in provenance(b, op, bb, ix, through=None):
            if r.kind == 'call' and r.call.is_(r'core::slice::<impl \[T\]>::len$', r'Vec::<.*>::len$'):
                if any(q.kind == 'param' and q.what == pname for q in provenance(b, r.call.args[0], r.call.bb, 'term')):
                    return True
            if r.kind == 'un' and r.extra.get('op') == 'PtrMetadata' and any(q.kind == 'param' and q.what == pname for q in provenance(b, r.extra['a'], r.site[0], r.site[1])):
                return True
        return False
    out = []
    for sw in switches(b):
        if sw.kind == 'bool':
            for r in sw.roots:
                if r.kind == 'call' and not r.path and r.call.is_(r'core::slice::<impl \[T\]>::is_empty$', r'Vec::<.*>::is_empty$') and need <= 1 and \
                        any(q.kind == 'param' and q.what == pname for q in provenance(b, r.call.args[0], r.call.bb, 'term')):
                    out.append((sw.b, sw.target(False)))
                elif r.kind == 'bin' and r.extra['op'] in ('Eq', 'Ne', 'Gt', 'Ge', 'Lt', 'Le'):
                    for (x, y, flip) in ((r.extra['a'], r.extra['b'], False), (r.extra['b'], r.extra['a'], True)):
                        k_ = (op_const(y) or {}).get('v')
                        if not isinstance(k_, int) or isinstance(k_, bool) or not of_param(x, r.site[0], r.site[1]):
                            continue
                        op_ = r.extra['op']
                        if flip:
                            op_ = {'Gt': 'Lt', 'Lt': 'Gt', 'Ge': 'Le', 'Le': 'Ge'}.get(op_, op_)
                        # len OP k
                        if op_ == 'Eq' and k_ >= need: out.append((sw.b, sw.target(True)))
                        elif op_ == 'Ne' and k_ == 0 and need <= 1: out.append((sw.b, sw.target(True)))
                        elif op_ == 'Eq' and k_ == 0 and need <= 1: out.append((sw.b, sw.target(False)))
                        elif op_ == 'Gt' and k_ + 1 >= need: out.append((sw.b, sw.target(True)))
                        elif op_ == 'Ge' and k_ >= need: out.append((sw.b, sw.target(True)))
                        elif op_ == 'Lt' and k_ >= need: out.append((sw.b, sw.target(False)))
                        elif op_ == 'Le' and k_ + 1 >= need: out.append((sw.b, sw.target(False)))
        elif sw.kind == 'int' and of_param(b.term(sw.b)['op'], sw.b, 'term'):
            # slice pattern `[a]`, `[a, b]`: the value switched on is the length
            for v, t in sw.edges.items():
                if isinstance(v, int) and not isinstance(v, bool) and v >= need:
                    out.append((sw.b, t))
    return out

def guarded_const_index(ctx, cfg, fs):
    """`items[0]` in a completion renderer is safe only under a test of the size of `items`: the renderers receive an empty `items`
    whenever the only thing to offer is a shell action (`ops`), so "the no-candidates case was handled above" is not an argument
    unless that early return tested `items` alone.  Every bounds check with a constant index into a parameter slice is control
    dependent on a size test of that same slice."""
    import c15
    n = 0
    for b in sorted(fs.bodies.values(), key=lambda x: x.path):
        if b.kind == 'closure' or not re.match(r'^complete_shell::render_\w+$', b.path):
            continue
        ctx.look(b)
        params = {b.name_of(i): i for i in range(1, b.arg_count + 1)}
        bad = []
        for i, blk in enumerate(b.blocks):
            t = blk['term']
            if t['k'] != 'assert' or t.get('msg') != 'BoundsCheck' or len(t.get('ops', [])) != 2:
                continue
            lenop, idxop = t['ops'][0], t['ops'][1]
            idx = provenance(b, idxop, i, 'term', through=None)
            if not (idx and all(r.kind == 'const' for r in idx)):
                continue
            owners = set()
            for r in provenance(b, lenop, i, 'term', through=None):
                if r.kind == 'param':
                    owners.add(r.what)
                elif r.kind == 'un' and r.extra.get('op') == 'PtrMetadata':
                    owners |= {q.what for q in provenance(b, r.extra['a'], r.site[0], r.site[1]) if q.kind == 'param'}
                elif r.kind == 'call' and r.call.is_(r'::len$'):
                    owners |= {q.what for q in provenance(b, r.call.args[0], r.call.bb, 'term') if q.kind == 'param'}
            for o in owners:
                if o not in params:
                    continue
                n += 1
                # edges that imply "the slice has at least max(index)+1 elements" (here: is non-empty / has a known length >= 1)
                need = max([r.what for r in idx if isinstance(r.what, int)] or [0]) + 1
                edges = nonempty_edges(b, params[o], need)
                if i in reachable_edges(b, 0, removed_edges=edges):
                    bad.append('%s[%s] at %s' % (o, '|'.join(str(r.what) for r in idx), b.where(i)))
        ctx.ob('I.invariant', '%s:constant-index-under-size-test' % short(b.path), not bad, '%s indexes its parameter slices with a constant only under a test of that slice\'s size: %s' % (short(b.path), bad or 'ok'), where=b.where(), cfg=cfg)
    if n == 0 and any(re.match(r'^complete_shell::render_\w+$', p) for p in fs.bodies):
        raise Broken('guarded_const_index: no constant index into a parameter slice found in the renderers')

def str_index(ctx, cfg, fs):
    for s in panics.census(fs):
        if s.kind != 'index' or not re.search(r'index\[(str|String|&str)', s.what):
            continue
        b = s.body; c = b.call_at(s.bb)
        # the range aggregate
        rs = provenance(b, c.args[1], c.bb, 'term', through=None)
        bad = []; n = 0
        for r in rs:
            if r.kind != 'agg' or 'Range' not in r.what:
                n += 1
                bad += classify_byte_index(b, c.args[1], c.bb, 'term')
                continue
            for f in r.extra['fields']:
                n += 1
                bad += classify_byte_index(b, f, r.site[0], r.site[1])
        ctx.ob('P.str-index', '%s|slice|%s' % (short(s.fn), s.desc.split(',')[0][:50]), not bad,
               '%s: slice bounds of a str are byte offsets (%d bound(s)): %s' % (short(s.fn), n, bad or 'ok'), where=s.where(), cfg=cfg)

def _mentions(rv):
    out = set()
    def op(o):
        pl = op_place(o) if isinstance(o, list) else None
        if pl: out.add(pl[0])
    for k in ('op', 'a', 'b'):
        if k in rv and isinstance(rv[k], list): op(rv[k])
    for f in rv.get('fields', []): op(f)
    if isinstance(rv.get('place'), list) and rv['place'] and isinstance(rv['place'][0], int): out.add(rv['place'][0])
    return out

def unit_agreement(ctx, cfg, fs):
    """byte offsets and character counts are different units.  A BYTE offset (the position yielded by char_indices(), str::len(),
    OsStr::len()) is a valid bound for slicing the same string, never an index into a table that was laid out by CHARACTER count
    (any Vec / slice whose elements are not bytes): with non-ASCII text the offset runs past the table and the access panics.
    Forward taint per function family: the results of those calls, through assignments, arithmetic and calls of local closures,
    must not reach the index operand of Index / IndexMut / get / get_mut on a Vec or slice of non-u8 elements."""
    SRC = [r'CharIndices.*Iterator>?::next$', r'str>?::len$', r'OsStr::len$', r'String::len$', r'str>?::find', r'str>?::rfind', r'MatchIndices.*::next$']
    n = 0
    roots = sorted({p.split('::{closure')[0] for p in fs.bodies if p.split('::{closure')[0] in fs.bodies})
    for root in roots:
        fam = fs.family(fs.bodies[root])
        if not any(c.is_(*SRC) for x in fam for c in x.calls()):
            continue
        n += 1
        hits = []
        closure_tainted = False
        for rnd in range(2):
            for x in fam:
                b = ctx.look(x) if not hasattr(x, 'stmts') else x
                taint = set()
                if closure_tainted and '{closure' in b.path:
                    taint |= set(range(1, b.arg_count + 1))
                changed = True
                while changed:
                    changed = False
                    for i, k, st in b.stmts():
                        if st['k'] == 'assign' and st['lhs'][0] not in taint and (_mentions(st['rv']) & taint):
                            taint.add(st['lhs'][0]); changed = True
                    for c in b.calls():
                        args_t = any(a[0] != 'c' and a[1][0] in taint for a in c.args)
                        if c.dest and c.dest[0] not in taint and (c.is_(*SRC) or (args_t and not c.is_(r'Index(Mut)?<.*>>::index(_mut)?$', r'::get(_mut)?$'))):
                            if c.is_(*SRC) and not c.is_(r'Iterator>?::next$') or c.is_(r'CharIndices.*Iterator>?::next$', r'MatchIndices.*::next$') or args_t:
                                taint.add(c.dest[0]); changed = True
                for c in b.calls():
                    if c.is_(r'Index(Mut)?<.*>>::index(_mut)?$', r'slice::<impl \[T\]>::get(_mut)?$', r'Vec<.*>::get') and len(c.args) >= 2:
                        recv = b.local_ty(c.args[0][1][0]) if c.args[0][0] != 'c' else ''
                        if re.search(r'\bstr\b|String|OsStr|\[u8\]|Vec<u8', recv):
                            continue
                        if c.args[1][0] != 'c' and c.args[1][1][0] in taint:
                            hits.append('%s indexed by a value derived from a byte offset at %s' % (recv, b.where(c.bb)))
                    # a tainted value handed to a closure of the family taints its parameters
                    if any(a[0] != 'c' and a[1][0] in taint for a in c.args) and re.search(r'Fn(Mut|Once)?<.*>>::call', c.full):
                        closure_tainted = True
        ctx.ob('P.units', '%s:byte-offsets-do-not-index-tables' % short(root), not hits,
               '%s obtains byte offsets / byte lengths of strings; none of them reaches the index of a Vec or slice of non-byte elements: %s' % (short(root), sorted(set(hits)) or 'ok'), where=fs.bodies[root].where() if hasattr(fs.bodies[root], 'where') else None, cfg=cfg)
    if n == 0:
        raise Broken('unit_agreement: no function obtains a byte offset (sources not recognised)')

def no_hash_order(ctx, cfg, fs):
    """same parser + same arguments => same outcome, byte for byte.  std's HashMap / HashSet iterate in an order that differs between
    instances (RandomState), so anything rendered or decided by walking one differs from run to run.  The library uses no hash
    containers at all (Vec / BTreeMap keep an order that depends on the data only); the rule keeps it that way."""
    hits = sorted({'%s in %s' % (re.sub(r'::<.*', '', n_), short(outer(b.path))) for b in fs.bodies.values() for c in b.calls() for n_ in c.names[:1]
                   if re.search(r'std::collections::(hash|HashMap|HashSet)|hash::map::HashMap|hash::set::HashSet|RandomState|hash_map::|hash_set::', c.full)})
    tys = sorted({'%s: %s' % (short(outer(b.path)), b.local_ty(l)[:60]) for b in fs.bodies.values() for l in range(len(b.locals)) if re.search(r'\bHash(Map|Set)<', b.local_ty(l) or '')})
    ctx.ob('U.purity', 'no-hash-ordered-containers', not hits and not tys, 'calls into std hash containers: %s; locals of a hash container type: %s (%d functions scanned)' % (hits or 'none', tys[:5] or 'none', len(fs.bodies)), cfg=cfg)

def str_cut(ctx, cfg, fs):
    """String::truncate / split_off / insert / remove / drain / replace_range / str::split_at take byte offsets that
    must be char boundaries: the offset must come from a length/offset of (a prefix of) a string, not from a constant
    or a character count"""
    for b in fs.bodies.values():
        for c in b.calls():
            if not c.is_(r'^std::string::String::(truncate|split_off|insert|insert_str|remove)$', r'str::<impl str>::split_at(_mut)?$'):
                continue
            bad = classify_byte_index(b, c.args[1], c.bb, 'term')
            THR = DEFAULT_THROUGH + [r'Ord>?::(min|max)$', r'num::<impl usize>::(min|max|saturating_sub|checked_sub)$']
            for r in provenance(b, c.args[1], c.bb, 'term', through=THR):
                if r.kind == 'const' and r.what not in (0,):
                    bad.append('constant %r (not known to be a char boundary)' % (r.what,))
            # min/max with a constant
            for r in provenance(b, c.args[1], c.bb, 'term', through=DEFAULT_THROUGH):
                if r.kind == 'call' and r.call.is_(r'Ord>?::(min|max)$', r'::(min|max)$'):
                    for a in r.call.args:
                        for q in provenance(b, a, r.call.bb, 'term'):
                            if q.kind == 'const' and q.what not in (0,):
                                bad.append('clamped with the constant %r (may fall inside a multi-byte character)' % (q.what,))
            ctx.ob('P.str-index', '%s|%s' % (short(outer(b.path)), c.name.split('::')[-1]), not bad,
                   '%s: %s is given a byte offset that is a char boundary by construction: %s' % (short(b.path), c.name.split('::')[-1], bad or 'ok'), where=c.where(), cfg=cfg)

def classify_byte_index(b, op, bb, idx, depth=0):
    """offending sources of a slice bound: values that are positively character/item COUNTS (enumerate index over
    chars or items, chars().count(), position over chars); unknown sources are left to the audited census"""
    bad = []
    for r in provenance(b, op, bb, idx, through=DEFAULT_THROUGH + [r'Try>::branch$', r'Option::<.*>::(unwrap_or|copied|cloned)$', r'as std::clone::Clone>::clone$', r'num::<impl usize>::(checked_sub|checked_add|saturating_sub|min|max)$']):
        if r.kind == 'call':
            if r.call.is_(r'Enumerate.*next$') and r.path[-1:] == ['0'] and 'bytes' not in r.path:
                bad.append('enumerate index (a count of characters/items, not a byte offset)')
            elif r.call.is_(r'Chars.*count$', r'Iterator>?::count$'):
                bad.append('character count')
            elif r.call.is_(r'Iterator>?::position$') and 'Chars' in r.call.full:
                bad.append('position among characters')
        elif r.kind == 'bin' and depth < 4:
            bad += classify_byte_index(b, r.extra['a'], r.site[0], r.site[1], depth + 1)
            bad += classify_byte_index(b, r.extra['b'], r.site[0], r.site[1], depth + 1)
    return bad

def _recv_local(b, c):
    pl = op_place(c.args[0]) if c.args else None
    if pl is None: return None
    if pl[0] in b.local_names and not pl[1]: return pl[0]
    for (_, _, k, st) in reaching_defs(b, pl[0], c.bb, 'term'):
        if k == 'assign' and st['rv']['k'] == 'ref' and not st['rv']['place'][1]:
            return st['rv']['place'][0]
    return None

def short_name_nonempty(ctx, cfg, fs):
    """State::construct takes the first character of every short name the splitter hands it (`short.chars().next().unwrap()`): the
    splitter must not hand out an EMPTY short name.  Abstract walk of split_os_argument (and of its utf8-only fallback twin): every
    path that returns Some((ArgType::Short, name, ..)) has pushed at least one element onto `name`."""
    from absint import Walker, UNKNOWN
    for rx in (r'^arg::split_os_argument$', r'^arg::split_os_argument_fallback$'):
        cands = fs.find(rx, required=False)
        if not cands:
            continue
        b = ctx.look(cands[0])
        if not any(c.is_(r'(Vec::<.*>|String)::push$') for c in b.calls()):
            continue        # the non-unix/windows shim that only forwards to the fallback
        def model(wk, c, store, b=b):
            # `name.is_empty()` / `name.len()` before anything was pushed: known to be empty
            if b.local_names.get(_recv_local(b, c)) == 'name':
                if c.is_(r'(Vec::<.*>|String)::push$'):
                    store['#pushed'] = ('c', True)
                elif c.is_(r'(Vec::<.*>|String|slice::<impl \[T\]>|str>?)::is_empty$') and '#pushed' not in store:
                    return ('c', True)
            return None
        model.first = True
        w = Walker(b, call_model=model, max_paths=6000, max_visits=2)
        n = 0; bad = []
        for pth in w.run():
            r = pth.ret
            if pth.end != 'return' or r is UNKNOWN or r[0] != 'agg' or r[2] != 'Some':
                continue
            t = r[3][0] if r[3] else UNKNOWN
            ty = t[3][0] if (t is not UNKNOWN and t[0] == 'agg' and t[3]) else UNKNOWN
            if ty is UNKNOWN:
                bad.append('a return whose ArgType is not a constant'); continue
            if (ty[2] if ty[0] == 'agg' else ty[1]) != 'Short':
                continue
            n += 1
            pushed = [c for (blk, c) in pth.calls if c.is_(r'(Vec::<.*>|String)::push$') and b.local_names.get(_recv_local(b, c)) == 'name']
            if not pushed:
                bad.append('a path returning a Short name without a single push onto `name` (through blocks %s)' % pth.blocks[-6:])
        ctx.ob('P.nonempty', '%s:short-name-nonempty' % short(b.path), n > 0 and not bad,
               '%s: %d path(s) return a Short name; each has pushed at least one element onto the name: %s' % (short(b.path), n, sorted(set(bad))[:2] or 'ok'), where=b.where(), cfg=cfg)

def nonempty(ctx, cfg, fs):
    # NamedArg aggregates: who builds them, with what
    builders = {}
    for b in fs.bodies.values():
        for i, k, st in b.stmts():
            if st['k'] == 'assign' and st['rv']['k'] == 'agg' and st['rv'].get('adt') == 'params::NamedArg':
                builders.setdefault(outer(b.path), []).append((b, i, k, st))
    want = {'short', 'long', 'env'}
    ok = set(builders) <= (want | {'<params::NamedArg as std::clone::Clone>::clone'}) and want <= set(builders)
    ctx.ob('P.nonempty', 'NamedArg:builders', ok, 'NamedArg values are built only by %s (each with exactly one name)' % sorted(builders), cfg=cfg)
    for fn in sorted(want & set(builders)):
        for (b, i, k, st) in builders[fn]:
            names = st['rv']['field_names']
            nonempty_fields = 0
            for f in ('short', 'long', 'env'):
                rs = provenance(b, st['rv']['fields'][names.index(f)], i, k, through=None)
                if any(r.kind == 'call' and r.call.is_(r'box_assume_init_into_vec|into_vec|from_elem') for r in rs):
                    nonempty_fields += 1
            ctx.ob('P.nonempty', 'NamedArg:%s:one-name' % fn, nonempty_fields == 1, '%s() builds a NamedArg with exactly one non-empty name list (%d)' % (fn, nonempty_fields), where=b.where(i), cfg=cfg)
    # nobody removes names
    shrink = []
    for b in fs.bodies.values():
        for c in b.calls():
            if c.is_(r'Vec::<.*>::(clear|pop|remove|truncate|drain|retain|swap_remove)$'):
                rs = provenance(b, c.args[0], c.bb, 'term')
                for r in rs:
                    if (r.path and r.path[-1] in ('short', 'long', 'env', 'longs')) and ('named' in r.path or 'NamedArg' in b.local_ty(0) or 'longs' in r.path):
                        shrink.append(c.where())
    ctx.ob('P.nonempty', 'names:never-shrunk', not shrink, 'no code removes entries from NamedArg.short/long/env or ParseCommand.longs: %s' % (shrink or 'ok'), cfg=cfg)
    # ParseCommand.longs built as vec![name] by every builder
    allowed = {'params::<impl info::OptionParser<T>>::command', 'command', '<params::ParseCommand<T> as std::clone::Clone>::clone'}
    seen = set(); good = True
    for x in fs.bodies.values():
        for i, k, st in x.stmts():
            if st['k'] == 'assign' and st['rv']['k'] == 'agg' and st['rv'].get('adt') == 'params::ParseCommand':
                seen.add(outer(x.path))
                if 'Clone' in x.path:
                    continue
                names = st['rv']['field_names']
                rs = provenance(x, st['rv']['fields'][names.index('longs')], i, k, through=None)
                good &= bool(rs) and all(r.kind == 'call' and r.call.is_(r'box_assume_init_into_vec|into_vec') for r in rs)
    ctx.ob('P.nonempty', 'ParseCommand:longs-nonempty', good and seen <= allowed and bool(seen), 'ParseCommand is built only by %s, always with longs = vec![name]: %s' % (sorted(seen), good), cfg=cfg)

def dead_arm(ctx, cfg, fs):
    producers = []
    for b in fs.bodies.values():
        if re.search(r'buffer::Block as', b.path):
            continue
        for i, k, st in b.stmts():
            if st['k'] == 'assign' and st['rv']['k'] == 'agg' and st['rv'].get('adt') == 'buffer::Block' and st['rv'].get('variant') == 'Meta':
                producers.append(b.where(i))
    outside = [p for p in producers if 'render_manpage' not in p]
    ctx.ob('P.dead-arm', 'Block::Meta:producers', not outside, 'Block::Meta tokens are produced only inside render_manpage (whose document goes to render_roff, which handles them), so the todo!() arms for Block::Meta in render_html/render_markdown are dead: %s' % (outside or '%d producer site(s), all in render_manpage' % len(producers)), cfg=cfg)

def invariant(ctx, cfg, fs):
    b = ctx.look(fs.one(r'^meta::Meta::positional_invariant_check::go$'))
    sw = [s for s in switches(b) if s.kind == 'enum' and s.enum == 'meta::Meta']
    ok = False; detail = 'no Meta switch'
    if sw:
        t = sw[0].target('Adjacent')
        fi = [c for c in b.calls() if c.is_(r'^meta::Meta::first_item$') and c.bb in reachable_edges(b, t, avoid=[x for o, x in sw[0].edges.items() if x != t])]
        if fi:
            s2 = switch_on_call(b, fi[0])
            if s2 is not None and s2.target('None') is not None:
                reach = reachable_edges(b, s2.target('None'))
                pan = [c for c in b.calls() if c.bb in reach and c.target is None and c.is_(r'panic')]
                rets = [r for r in b.return_blocks() if r in reach]
                ok = bool(pan) and not rets
                detail = 'first_item(..) == None leads to %s' % ('a panic on every path' if ok else 'a normal return (%d) / panic (%d)' % (len(rets), len(pan)))
    ctx.ob('I.invariant', 'positional_invariant_check:adjacent-needs-first-item', ok, 'check_invariants rejects an adjacent group without a first item: %s' % detail, where=b.where(), cfg=cfg)
    a = ctx.look(fs.one(r'^<structs::ParseAdjacent<P> as Parser<T>>::eval$'))
    fi = [c for c in a.calls() if c.is_(r'^meta::Meta::first_item$')]
    ok2 = False
    if fi:
        s2 = switch_on_call(a, fi[0])
        if s2 is not None and s2.target('None') is not None:
            reach = reachable_edges(a, s2.target('None'))
            pans = [c for c in a.calls() if c.target is None and c.is_(r'panic')]
            ok2 = bool(pans) and all(c.bb in reach and only_via_edge(a, s2.b, s2.target('None'), c.bb) for c in pans)
    ctx.ob('I.invariant', 'ParseAdjacent::eval:panic-only-without-first-item', ok2, 'the only explicit panic of ParseAdjacent::eval lies on the edge where first_item(meta) is None - the same condition check_invariants rejects: %s' % ok2, where=a.where(), cfg=cfg)

    # ArgRangesIter: ParseAdjacent narrows the scope to `start..scope.end` for every start it is given, so a start
    # beyond the end of the scope would slice the ledger with an inverted range
    it = ctx.look(fs.one(r"^<args::inner::ArgRangesIter<'a> as std::iter::Iterator>::next$"))
    somes = value_sites(it, 'Some')
    guards = []
    for sw in switches(it):
        if sw.kind != 'bool': continue
        for r in sw.roots:
            if r.kind == 'bin' and r.extra['op'] in ('Gt', 'Lt', 'Ge', 'Le'):
                ka = provenance(it, r.extra['a'], r.site[0], r.site[1]); kb = provenance(it, r.extra['b'], r.site[0], r.site[1])
                def is_cur(q): return (q.kind == 'param' and q.what == 'self' and q.path[-1:] == ['cur']) or (q.kind == 'bin' and q.extra['op'].startswith('Add') and q.path == ['0'])   # cur, or cur advanced by the previous iteration
                def is_end(q): return q.kind == 'param' and q.what == 'self' and q.path[-2:] == ['scope', 'end']
                if ka and kb and all(is_cur(q) for q in ka) and all(is_end(q) for q in kb):
                    inside = {'Gt': False, 'Le': True, 'Lt': True, 'Ge': False}[r.extra['op']]      # cur <= end (or cur < end)
                    if r.extra['op'] != 'Ge': guards.append((sw.b, sw.target(inside)))
                elif ka and kb and all(is_end(q) for q in ka) and all(is_cur(q) for q in kb):
                    inside = {'Lt': False, 'Ge': True, 'Gt': True, 'Le': False}[r.extra['op']]
                    if r.extra['op'] != 'Le': guards.append((sw.b, sw.target(inside)))
    ok3 = bool(somes) and bool(guards) and all(any(only_via_edge(it, g[0], g[1], s_) for g in guards) for s_ in somes)
    ctx.ob('I.invariant', 'ArgRangesIter::next:start-within-scope', ok3,
           'every start position ArgRangesIter yields was compared with the end of the current scope first (%d yield site(s), %d guard(s)): %s' % (len(somes), len(guards), ok3), where=it.where(), cfg=cfg)

FINITE_ITER = re.compile(r'^<(&mut )?(std::slice::Iter(Mut)?<|std::vec::IntoIter<|std::vec::Drain<|std::str::Chars<|std::str::CharIndices<|std::str::Split|std::str::Lines|std::ops::Range<|std::ops::RangeInclusive<|'
                         r'std::iter::(Enumerate|Zip|Rev|Filter|FilterMap|Map|Copied|Cloned|Skip|Take|TakeWhile|SkipWhile|Chain|Peekable|Flatten|FlatMap)<|std::option::(Iter|IntoIter)<|'
                         r'std::collections::|std::boxed::Box<dyn std::iter::ExactSizeIterator|std::env::ArgsOs|std::array::IntoIter<|core::str::|std::slice::|std::vec::|std::str::|std::string::Drain)')
INFINITE = re.compile(r'std::iter::(Repeat|RepeatWith|Cycle|FromFn|Successors)|RangeFrom')

OPEN_LOOPS = {
    '<structs::ParseSome<P> as Parser<std::vec::Vec<T>>>::eval': 'variant: parse_option returns Some only on strict decrease of the remaining-item count (C06.K3 strict-progress + K5 loop exit)',
    '<structs::ParseCount<P, T> as Parser<usize>>::eval': 'variant: parse_option strict progress; additionally breaks when nothing was consumed',
    '<structs::ParseLast<P> as Parser<T>>::eval': 'variant: parse_option strict progress; additionally breaks when nothing was consumed',
    '<structs::ParseAdjacent<P> as Parser<T>>::eval': 'outer: ArgRangesIter (cursor +1 up to scope.end); inner loop: returns, breaks, or re-enters with the strictly smaller adjacent_scope (adjacent_scope returns None when the proposed scope equals the current one)',
    "<args::inner::ArgRangesIter<'a> as std::iter::Iterator>::next": 'cursor +1 per iteration, returns None once cur > scope.end',
    "<args::inner::ArgsIter<'a> as std::iter::Iterator>::next": 'cursor +1 per iteration, returns None once outside the scope',
    "<meta_help::HelpItemsIter<'a, 'b> as std::iter::Iterator>::next": 'cursor +1 per iteration, returns None at the end of the item list',
    'meta_help::<impl buffer::Doc>::write_help_item_groups': 'each iteration drains the non-empty inclusive range returned by find_group (groups do not nest: rule G.group-flag)',
    'arg::split_os_argument': 'consumes one element of a finite byte/u16 iterator per iteration',
    'args::inner::State::construct': 'for loop over the caller-supplied ExactSizeIterator of arguments',
}
CRATE_ITERS = {'args::inner::ArgsIter': 'cursor iterator, see its next()', 'args::inner::ArgRangesIter': 'cursor iterator, see its next()', 'meta_help::HelpItemsIter': 'cursor iterator',
               'buffer::splitter::Splitter': 'every Some returned shortens the remaining input (strip_prefix/split_once/slicing at a positive offset) - audited',
               'buffer::manpage::monoid::AnnotatedSlicesIter': 'cursor +1 bounded by get(current)?'}

def natural_loop(body, src, hdr):
    loop = {hdr, src}; st = [src]
    while st:
        x = st.pop()
        if x == hdr: continue
        for p in body.pred(x):
            if p not in loop:
                loop.add(p); st.append(p)
    return loop

def loops(ctx, cfg, fs):
    for b in sorted(fs.bodies.values(), key=lambda x: x.path):
        bes = b.back_edges()
        if not bes:
            continue
        ctx.look(b)
        hdrs = {}
        for (s_, h) in bes:
            hdrs.setdefault(h, set()).update(natural_loop(b, s_, h))
        n = 0
        for h, loop in sorted(hdrs.items()):
            n += 1
            srcs = [s_ for (s_, hh) in bes if hh == h]
            # driver: a call to Iterator::next/next_back/find.. inside the loop that dominates every back edge source
            drivers = []
            for x in loop:
                c = b.call_at(x)
                if c and c.is_(r'Iterator>?::(next|next_back)\b') and all(b.dominates(x, s_) for s_ in srcs):
                    sw = switch_on_call(b, c)
                    exits = sw is not None and sw.kind == 'enum' and sw.target('None') is not None and sw.target('None') not in loop
                    # `?` on the Option also leaves the loop
                    drivers.append((c, exits))
            verdict = None; why = ''
            for (c, exits) in drivers:
                recv = c.callee.get('gargs', [''])[0] if c.callee.get('gargs') else ''
                full = c.full
                m = re.match(r'^<(.*) as std::iter::Iterator>::', full)
                ty = m.group(1) if m else recv
                if not exits:
                    continue
                if INFINITE.search(ty):
                    continue
                crate_it = [k for k in CRATE_ITERS if k in ty]
                if crate_it:
                    verdict = 'crate-iterator'; why = 'driven by %s (%s)' % (crate_it[0], CRATE_ITERS[crate_it[0]]); break
                if re.match(r'^(&mut )?<?[A-Z]\w* as std::iter::IntoIterator>::IntoIter$|^[A-Z]\w*$|^<[A-Z]\w* as std::iter::IntoIterator>::IntoIter$|^<impl IntoIterator<.*> as std::iter::IntoIterator>::IntoIter$|^impl (Into)?Iterator<', ty):
                    verdict = 'caller-iterator'; why = 'driven by an iterator supplied by the caller (%s), finite by assumption' % ty; break
                if FINITE_ITER.match('<' + ty) or FINITE_ITER.match('<' + ty.lstrip('&mut ')):
                    verdict = 'finite-iterator'; why = 'every iteration takes the next element of %s and the loop is left on None' % ty[:80]; break
            if verdict is None and any(c.is_(r'^structs::parse_option$') and c.bb in loop for c in b.calls()):
                verdict = 'parse_option-driven'; why = 're-entered only after parse_option made strict progress (variant:parse_option-progress below)'
            if verdict is None:
                o = outer(b.path)
                if b.path in OPEN_LOOPS or o in OPEN_LOOPS:
                    verdict = 'listed'; why = OPEN_LOOPS.get(b.path, OPEN_LOOPS.get(o))
            ctx.ob('T.loops', '%s|loop%d|%s' % (short(b.path), n if len(hdrs) > 1 else 1, verdict or 'unclassified'), verdict is not None,
                   '%s: loop %s' % (short(b.path), ('%s: %s' % (verdict, why)) if verdict else 'is not driven by a finite iterator and is not a listed open loop: no termination argument'),
                   where=b.where(h), cfg=cfg)
    # variants of the listed cursor iterators: +1 per iteration
    for rx in (r"^<args::inner::ArgRangesIter<'a> as std::iter::Iterator>::next$", r"^<args::inner::ArgsIter<'a> as std::iter::Iterator>::next$", r"^<meta_help::HelpItemsIter<'a, 'b> as std::iter::Iterator>::next$"):
        b = fs.one(rx)
        bes = b.back_edges()
        incs = [i for i, k, st in b.stmts() if st['k'] == 'assign' and st['rv']['k'] == 'bin' and st['rv']['op'].startswith('Add') and (op_const(st['rv']['b']) or {}).get('v') == 1
                and 'cur' in place_fields(op_place(st['rv']['a']) or [0, []])]
        ok = bool(bes) and bool(incs) and all(any(b.dominates(i, s_) or i == s_ for i in incs) for (s_, h) in bes)
        ctx.ob('T.loops', '%s|variant:cursor+1' % short(b.path), ok, '%s: every way around the loop increments the cursor by one: %s' % (short(b.path), ok), where=b.where(), cfg=cfg)
    # Splitter: the word scanner stops BEFORE a separator and leaves it at the front of the remaining input, so every
    # character that ends a word must be one the prefix handlers at the top of next() consume - otherwise the next
    # call yields an empty word without shortening the input, forever
    sp = ctx.look(fs.one(r"^<buffer::splitter::Splitter<'a> as std::iter::Iterator>::next$"))
    ci = [c for c in sp.calls() if c.is_(r'CharIndices.*Iterator>::next$')]
    handled = set()
    for c in sp.calls():
        if c.is_(r'str::<impl str>::strip_prefix::<char>$'):
            rs = provenance(sp, c.args[0], c.bb, 'term')
            if rs and all(r.kind == 'param' and r.what == 'self' and r.path == ['input'] for r in rs):
                k_ = op_const(c.args[1])
                if k_ and 'char' in k_: handled.add(k_['char'])
    enders = set(); other = []
    if len(ci) == 1:
        def is_chr(op, bb, ix):
            rs = provenance(sp, op, bb, ix, through=None)
            return bool(rs) and all(r.kind == 'call' and r.call.bb == ci[0].bb and r.path[-1:] == ['1'] for r in rs)
        loop_blocks = reachable_edges(sp, ci[0].target) if ci[0].target is not None else set()
        for sw in switches(sp):
            if sw.b not in loop_blocks: continue
            if sw.kind == 'bool':
                for r in sw.roots:
                    if r.kind == 'bin' and r.extra['op'] in ('Eq', 'Ne'):
                        for (x, y) in ((r.extra['a'], r.extra['b']), (r.extra['b'], r.extra['a'])):
                            k_ = op_const(y)
                            if k_ and 'char' in k_ and is_chr(x, r.site[0], r.site[1]): enders.add(k_['char'])
                    elif r.kind == 'call' and any(is_chr(a, r.call.bb, 'term') for a in r.call.args):
                        other.append(short(r.call.name))
                    elif r.kind == 'bin' and (is_chr(r.extra['a'], r.site[0], r.site[1]) or is_chr(r.extra['b'], r.site[0], r.site[1])):
                        other.append('comparison %s' % r.extra['op'])
            elif sw.kind == 'int' and is_chr(sp.term(sw.b)['op'], sw.b, 'term'):
                enders |= {v for v in sw.edges if isinstance(v, int)}
    form = 'loop over char_indices()' if len(ci) == 1 else None
    if len(ci) == 0:
        # the same scan written as input.find(<pattern>): a closure over the character, a char, or a slice of chars
        finds = [c for c in sp.calls() if c.is_(r'str::<impl str>::(find|split_once|split|find_map)') and all(r.kind == 'param' and r.what == 'self' and r.path == ['input'] for r in provenance(sp, c.args[0], c.bb, 'term'))
                 and not (op_const(c.args[1]) or {}).get('v') in ('\n',)]
        finds = [c for c in finds if c.is_(r'::find')]
        if len(finds) == 1:
            form = 'input.find(pattern)'
            c = finds[0]
            k_ = op_const(c.args[1])
            if k_ and 'char' in k_:
                enders.add(k_['char'])
            for r in provenance(sp, c.args[1], c.bb, 'term', through=None):
                if r.kind == 'agg' and r.extra.get('closure') in fs.bodies:
                    clo = fs.bodies[r.extra['closure']]
                    for i_, k2, st in clo.stmts():
                        if st['k'] == 'assign' and st['rv']['k'] == 'bin' and st['rv']['op'] in ('Eq', 'Ne'):
                            for (x, y) in ((st['rv']['a'], st['rv']['b']), (st['rv']['b'], st['rv']['a'])):
                                kk = op_const(y)
                                if kk and 'char' in kk and all(q.kind == 'param' for q in provenance(clo, x, i_, k2, through=None)): enders.add(kk['char'])
                    for sw in switches(clo):
                        if sw.kind == 'int' and all(q.kind == 'param' for q in provenance(clo, clo.term(sw.b)['op'], sw.b, 'term', through=None)):
                            enders |= {v for v in sw.edges if isinstance(v, int)}
                    other += [short(cc.name) for cc in clo.calls()]
                elif r.kind == 'const' and isinstance(r.extra, dict) and r.extra.get('chars'):
                    enders |= set(r.extra['chars'])
        if form is None:
            # ... or as an iterator search over the characters: input.char_indices()[.enumerate()].find(|..| c == '\n' || c == ' ')
            ITC = DEFAULT_THROUGH + [r'Iterator>?::(enumerate|by_ref|peekable)$', r'IntoIterator>?::into_iter$']
            its = [c for c in sp.calls() if c.is_(r'Iterator>?::(find|position|find_map)\b') and len(c.args) > 1 and
                   any(r.kind == 'call' and r.call.is_(r'str::<impl str>::(char_indices|chars)$') and
                       all(q.kind == 'param' and q.what == 'self' and q.path == ['input'] for q in provenance(sp, r.call.args[0], r.call.bb, 'term'))
                       for r in provenance(sp, c.args[0], c.bb, 'term', through=ITC))]
            if len(its) == 1:
                form = 'input.char_indices().find(closure)'
                for r in provenance(sp, its[0].args[1], its[0].bb, 'term', through=None):
                    if r.kind == 'agg' and r.extra.get('closure') in fs.bodies:
                        clo = fs.bodies[r.extra['closure']]
                        for i_, k2, st in clo.stmts():
                            if st['k'] == 'assign' and st['rv']['k'] == 'bin' and st['rv']['op'] in ('Eq', 'Ne'):
                                for (x, y) in ((st['rv']['a'], st['rv']['b']), (st['rv']['b'], st['rv']['a'])):
                                    kk = op_const(y)
                                    if kk and 'char' in kk and all(q.kind == 'param' for q in provenance(clo, x, i_, k2, through=None)): enders.add(kk['char'])
                        for sw in switches(clo):
                            if sw.kind == 'int' and all(q.kind == 'param' for q in provenance(clo, clo.term(sw.b)['op'], sw.b, 'term', through=None)):
                                enders |= {v for v in sw.edges if isinstance(v, int)}
                        other += [short(cc.name) for cc in clo.calls()]
    ok = form is not None and bool(enders) and enders <= handled and not other
    ctx.ob('T.loops', 'Splitter::next|variant:word-end-is-a-handled-separator', ok,
           'Splitter::next (%s): a word ends only at %s; the separators consumed at the front of the input are %s; other tests of the scanned character: %s' % (
               form, sorted(map(chr, enders)), sorted(map(chr, handled)), other or 'none'), where=sp.where(), cfg=cfg)
    # parse_option variant (strict progress + *len update) is checked by C06.K3; require it here too
    cc = fs.one(r'^error::Message::can_catch$')
    enum, table = enum_const_table(cc)
    before = len(ctx.obs)
    c06.k3(ctx, cfg, fs, table)
    keep = [o for o in ctx.obs[before:] if 'parse_option:Ok:progress' in o.key or 'strict-progress' in o.key]
    for o in keep: o.rule = 'T.loops'
    ctx.obs = ctx.obs[:before] + keep
    option_loops(ctx, cfg, fs)
    c06.len_threaded(ctx, cfg, fs, 'T.loops')

def option_loops(ctx, cfg, fs):
    """loops that call parse_option until it stops yielding: every way back to the call must cross a progress witness -
    (1) the Some edge of the Ok payload of that call (parse_option returns Ok(Some) only after strict progress, checked
    above), or (2) the not-equal edge of a comparison between a remembered State::len() and the current one.
    How a failure is reported is C06's business, not termination's."""
    users = [b for b in fs.bodies.values() if any(c.is_(r'^structs::parse_option$') for c in b.calls())]
    for b in sorted(users, key=lambda x: x.path):
        for c in b.calls():
            if not c.is_(r'^structs::parse_option$') or c.target is None:
                continue
            if c.bb not in reachable_edges(b, c.target):
                continue       # not in a loop of this body (closure driven by from_fn: its loop is the collecting iterator)
            witness = []
            for sw in switches(b):
                if sw.kind == 'enum' and sw.enum.endswith('option::Option') and sw.target('Some') is not None:
                    rs = provenance(b, sw.place, sw.discr_site[0], sw.discr_site[1], through=[r'as std::ops::Try>::branch$'])
                    if rs and all(r.kind == 'call' and r.call.bb == c.bb and r.path in (['as Continue', '0'], ['as Ok', '0']) for r in rs):
                        witness.append((sw.b, sw.target('Some')))
                        # the other outcomes of this test must not share the target
                        if any(t == sw.target('Some') for o, t in sw.edges.items() if o != 'Some'):
                            witness.pop()
                if sw.kind == 'bool':
                    for r in sw.roots:
                        if r.kind == 'bin' and r.extra['op'] in ('Eq', 'Ne'):
                            def is_len(op):
                                q = provenance(b, op, r.site[0], r.site[1], through=None)
                                return bool(q) and all(x.kind == 'call' and x.call.is_(r'^args::inner::State::len$') for x in q)
                            if is_len(r.extra['a']) and is_len(r.extra['b']):
                                witness.append((sw.b, sw.target(r.extra['op'] == 'Ne')))
            again = c.bb in reachable_edges(b, c.target, removed_edges=witness)
            ctx.ob('T.loops', '%s:variant:parse_option-progress' % short(b.path), bool(witness) and not again,
                   '%s: parse_option is called again only after it yielded a value (strict progress) or after the number of remaining items changed (%d witness edge(s)): %s' % (
                       short(b.path), len(witness), not again), where=c.where(), cfg=cfg)
    # closures handed to from_fn: the collecting iterator stops at the first None/Err; the closure must not loop itself
    for b in users:
        if b.kind == 'closure':
            ctx.ob('T.loops', '%s:variant:from_fn' % short(b.path), not b.back_edges(), '%s: the from_fn closure calls parse_option once per element (no loop of its own)' % short(b.path), where=b.where(), cfg=cfg)

RECURSION = {
    'meta::Meta::positional_invariant_check::go': 'recurses on the children of the Meta node it matched',
    'meta::Meta::normalize': 'recurses on the children of the Meta node', 'meta::Meta::normalize::normalize_vec': 'part of the normalize recursion',
    'meta::Meta::first_item': 'child of the node', 'meta::Meta::collect_shorts': 'children of the node / meta of a command item', 'meta::Meta::is_command': 'child of the node',
    'meta_help::<impl meta::Meta>::peek_front_ty': 'children of the node', 'meta_help::<impl meta_help::HelpItems<\'a>>::append_meta::go': 'children of the node',
    'meta_help::<impl buffer::Doc>::write_meta::go': 'children of the node', 'buffer::extract_sections': 'sub-commands found in the item list of the level (finite command tree)',
    'meta_youmean::collect_suggestions': 'children of the node / nested command metas', 'meta_youmean::ins_meta': 'children of the node',
    'buffer::Doc::doc': 'appends another document', 'item::Item::normalize': 'nested usage',
}

def recursion(ctx, cfg, fs):
    # strongly connected components of the crate-local call graph
    graph = {}
    for b in fs.bodies.values():
        o = b.path
        for c in b.calls():
            for n in c.names:
                if n in fs.bodies:
                    graph.setdefault(o, set()).add(n)
        for clo in fs.closures_of(b):
            graph.setdefault(o, set()).add(clo.path)
    index = {}; low = {}; onst = set(); st = []; sccs = []; counter = [0]
    import sys
    sys.setrecursionlimit(10000)
    def sc(v):
        index[v] = low[v] = counter[0]; counter[0] += 1; st.append(v); onst.add(v)
        for w in graph.get(v, ()):
            if w not in index:
                sc(w); low[v] = min(low[v], low[w])
            elif w in onst:
                low[v] = min(low[v], index[w])
        if low[v] == index[v]:
            comp = []
            while True:
                w = st.pop(); onst.discard(w); comp.append(w)
                if w == v: break
            if len(comp) > 1 or v in graph.get(v, ()):
                sccs.append(comp)
    for v in list(fs.bodies):
        if v not in index:
            sc(v)
    for comp in sorted(sccs, key=lambda c: sorted(c)[0]):
        members = sorted({outer(x) for x in comp})
        def listed(m):
            return m in RECURSION or any(m.endswith(k.split('::')[-2] + '::' + k.split('::')[-1]) for k in RECURSION if '::' in k)
        unk = [m for m in members if not listed(m) and not re.search(r'as std::(fmt::Debug|clone::Clone)', m) and not re.search(r'as Parser<.*>>::(eval|meta)$', m)]
        how = 'listed structural recursion: ' + '; '.join(RECURSION.get(m, 'derived/dyn') for m in members)[:200]
        if unk:
            # not (all) listed: accept when every call that stays inside the cycle hands down a strict part of one of the
            # caller's own parameters (descent over owned, hence finite, data)
            flat = structural_descent(fs, comp)
            if flat is None:
                unk = []; how = 'every call inside the cycle passes a strict sub-part of a parameter of the caller (structural descent over owned data)'
            else:
                how = 'NOT a listed structural recursion (%s) and %s' % (unk, flat)
        ctx.ob('T.recursion', 'cycle:%s' % '+'.join(short(m) for m in sorted({outer(x) for x in comp if listed(outer(x))} or members))[:120], not unk,
               'recursive cycle %s: %s' % ([short(m) for m in members], how),
               where=fs.bodies[comp[0]].where(), cfg=cfg)

DESCENT_THROUGH = DEFAULT_THROUGH + [r'Iterator>?::(next|next_back|enumerate|rev|skip|peekable|zip|chain|by_ref)$', r'slice::<impl \[T\]>::(iter|first|last|get|split_first|split_last)$',
                                     r'IntoIterator>?::into_iter$', r'Option::<.*>::(as_deref|as_ref)$', r'Peekable<.*>::peek$']

def structural_descent(fs, comp):
    """None when every call between members of the cycle passes at least one argument that is reached from a parameter
    of the caller through at least one field / variant / element projection; otherwise a description of the first
    call that does not"""
    inside = set(comp)
    for p_ in comp:
        b = fs.bodies[p_]
        if b.kind == 'closure':
            return '%s is a closure (captured state is not tracked)' % short(p_)
        params = {b.name_of(i + 1) for i in range(b.arg_count)}
        for c in b.calls():
            if not any(n in inside for n in c.names):
                continue
            descends = False
            for a in c.args:
                rs = provenance(b, a, c.bb, 'term', through=DESCENT_THROUGH)
                if rs and all(r.kind == 'param' and r.what in params and any(not x.isdigit() or True for x in r.path) and len(r.path) > 0 for r in rs):
                    descends = True
            if not descends:
                return 'the call %s -> %s passes no strict part of a parameter' % (short(p_), short(c.name))
    return None

def group_flag(ctx, cfg, fs):
    b = ctx.look(fs.one(r'append_meta::go$'))
    P = {b.name_of(i): i for i in range(1, b.arg_count + 1)}
    flag = [n for n in P if b.local_ty(P[n]) == 'bool']
    if len(flag) != 1:
        raise Broken('append_meta::go: expected one bool parameter, got %s' % flag)
    flag = flag[0]
    rec = [c for c in b.calls() if c.names and c.names[0] == b.path]
    if not rec:
        raise Broken('append_meta::go: no recursive calls')
    for c in rec:
        pos = list(P).index(flag)
        rs = provenance(b, c.args[pos], c.bb, 'term', through=None)
        kinds = sorted({('same' if (r.kind == 'param' and r.what == flag) else 'true' if (r.kind == 'const' and r.what is True) else 'false' if (r.kind == 'const' and r.what is False) else r.kind) for r in rs})
        ok = set(kinds) <= {'same', 'true'}
        ctx.ob('G.group-flag', 'append_meta::go:recursive-call:%s' % '+'.join(kinds), ok,
               'append_meta::go passes `%s` down as %s (it must never be reset to false inside a group: nested GroupStart/GroupEnd pairs break find_group and the draining loop of write_help_item_groups)' % (flag, kinds),
               where=c.where(), cfg=cfg)
    # GroupStart is pushed only under !flag
    gs = [i for i, k, st in b.stmts() if st['k'] == 'assign' and st['rv']['k'] == 'agg' and st['rv'].get('adt', '').endswith('HelpItem') and st['rv'].get('variant') in ('GroupStart', 'GroupEnd')]
    good = bool(gs)
    for i in gs:
        g = False
        for sw in switches(b):
            if sw.kind == 'bool' and any(r.kind == 'param' and r.what == flag for r in sw.roots) and only_via_edge(b, sw.b, sw.target(False), i):
                g = True
        good &= g
    ctx.ob('G.group-flag', 'append_meta::go:group-tokens-guarded', good, 'GroupStart/GroupEnd are emitted only when the no-nesting flag is false: %s' % good, where=b.where(), cfg=cfg)
    # ... and what was pushed stays: the list of help items only grows while the meta is walked (taking entries out again - a filter over
    # the collected tail, say - drops the end marker of a group and leaves its start behind)
    shrink = []
    for x in fs.family(ctx.look(fs.one(r'HelpItems<.*>::append_meta$|HelpItems::<.*>::append_meta$'))) + fs.family(b):
        for c in x.calls():
            if c.is_(r'Vec::<.*>::(split_off|drain|retain|retain_mut|remove|swap_remove|truncate|pop|clear|dedup\w*|sort\w*|reverse|splice|insert)$', r'slice::<impl \[T\]>::(sort\w*|reverse|swap|rotate\w*)$') and 'HelpItem' in c.full:
                shrink.append('%s at %s' % (short(c.name), x.where(c.bb)))
    ctx.ob('G.group-flag', 'append_meta:items-only-appended', not shrink, 'append_meta never removes or reorders collected help items: %s' % (sorted(set(shrink)) or 'ok'), where=b.where(), cfg=cfg)

EFFECTS = [(r'^std::env::', 'env'), (r'^std::process::', 'process'), (r'^std::fs::', 'fs'), (r'^std::time::|^std::thread::', 'time/thread'),
           (r'^std::io::(stdin|stdout|stderr|_print|_eprint)', 'io'), (r'^std::net::', 'net'), (r'^supports_color::', 'terminal')]
EFFECT_SITES = {
    ('<params::ParseFlag<T> as Parser<T>>::eval', 'env'): 'declared env variable (C18)', ('params::ParseArgument::<T>::take_argument', 'env'): 'declared env variable (C18)',
    ('meta_help::write_help_item', 'env'): 'shows the declared variable in help (C18)', ("args::Args::<'_>::current_args", 'env'): 'argv for run()',
    ('info::OptionParser::<T>::run', 'process'): 'documented exit of run()', ("complete_run::ArgScanner::<'_>::check_next", 'process'): 'known finding', ('complete_gen::<impl args::inner::State>::check_complete', 'process'): 'known finding',
    ('error::ParseFailure::print_message', 'io'): 'prints the outcome', ('complete_run::dump_bash_completer', 'io'): 'completer stub', ('complete_run::dump_zsh_completer', 'io'): 'completer stub',
    ('complete_run::dump_fish_completer', 'io'): 'completer stub', ('complete_run::dump_elvish_completer', 'io'): 'completer stub',
    ('meta::Meta::positional_invariant_check', 'io'): 'check_invariants(verbose)', ('meta::Meta::positional_invariant_check::go', 'io'): 'check_invariants(verbose)',
    ('complete_gen::<impl args::inner::State>::check_complete', 'io'): 'debug notice before the exit',
    ('<buffer::console::Color as std::default::Default>::default', 'terminal'): 'colour detection for printing only',
}
INTERIOR = re.compile(r'\b(Cell|RefCell|UnsafeCell|OnceCell|OnceLock|LazyLock|LazyCell|Mutex|RwLock|Atomic[A-Z][A-Za-z0-9]*|Condvar)\b')

def purity(ctx, cfg, fs):
    for b in fs.bodies.values():
        seen = set()
        for c in b.calls():
            for pat, kind in EFFECTS:
                if c.is_(pat):
                    seen.add((kind, c.name, c.bb))
        for (bb, fn, full) in fn_refs(b):
            for pat, kind in EFFECTS:
                if re.search(pat, fn):
                    seen.add((kind, fn, bb))
        for (kind, name, bb) in sorted(seen):
            o = outer(b.path)
            ok = (o, kind) in EFFECT_SITES
            ctx.ob('U.purity', 'effect:%s:%s' % (short(o), kind), ok, '%s uses %s (%s): %s' % (short(b.path), name, kind, EFFECT_SITES.get((o, kind), 'NOT a listed ambient effect: the outcome would depend on more than definition, arguments and declared variables')), where=b.where(bb), cfg=cfg)
    ctx.ob('U.purity', 'statics:none', not fs.statics, 'the crate defines %d static item(s): %s' % (len(fs.statics), [s_['path'] for s_ in fs.statics]), cfg=cfg)
    tl = [b.path for b in fs.bodies.values() for i, k, st in b.stmts() if st['k'] == 'assign' and st['rv']['k'] == 'tlref']
    ctx.ob('U.purity', 'thread-locals:none', not tl, 'thread-local accesses: %s' % (tl or 'none'), cfg=cfg)
    bad = []
    for path, a in fs.adts.items():
        for v in a['variants']:
            for f in v['fields']:
                if INTERIOR.search(f['ty']):
                    bad.append('%s.%s: %s' % (path, f['name'], f['ty']))
    ctx.ob('U.purity', 'types:no-interior-mutability', not bad, 'no field of any crate type has interior mutability (a parser cannot remember earlier runs): %s' % (bad or '%d types scanned' % len(fs.adts)), cfg=cfg)
    rc = sorted({'%s.%s' % (path, f['name']) for path, a in fs.adts.items() for v in a['variants'] for f in v['fields'] if re.search(r'\bRc<|\bArc<', f['ty'])})
    ctx.ob('U.purity', 'types:rc-fields', set(rc) <= {'args::inner::State.items'}, 'reference-counted fields: %s (State.items is per-run, immutable shared tokens)' % rc, cfg=cfg)
    # Parser::eval / meta take &self
    n = 0; bad = []
    for (ty, ev, me, imp) in parser_impls(fs):
        for f in (ev, me):
            if f is None: continue
            n += 1
            sig = f.j.get('sig', '')
            if not re.match(r'^(for<[^>]*> )?fn\(&(\'[a-z_0-9]+ )?[^m]', sig):
                bad.append('%s: %s' % (short(f.path), sig[:60]))
    ctx.ob('U.purity', 'Parser:shared-self', not bad and n >= 50, 'eval/meta of all %d impl bodies take &self: %s' % (n, bad or 'ok'), cfg=cfg)
    # run_inner builds its State from its argument
    b = fs.one(r'^info::OptionParser::<T>::run_inner$')
    cons = [c for c in b.calls() if c.is_(r'State::construct$')]
    ok = len(cons) == 1
    if ok:
        rs = provenance(b, cons[0].args[0], cons[0].bb, 'term', through=DEFAULT_THROUGH)
        ok = bool(rs) and all(r.kind == 'param' and r.what == 'args' for r in rs)
        st_arg = [c for c in b.calls() if c.is_(r'run_subparser$')]
        ok &= len(st_arg) == 1
    ctx.ob('U.purity', 'run_inner:fresh-state', ok, 'run_inner builds one fresh State from its `args` parameter and parses on it: %s' % ok, where=b.where(), cfg=cfg)
