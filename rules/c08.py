"""C08 - subcommands scope what follows them (structural clauses).

Decides:
 N name first       take_cmd looks at the FRONT unconsumed item only, accepts Word/Short/Long-without-value, removes it
                    and records its index in `current`.
 M matched path     ParseCommand::eval, when the name matched: narrows the scope to `matched index .. end of the
                    enclosing scope` (both ends by provenance), pushes the command name on the path before running the
                    inner OptionParser, returns exactly what run_subparser returns (so the inner leftover check and
                    the inner help apply), wraps every inner failure as the final Message::ParseFailure.
 U unmatched path   when the name did not match nothing is consumed, the scope and path are untouched and
                    Missing(self.item()) is returned.
 D depth priority   rows of the this_or_that_picks_first table with different depths: the fork that entered the
                    deeper command is adopted, success or failure (shared with C07).
 F final not caught parse_option / fallback rows for ParseFailure (shared with C06) - the inner help is never
                    swallowed (found and fixed e30e3d1).
 L own level        run_subparser renders help from its own info / parser / path (shared with C10).
 U usage fallback   the `fallback_to_usage` help of the ENCLOSING level replaces a failure only when the level was given no
                    items at all (test taken before the inner parser ran): a subcommand's own failure is never turned
                    into the parent's help (shared with C10/C11).
 G registry         the short names of a subcommand reach the cluster registry (collect_shorts descends into Item::Command), so
                    `cmd -ab` after the command name means `cmd -a -b` (shared with C02).
 R scope restore    adjacent commands restore the pre-adjacency scope (shared with C05; found and fixed 9061519).
 N name once       the name test stops at the first spelling that matched (`a || b`, or loops that leave on success): a later take_cmd
                    would compare the NEXT item with the remaining aliases and swallow a positional that happens to spell one.
 D both forks      ParseOrElse evaluates BOTH alternatives on forks before this_or_that_picks_first chooses (no early adoption of the
                    first success): the deeper path - the subcommand - can only win if it was tried (shared with C07).
 D forkers         pass-through wrappers (hide, group_help, map ..) do not fork the state: a hidden command that was entered hands its depth on.
 L final first     run_subparser hands an inner final answer (Message::ParseFailure: a subcommand's output or rendered error) on BEFORE looking
                    for its own help/version flag: `cmd --version` with a version only on the parent stays the subcommand's failure.
 M depth only grows  State.path is only ever pushed (by ParseCommand::eval).
 R adjacent window   an adjacent command runs its subparser only on the adjacently available run / the consumed block (shared with C19).
 L help probe    Info::eval evaluates the help parser, then the version parser, on the live state of the level entered, so the flag is consumed by
                        the subcommand that owns it (shared with C10); R adjacent window: a window that could not be narrowed is refused only when it
                        really equals the enclosing scope (shared with C19).
Does not decide: acceptance of whole subcommand lines."""
import re
from core import *
from dataflow import *
from cfgq import *
from parsers import *
import consumers, scopes, c05, c06, c07, c10

LEVEL = 'other'
EXPLANATION = __doc__
ASSUMPTIONS = []
FLOORS = {'N.name-first': 6, 'M.matched': 7, 'U.unmatched': 3, 'D.depth': 8, 'F.final': 10, 'L.own-level': 2, 'R.scope-restore': 4, 'U.usage-fallback': 1, 'G.registry': 10}

def run(ctx):
    cfgs = ['none', 'all'] if ctx.tier == 'quick' else ['none', 'all', 'ac', 'doc']
    ctx.preload(cfgs)
    for cfg in cfgs:
        fs = ctx.facts(cfg)
        ctx.guard(name_first, ctx, cfg, fs)
        ctx.guard(first_name_only, ctx, cfg, fs)
        ctx.guard(consumers.forkers, ctx, cfg, fs, 'D.depth')
        import c19
        ctx.guard(keep_only, ctx, lambda: c19.command_window(ctx, cfg, fs), lambda o: True, 'R.scope-restore')
        # an adjacent command whose window could not be narrowed is only refused when the window really is the whole scope
        ctx.guard(keep_only, ctx, lambda: c19.adjacent_scope(ctx, cfg, fs), lambda o: 'withheld-only-when-unchanged' in o.key, 'R.scope-restore')
        # "help requested after the name describes the subcommand": the help/version probes of the level entered consume their flag
        ctx.guard(keep_only, ctx, lambda: c10.info(ctx, cfg, fs), lambda o: True, 'L.own-level')
        import wiring
        ctx.guard(wiring.builders, ctx, cfg, fs, 'N.name-first', r'^(command|params::<impl info::OptionParser<T>>::command|params::ParseCommand::<P>::(short|long|adjacent|help))$')
        ctx.guard(matched, ctx, cfg, fs)
        ctx.guard(own_level_invariant, ctx, cfg, fs)
        ctx.guard(keep_only, ctx, lambda: c07.table(ctx, cfg, fs), lambda o: 'depth=Less' in o.key or 'depth=Greater' in o.key, 'D.depth')
        ctx.guard(keep_only, ctx, lambda: c10.final(ctx, cfg, fs), lambda o: True, 'F.final')
        ctx.guard(keep_only, ctx, lambda: c07.fork(ctx, cfg, fs), lambda o: 'ParseOrElse' in o.key, 'D.depth')
        ctx.guard(keep_only, ctx, lambda: c10.returns(ctx, cfg, fs), lambda o: o.rule == 'P.payload' or 'inner-final-answer-precedes-lookup' in o.key, 'L.own-level')
        import c12
        ctx.guard(keep_only, ctx, lambda: c12.walker_rules(ctx, cfg, fs, 'G.registry', {'collect_shorts': c12.WALKERS['collect_shorts']}), lambda o: True, 'G.registry')
        ctx.guard(keep_only, ctx, lambda: c05.scope_restore(ctx, cfg, fs), lambda o: 'ParseCommand' in o.key, 'R.scope-restore')
        ctx.guard(keep_only, ctx, lambda: c10.usage_fallback(ctx, cfg, ctx.look(fs.one(r'^info::OptionParser::<T>::run_subparser$')), 'U.usage-fallback'), lambda o: True, 'U.usage-fallback')

def _flag_sources(b, op, bb, depth=0):
    """what a `&mut bool` argument points at: {'param'} when it is (a reborrow of) a parameter of the function, else the set of
    ('const', v) / ('other', ..) values assigned to the local it borrows"""
    out = set()
    pl = op_place(op)
    if pl is None or depth > 6:
        return {('other', 'opaque')}
    if pl[0] <= b.arg_count:
        return {('param', b.name_of(pl[0]))}
    for (_, _, k, st) in reaching_defs(b, pl[0], bb, 'term'):
        if k != 'assign':
            out.add(('other', k)); continue
        rv = st['rv']
        if rv['k'] == 'ref':
            base = rv['place']
            if base[0] <= b.arg_count:
                out.add(('param', b.name_of(base[0])))
            elif base[1]:
                out |= _flag_sources(b, ['cp', [base[0], []]], bb, depth + 1)      # reborrow of another reference
            else:
                for (_, _, k2, st2) in reaching_defs(b, base[0], bb, 'term'):
                    if k2 == 'assign' and st2['rv']['k'] == 'use' and op_const(st2['rv']['op']) is not None:
                        out.add(('const', op_const(st2['rv']['op']).get('v')))
                    else:
                        out.add(('other', st2['rv']['k'] if k2 == 'assign' else k2))
        elif rv['k'] == 'use' and op_place(rv['op']):
            out |= _flag_sources(b, rv['op'], bb, depth + 1)
        else:
            out.add(('other', rv['k']))
    return out

def own_level_invariant(ctx, cfg, fs):
    """the "positionals and commands go last" rule of a level is checked PER LEVEL: when positional_invariant_check descends into a
    command's own meta it starts from a clean slate (`false`), whatever stood in front of the command one level up - otherwise asking
    for help of (or above) a subcommand that follows a positional panics instead of describing it.  The same holds for an adjacent
    group that starts with a named item: it is a block of its own."""
    b = ctx.look(fs.one(r'^meta::Meta::positional_invariant_check::go$'))
    rec = [c for c in b.calls() if c.names and c.names[0] == b.path]
    def under(sw, variant):
        t = sw.target(variant)
        others = [x for o_, x in sw.edges.items() if x != t]
        return [c for c in rec if t is not None and c.bb in reachable_edges(b, t, avoid=others + [sw.b]) and not any(c.bb in reachable_edges(b, o_, avoid=[sw.b]) for o_ in others)]
    isw = [s_ for s_ in switches(b) if s_.kind == 'enum' and s_.enum == 'item::Item' and s_.target('Command') is not None]
    msw = [s_ for s_ in switches(b) if s_.kind == 'enum' and s_.enum == 'meta::Meta' and s_.target('Adjacent') is not None]
    cmd = [(c, _flag_sources(b, c.args[1], c.bb)) for s_ in isw for c in under(s_, 'Command')]
    ctx.ob('L.own-level', 'positional_invariant_check:command-starts-clean', bool(cmd) and all(v == {('const', False)} for (_, v) in cmd),
           'descending into a command\'s own items starts with "no positional seen yet" = false (%d call(s): %s)' % (len(cmd), [sorted(map(str, v)) for (_, v) in cmd]), where=b.where(), cfg=cfg)
    adj = [(c, _flag_sources(b, c.args[1], c.bb)) for s_ in msw for c in under(s_, 'Adjacent')]
    fresh = [(c, v) for (c, v) in adj if not any(x[0] == 'param' for x in v)]
    ctx.ob('L.own-level', 'positional_invariant_check:named-adjacent-group-starts-clean', bool(fresh) and all(v == {('const', False)} for (_, v) in fresh),
           'an adjacent group whose first item is named is checked from a clean state (%d call(s) under the Adjacent arm, %d with a flag of their own: %s)' % (len(adj), len(fresh), [sorted(map(str, v)) for (_, v) in fresh]), where=b.where(), cfg=cfg)

def keep_only(ctx, fn, pred, rule):
    before = len(ctx.obs)
    try:
        fn()
    finally:
        keep = [o for o in ctx.obs[before:] if pred(o)]
        for o in keep:
            o.rule = rule
        ctx.obs = ctx.obs[:before] + keep

def name_first(ctx, cfg, fs):
    before = len(ctx.obs)
    consumers.consumers(ctx, cfg, fs, 'N.name-first')
    consumers.accept_sets(ctx, cfg, fs, 'N.name-first')
    keep = [o for o in ctx.obs[before:] if o.key.startswith('take_cmd')]
    ctx.obs = ctx.obs[:before] + keep
    b = ctx.look(fs.body(consumers.CONSUMERS['take_cmd'][0]))
    # on the success path current = Some(matched index); on failure current = None
    ok_true = False; ok_false = False
    for i, k, st in b.stmts():
        if st['k'] == 'assign' and place_fields(st['lhs']) == ['current']:
            rs = provenance(b, st['rv']['op'], i, k, through=None) if st['rv']['k'] == 'use' else []
            for r in rs:
                if r.kind == 'agg' and r.extra.get('variant') == 'Some':
                    ks = consumers.index_sources(b, r.extra['fields'][0], r.site[0], r.site[1])
                    ok_true = ks == {'iter'}
                if r.kind == 'agg' and r.extra.get('variant') == 'None':
                    ok_false = True
    ctx.ob('N.name-first', 'take_cmd:records-position', ok_true and ok_false, 'take_cmd records the matched index in `current` (and clears it when nothing matched): %s/%s' % (ok_true, ok_false), where=b.where(), cfg=cfg)

def name_test(fs, b):
    """where ParseCommand::eval decides whether one of its names is the next item: entry blocks of the matched region,
    entry block of the unmatched region, the name lists that are tried.  Two shapes are understood:
    `longs.iter().any(|l| args.take_cmd(l)) || shorts.iter().any(..)` and loops that set a flag on the first take_cmd
    that succeeds."""
    ITERS_ = DEFAULT_THROUGH + [r'slice::<impl \[T\]>::iter$', r'IntoIterator>?::into_iter$']
    clos = {clo.path for clo in fs.closures_of(b) if any(x.is_(r'take_cmd$') for x in clo.calls())}
    anyc = [c for c in b.calls() if c.is_(r'Iterator>?::any\b') and len(c.args) > 1 and
            any(r.kind == 'agg' and r.extra.get('closure') in clos for r in provenance(b, c.args[1], c.bb, 'term', through=None))]
    n_clo = sum(1 for clo in fs.closures_of(b) for x in clo.calls() if x.is_(r'take_cmd$'))
    own_tk = [c for c in b.calls() if c.is_(r'take_cmd$')]
    def tried():
        recv = set()
        for c in anyc:
            for q in provenance(b, c.args[0], c.bb, 'term', through=ITERS_):
                recv.add('.'.join(q.path))
        for c in own_tk:
            for n in b.calls():
                if n.is_(r'Iterator>?::next$') and b.dominates(n.bb, c.bb) and b.reaches(c.bb, [n.bb]):
                    for q in provenance(b, n.args[0], n.bb, 'term', through=ITERS_):
                        if q.kind == 'param' and q.what == 'self':
                            recv.add('.'.join(q.path))
        return recv
    if anyc and not own_tk:
        sws = [switch_on_call(b, c) for c in anyc]
        if all(s is not None and s.kind == 'bool' for s in sws) and all(not switch_reads_named_local(b, s) for s in sws):
            # `a.any(..) || b.any(..)`: unmatched region = reachable only through the false edge of the last test
            return {'matched_entries': [s.target(True) for s in sws], 'unmatched_entry': sws[-1].target(False), 'tried': tried(), 'sites': n_clo}
    tests = anyc + own_tk
    if tests:
        fr = flag_regions(b, tests)
        if fr is None:
            raise Broken('ParseCommand::eval: name matching not understood (no flag records the first name that matched)')
        (f, d) = fr
        return {'matched_entries': [d.target(True)], 'unmatched_entry': d.target(False), 'tried': tried(), 'sites': n_clo + len(own_tk)}
    raise Broken('ParseCommand::eval: name matching not found')

def first_name_only(ctx, cfg, fs, rule='N.name-first'):
    """the command name is consumed ONCE: as soon as one spelling matched (take_cmd returned true) no other spelling is
    tried - a second take_cmd would compare the NEXT item with the remaining aliases and swallow it (`remove rm`, where
    `rm` is an alias and also the first positional)"""
    b = ctx.look(fs.one(r'^<params::ParseCommand<T> as Parser<T>>::eval$'))
    clos = {clo.path for clo in fs.closures_of(b) if any(x.is_(r'take_cmd$') for x in clo.calls())}
    anyc = [c for c in b.calls() if c.is_(r'Iterator>?::(any|find|position|all|for_each|filter|map|fold)\b') and len(c.args) > 1 and
            any(r.kind == 'agg' and r.extra.get('closure') in clos for r in provenance(b, c.args[1], c.bb, 'term', through=None))]
    own = [c for c in b.calls() if c.is_(r'take_cmd$')]
    tests = anyc + own
    why = []
    fr = flag_regions(b, tests, full=True) if tests else None
    removed = [(s_.b, s_.target(False)) for s_ in fr[2]] if fr else []
    for t in tests:
        if t in anyc and not t.is_(r'Iterator>?::any\b'):
            why.append('%s is used to try the names: every name is tried' % t.name.split('::')[-1]); continue
        sw = switch_on_call(b, t)
        if sw is None or sw.kind != 'bool':
            why.append('the outcome of %s at %s does not decide whether more names are tried' % (t.name.split('::')[-1], b.where(t.bb))); continue
        # once the flag recording the success is set, tests of that flag can only go the `true` way
        again = [u for u in tests if u.bb in reachable_edges(b, sw.target(True), removed_edges=removed)]
        if again:
            why.append('after %s succeeded at %s, %s can run again' % (t.name.split('::')[-1], b.where(t.bb), sorted({u.name.split('::')[-1] for u in again})))
        # a later test is entered only through the failure of this one (`a || b`, not `let x = a; let y = b;`)
        for u in tests:
            if u is not t and b.dominates(t.bb, u.bb) and not only_via_edge(b, sw.b, sw.target(False), u.bb):
                why.append('%s at %s runs whether or not the earlier name test succeeded' % (u.name.split('::')[-1], b.where(u.bb)))
    ctx.ob(rule, 'ParseCommand::eval:stops-at-first-name', bool(tests) and not why,
           'ParseCommand::eval stops trying names at the first take_cmd that succeeds (%d name test(s)): %s' % (len(tests), '; '.join(why) or 'ok'), where=b.where(), cfg=cfg)

def matched(ctx, cfg, fs):
    b = ctx.look(fs.one(r'^<params::ParseCommand<T> as Parser<T>>::eval$'))
    fam = fs.family(b)
    nt = name_test(fs, b)
    unmatched_entry = nt['unmatched_entry']
    unmatched = reachable_edges(b, unmatched_entry)
    matched_blocks = set()
    for e in nt['matched_entries']:
        matched_blocks |= reachable_edges(b, e)
    matched_only = matched_blocks - unmatched
    unmatched_only = unmatched - matched_blocks
    rsc = [c for c in b.calls() if c.is_(r'OptionParser::<T>::run_subparser$')]
    # M1: command narrowing
    setsc = [c for c in b.calls() if c.is_(r'State::set_scope$') and scopes.state_id(b, c.args[0], c.bb) == 'args']
    first = [c for c in setsc if all(b.dominates(c.bb, r.bb) or not b.reaches(c.bb, [r.bb]) for r in rsc) and any(b.dominates(c.bb, r.bb) for r in rsc)]
    cmdn = None
    for c in setsc:
        rs = provenance(b, c.args[1], c.bb, 'term', through=None)
        if rs and all(r.kind == 'agg' and 'Range' in r.what for r in rs):
            cmdn = (c, rs[0])
    ok = cmdn is not None
    detail = 'no `cur..end` narrowing found'
    if ok:
        c, r = cmdn
        names = r.extra.get('field_names') or ['start', 'end']
        st_ = provenance(b, r.extra['fields'][names.index('start')], r.site[0], r.site[1], through=None)
        en_ = provenance(b, r.extra['fields'][names.index('end')], r.site[0], r.site[1], through=None)
        s_ok = bool(st_) and all(q.kind == 'param' and q.what == 'args' and q.path == ['current', 'as Some', '0'] for q in st_)
        e_ok = bool(en_) and all(q.kind == 'call' and q.call.is_(r'State::scope$') and q.path == ['end'] and scopes.state_id(b, q.call.args[0], q.call.bb) == 'args' for q in en_)
        # ... on the way to EVERY run of the subparser (adjacent or not): the test of `args.current` the narrowing hangs on comes before
        # all of them, and on its Some edge none of them is reached around the narrowing
        before_all = False
        for (a_, t_) in b.control_deps().get(c.bb, ()):
            if b.term(a_)['k'] != 'switch': continue
            sw_ = Switch(b, a_)
            if sw_.kind == 'enum' and t_ == sw_.target('Some'):
                around_ = reachable_edges(b, t_, avoid=[c.bb])
                before_all = all(b.dominates(a_, r_.bb) and r_.bb not in around_ for r_ in rsc) and bool(rsc)
        ok = s_ok and e_ok and c.bb in matched_only and before_all
        detail = 'start <- %s, end <- %s' % (sorted('%s.%s' % (q.what, '.'.join(q.path)) for q in st_), sorted('%s.%s' % (q.what if q.kind != 'call' else short(q.call.name), '.'.join(q.path)) for q in en_))
    ctx.ob('M.matched', 'ParseCommand::eval:scope-from-name-to-end', ok,
           'after the name matched the scope becomes `index of the name .. end of the enclosing scope` (%s)' % detail, where=b.where(cmdn[0].bb) if cmdn else b.where(), cfg=cfg)
    # M2: path push before any run_subparser
    push = [c for c in b.calls() if c.is_(r'Vec::<std::string::String>::push$') and any(q.path == ['path'] for q in provenance(b, c.args[0], c.bb, 'term'))]
    ok = len(push) == 1 and bool(rsc) and all(b.dominates(push[0].bb, r.bb) for r in rsc) and push[0].bb in matched_only
    src = provenance(b, push[0].args[1], push[0].bb, 'term', through=DEFAULT_THROUGH + [r'ToString>::to_string$']) if push else []
    ok &= bool(src) and all(q.kind == 'param' and q.path[:1] == ['longs'] for q in src)
    ctx.ob('M.matched', 'ParseCommand::eval:path-pushed-before-inner-run', ok, 'the command name (longs[0]) is pushed on the path before the inner parser runs: %s' % ok, where=push[0].where() if push else b.where(), cfg=cfg)
    # depth only grows: the path is pushed once per entered command and never popped / truncated / rewritten - its length is the depth
    # that this_or_that_picks_first compares, also AFTER the command has returned (an adjacent command that pops its name looks as
    # shallow as the alternative that never entered it)
    pw = {}
    for x in fs.bodies.values():
        for c in x.calls():
            if c.is_(r'Vec::<std::string::String.*>::(push|pop|truncate|clear|remove|swap_remove|insert|drain|retain|split_off|extend\w*)$') and c.args and \
                    any('path' in r.path and r.kind == 'param' for r in provenance(x, c.args[0], c.bb, 'term')):
                pw.setdefault(c.name.split('::')[-1], set()).add(short(outer(x.path)))
        for i_, k_, st in x.stmts():
            if st['k'] == 'assign' and any(pr[0] == 'f' and pr[2] == 'path' and pr[4] == 'args::inner::State' for pr in st['lhs'][1]) and st['lhs'][1][-1][0] == 'f' and st['lhs'][1][-1][2] == 'path':
                pw.setdefault('assign', set()).add(short(outer(x.path)))
    ctx.ob('M.matched', 'State.path:only-pushed', set(pw) == {'push'} and pw.get('push') == {'ParseCommand::eval'}, 'State.path is written by %s (expected: pushed by ParseCommand::eval only)' % {k_: sorted(v_) for k_, v_ in sorted(pw.items())}, where=b.where(), cfg=cfg)
    # M3: every Ok flows from run_subparser; M4: every inner failure becomes ParseFailure
    srcs_ok = True
    for i in ok_return_blocks(b):
        for k, st in enumerate(b.blocks[i]['stmts']):
            if st['k'] == 'assign' and st['lhs'] == [0, []]:
                rs = provenance(b, st['rv']['fields'][0], i, k, through=DEFAULT_THROUGH + [r'Result::<.*>::map_err'])
                srcs_ok &= bool(rs) and all(q.kind == 'call' and q.call.is_(r'run_subparser$') and q.path == ['as Ok', '0'] for q in rs)
    direct = [c for c in b.calls() if c.dest == [0, []]]
    for c in direct:
        srcs_ok &= c.is_(r'Result::<.*>::map_err') and all(q.kind == 'call' and q.call.is_(r'run_subparser$') for q in provenance(b, c.args[0], c.bb, 'term', through=None))
    ctx.ob('M.matched', 'ParseCommand::eval:ok-only-from-inner-run', srcs_ok, 'every Ok of a matched command is the Ok of the inner run_subparser (its leftover check and help apply): %s' % srcs_ok, where=b.where(), cfg=cfg)
    # no direct evaluation of the inner parser bypassing run_subparser
    bypass = [c.name for x in fam for c in x.calls() if c.is_(r'as Parser<.*>>::eval$', r'Parser<T> for std::boxed::Box') ]
    ctx.ob('M.matched', 'ParseCommand::eval:no-bypass', not bypass, 'ParseCommand::eval never evaluates the inner parser directly (bypassing run_subparser): %s' % bypass, where=b.where(), cfg=cfg)
    wraps = []
    for x in fam:
        for (bb, fn, full) in fn_refs(x):
            if fn == 'error::Message::ParseFailure': wraps.append(x.path)
        for i, k, st in x.stmts():
            if st['k'] == 'assign' and st['rv']['k'] == 'agg' and st['rv'].get('adt') == 'error::Message' and st['rv']['variant'] == 'ParseFailure':
                wraps.append(x.path)
    mes = [c for c in b.calls() if c.is_(r'Result::<.*>::map_err')]
    first_runs = [r for r in rsc if scopes.state_id(b, r.args[1], r.bb) == 'args']
    # `run.map_err(|e| Error(Message::ParseFailure(e)))`, or the same thing spelled as a match on the outcome
    def explicit_wrap_of(q):
        """q: root of the payload of an `Error(..)`: a Message::ParseFailure built from the Err payload of a run"""
        if not (q.kind == 'agg' and q.what == 'error::Message::ParseFailure'):
            return []
        return [y.call for y in provenance(b, q.extra['fields'][0], q.site[0], q.site[1], through=None) if y.kind == 'call' and y.call.is_(r'run_subparser$') and y.path == ['as Err', '0']]
    explicit = {}
    for i, k, st in b.stmts():
        if st['k'] == 'assign' and st['rv']['k'] == 'agg' and st['rv'].get('adt') == 'error::Message' and st['rv']['variant'] == 'ParseFailure':
            for y in provenance(b, st['rv']['fields'][0], i, k, through=None):
                if y.kind == 'call' and y.call.is_(r'run_subparser$') and y.path == ['as Err', '0']:
                    explicit.setdefault(y.call.bb, []).append(i)
    def explicit_final(r):
        """every Err edge of the run's outcome leads to the ParseFailure wrapping"""
        sw = switch_on_call(b, r)
        return r.bb in explicit and sw is not None and sw.target('Err') is not None and all(only_via_edge(b, sw.b, sw.target('Err'), i) for i in explicit[r.bb]) and \
            all(i in explicit[r.bb] or not b.reaches(sw.target('Err'), [i], avoid=set(explicit[r.bb])) for i in err_return_blocks(b))
    wrapped = all(any(q.kind == 'call' and q.call.bb == r.bb for m in mes for q in provenance(b, m.args[0], m.bb, 'term', through=None)) or explicit_final(r) for r in first_runs)
    ctx.ob('M.matched', 'ParseCommand::eval:inner-failure-is-final', wrapped and bool(first_runs) and len(wraps) >= 1,
           'the outcome of the inner run on the caller\'s state is mapped through Message::ParseFailure (final, not catchable): %s' % wrapped, where=b.where(), cfg=cfg)
    # every failure returned by a matched command is the (wrapped) outcome of the FIRST inner run: a retry on a
    # narrower scope may replace it by a success, never by another failure (the first outcome may be the inner help)
    errs_ok = True; bad = []
    for i in err_return_blocks(b):
        if i not in matched_only:
            continue
        if c06.under_completion_predicate(b, i):
            continue
        for k, st in enumerate(b.blocks[i]['stmts']):
            if st['k'] == 'assign' and st['lhs'] == [0, []]:
                rs = provenance(b, st['rv']['fields'][0], i, k, through=None)
                for q in rs:
                    inner = []
                    if q.kind == 'agg' and q.what == 'error::Error::Error':
                        inner = provenance(b, q.extra['fields'][0], q.site[0], q.site[1], through=None)
                    good = bool(inner) and all((z.kind == 'call' and z.call.is_(r'Result::<.*>::map_err') and z.path == ['as Err', '0'] and
                                                any(y.kind == 'call' and y.call in first_runs or (y.kind == 'call' and any(y.call.bb == fr.bb for fr in first_runs))
                                                    for y in provenance(b, z.call.args[0], z.call.bb, 'term', through=None))) or
                                               any(any(w.bb == fr.bb for fr in first_runs) for w in explicit_wrap_of(z)) for z in inner)
                    if not good:
                        errs_ok = False; bad.append(b.where(i))
    ctx.ob('M.matched', 'ParseCommand::eval:failure-is-first-outcome', errs_ok,
           'every failure returned after the name matched is the wrapped outcome of the first inner run (a retry can only turn it into a success): %s' % (bad or 'ok'), where=b.where(), cfg=cfg)
    # U: unmatched path
    touched = [c.name for c in b.calls() if c.bb in unmatched_only and c.is_(r'State::(set_scope|remove)$', r'run_subparser$', r'Vec::<std::string::String>::push$', r'take_')]
    ctx.ob('U.unmatched', 'ParseCommand::eval:unmatched-touches-nothing', not touched, 'when the name does not match, no scope change, path push, consumption or inner run happens: %s' % touched, where=b.where(unmatched_entry), cfg=cfg)
    msgs = [(i, st['rv']['variant']) for i, k, st in b.stmts() if st['k'] == 'assign' and st['rv']['k'] == 'agg' and st['rv'].get('adt') == 'error::Message' and i in unmatched_only]
    itemc = [c for c in b.calls() if c.bb in unmatched_only and c.is_(r'ParseCommand::<T>::item$')]
    ctx.ob('U.unmatched', 'ParseCommand::eval:unmatched-is-missing', [v for (_, v) in msgs] == ['Missing'] and len(itemc) == 1, 'the unmatched path reports Missing(self.item()): %s' % msgs, where=b.where(unmatched_entry), cfg=cfg)
    # take_cmd is tried for every long and short name, on the caller's state
    n_tk = nt['sites']; recv = nt['tried']
    ctx.ob('U.unmatched', 'ParseCommand::eval:names-tried', n_tk == 2 and recv == {'longs', 'shorts'}, 'the name test tries take_cmd for every entry of %s (%d call sites)' % (sorted(recv), n_tk), where=b.where(), cfg=cfg)
