"""C06 - absent is not invalid: defaults never mask bad values.

Decides:
 K1 classification table   Message::can_catch, read as a table over all variants, marks exactly
                           {NoEnv, ParseSome, ParseFail, PureFailed, Missing, NonStrictPos} catchable.
 K2 construction context   a variant built on the success edge of a consumer (after an inner eval /
                           take_* / find succeeded, i.e. the item was PRESENT) must be non-catchable
                           (listed exception: NonStrictPos; sites under a completion-only predicate excluded).
 K3 wrappers consult       decision tables extracted from fallback, fallback_with, parse_option and hide:
                           the default / None / rewrite is produced exactly for the catchable class (plus the
                           consumed-nothing rule and `catch`), otherwise the same error is returned.
 K4 error discipline       the only functions in which an Err of a parser call can be followed by an Ok
                           return (or is ignored) are the eight listed conversion sites.
 K5 loops stop on failure  in some/count/last/many/collect, a failing parse_option leaves the loop:
                           no path from its result back to the call avoids the Ok edge of its result test.
 K6 text is carried        ParseWith/ParseGuard/argument/positional put the conversion error text / guard
                           message into ParseFailed/GuardFailed and Message::render writes that field.
 E  environment absence   "unset" means std::env::var_os returned None: the environment lookups of flags and arguments are the
                           listed var_os sites (a lossy or fallible read such as env::var would turn a set but non-UTF-8
                           variable into "absent" and let a default mask it) - shared with C18.
 T  combine table         when two alternatives fail, a final error (ParseFailed / GuardFailed ..) is never replaced by a catchable one
                           (absence), so optional/fallback around a choice cannot mistake an invalid value for a missing item (shared with C10).
 U  usage fallback        a failure is replaced by the usage text on stdout only when the level was given no items at all (shared with C10/C11).
 K5b loop exits          the tests inside a repetition look only at parse_option's result and State::len(); count() adds one on every
                           way from a success of parse_option to the next round or the exit (a success that consumed nothing - env, fallback -
                           counts).
 B builders              the wrappers are built with catch=false and store the user's value / function / message in the field the eval reads (wiring table).
 K6b conversion arms     parse_os_str converts every target except OsString / PathBuf through FromStr of the exact to_str() view and fails on
                           non-UTF-8 input; nothing lossy can reach a value (shared with C02).
 K4b retry            the adjacent-command retry should look at the failure it replaces (it does not: known finding, a final conversion
                           failure inside an adjacent command can be replaced by the retry's success and lose its text).
 K5c closures          the same exit rule holds inside the closure handed to from_fn (collect / many): no test of State::is_empty() or of positions.
 K depth kept / E flags  State.path is only ever pushed (a failed command stays deeper than its siblings; shared with C08); flag presence = line OR any
                        declared variable (shared with C18); the best failed attempt of an adjacent group is measured on its own window (shared with C10).
Does not decide: which error survives for a particular nesting inside alternatives."""
import re
from core import *
from dataflow import *
from cfgq import *
from absint import *
from parsers import *
import scopes

LEVEL = 'other'
EXPLANATION = __doc__
ASSUMPTIONS = ['user closures (parse/guard functions, FromStr) are total and pure',
               'third-party Parser impls cannot consume items (State::remove is crate-private, see C05)']
FLOORS = {'K1.classification': 17, 'K2.context': 20, 'K3.consult': 120, 'K4.discipline': 9, 'K5.loops': 11, 'K6.text': 7, 'E.env-absence': 2, 'T.combine': 200, 'U.usage-fallback': 1, 'B.builders': 15}

CATCHABLE = {'NoEnv', 'ParseSome', 'ParseFail', 'PureFailed', 'Missing', 'NonStrictPos'}

CONVERSION_SITES = {
    'structs::parse_option': 'optional/many/some/count/last: absent or caught -> None, state restored',
    '<structs::ParseFallback<P, T> as Parser<T>>::eval': 'fallback: catchable -> default',
    '<structs::ParseFallbackWith<T, P, F, E> as Parser<T>>::eval': 'fallback_with: catchable -> default',
    '<structs::ParseOrElse<T> as Parser<T>>::eval': 'alternatives: both results handed to this_or_that_picks_first',
    '<structs::ParseAdjacent<P> as Parser<T>>::eval': 'adjacent: scratch pass ignored, failed start positions retried',
    '<params::ParseCommand<T> as Parser<T>>::eval': 'adjacent command: retry on the narrower scope',
    '<info::Info as Parser<info::ExtraParams>>::eval': 'help lookup falls through to version lookup',
    'info::OptionParser::<T>::run_subparser': 'top level: turns the error into help/version/rendered failure',
    'batteries::get_usage': 'helper: renders usage by asking for --help',
}

SUCCESS_CALLS = [r'as Parser<.*>>::eval$', r'^Parser::eval$', r'State>::take_(flag|arg|positional_word|cmd)$', r'State::take_',
                 r'^params::parse_pos_word$', r'ParseArgument::<T>::take_argument$',
                 r'Iterator>?::(find|find_map|next)\\b', r'from_os_str::parse_os_str', r'as std::ops::Fn<']

COMPLETION_PREDICATES = [r'State::touching_last_remove$', r'State::is_comp$', r'State::comp_(mut|ref)$']

def run(ctx):
    cfgs = ['none', 'all'] if ctx.tier == 'quick' else ['none', 'all', 'ac', 'doc', 'dull']
    ctx.preload(cfgs)
    for cfg in cfgs:
        fs = ctx.facts(cfg)
        table = k1(ctx, cfg, fs)
        ctx.guard(k2, ctx, cfg, fs, table)
        ctx.guard(k3, ctx, cfg, fs, table)
        ctx.guard(k4, ctx, cfg, fs)
        import c08, c18, c10
        ctx.guard(c08.keep_only, ctx, lambda: c10.combine(ctx, cfg, fs), lambda o: True, 'T.combine')
        ctx.guard(c08.keep_only, ctx, lambda: c10.usage_fallback(ctx, cfg, ctx.look(fs.one(r'^info::OptionParser::<T>::run_subparser$')), 'U.usage-fallback'), lambda o: True, 'U.usage-fallback')
        ctx.guard(c08.keep_only, ctx, lambda: c18.who(ctx, cfg, fs), lambda o: o.key.startswith(('params::', '<params::')) and 'std::env::' in o.key, 'E.env-absence')
        # "absent" for a flag means: not on the line AND none of its declared variables set (shared with C18)
        ctx.guard(c08.keep_only, ctx, lambda: c18.flag(ctx, cfg, fs), lambda o: True, 'E.env-absence')
        # which failed attempt of an adjacent group is reported: the one that got furthest, measured on its own window (shared with C10)
        ctx.guard(c08.keep_only, ctx, lambda: c10.best_effort(ctx, cfg, fs), lambda o: 'consumed-measured' in o.key or 'ties-keep' in o.key, 'T.combine')
        # the failure of a command that was entered stays final because its depth is kept (State.path is never popped; shared with C08)
        ctx.guard(c08.keep_only, ctx, lambda: c08.matched(ctx, cfg, fs), lambda o: 'State.path:only-pushed' in o.key, 'K4.discipline')
        ctx.guard(k5, ctx, cfg, fs)
        ctx.guard(retry_looks_at_failure, ctx, cfg, fs)
        import consumers
        ctx.guard(consumers.forkers, ctx, cfg, fs, 'K4.discipline')
        import wiring
        ctx.guard(wiring.builders, ctx, cfg, fs, 'B.builders', r'^(Parser::(many|some|optional|collect|count|last|fallback|fallback_with|guard|parse|map|hide)|structs::\w+::<.*>::catch|pure|pure_with|fail|params::NamedArg::(switch|flag|req_flag)|params::build_flag_parser)$')
        ctx.guard(loop_conditions, ctx, cfg, fs)
        ctx.guard(count_counts, ctx, cfg, fs)
        import c02
        ctx.guard(c02.conversion_arms, ctx, cfg, fs, 'K6.text')
        ctx.guard(len_threaded, ctx, cfg, fs)
        ctx.guard(k6, ctx, cfg, fs)

def k1(ctx, cfg, fs):
    cc = ctx.look(fs.one(r'^error::Message::can_catch$'))
    enum, table = enum_const_table(cc)
    variants = fs.variants('error::Message')
    for v in variants:
        want = v in CATCHABLE
        ctx.ob('K1.classification', 'can_catch:%s' % v, table.get(v) is want,
               'can_catch(%s) = %s; expected %s (%s)' % (v, table.get(v), want, 'absence class' if want else 'final class'), where=cc.where(), cfg=cfg)
    extra = set(table) - set(variants)
    if extra:
        ctx.ob('K1.classification', 'can_catch:unknown-variants', False, 'unexpected variants %s' % sorted(extra), cfg=cfg)
    return table

def success_edges(body):
    """edges (a, s) that are the success outcome of a consumer-like call in this body"""
    out = []
    for c in body.calls():
        if not c.is_(*SUCCESS_CALLS):
            continue
        sw = switch_on_call(body, c)
        if sw is None:
            # `?`: Try::branch on the result
            for c2 in body.calls():
                if c2.is_(r'as std::ops::Try>::branch$') and any(r.kind == 'call' and r.call.bb == c.bb for r in provenance(body, c2.args[0], c2.bb, 'term', through=None)):
                    sw2 = switch_on_call(body, c2)
                    if sw2 is not None and sw2.target('Continue') is not None:
                        out.append((sw2.b, sw2.target('Continue'), c))
            continue
        if 'Ok' in sw.edges and c.dest and re.search(r'Result<std::option::Option<', body.local_ty(c.dest[0])):
            # Result<Option<T>>: Ok(None) is absence; the item was found on the Some edge of the payload
            inner = []
            for s2 in switches(body):
                if s2.kind == 'enum' and s2.target('Some') is not None:
                    rs = provenance(body, s2.place, s2.discr_site[0], s2.discr_site[1], through=None)
                    if rs and all(r.kind == 'call' and r.call.bb == c.bb and r.path == ['as Ok', '0'] for r in rs):
                        inner.append(s2)
            if inner:
                for s2 in inner:
                    out.append((s2.b, s2.target('Some'), c))
                continue
        for okv in ('Ok', 'Some', True):
            if okv in sw.edges:
                out.append((sw.b, sw.edges[okv], c))
    return out

def under_completion_predicate(body, blk):
    for (a, s) in body.transitive_control_deps(blk):
        sw = Switch(body, a)
        for r in sw.roots:
            if r.kind == 'call' and r.call.is_(*COMPLETION_PREDICATES):
                return True
            if r.kind == 'call' and r.call.is_(r'Option::<.*>::(is_some|is_none)$') and r.call.args:
                if any(q.kind == 'call' and q.call.is_(*COMPLETION_PREDICATES) for q in provenance(body, r.call.args[0], r.call.bb, 'term', through=None)):
                    return True
        if sw.kind == 'enum':
            rs = provenance(body, sw.place, sw.discr_site[0], sw.discr_site[1], through=None)
            if any(q.kind == 'call' and q.call.is_(*COMPLETION_PREDICATES) for q in rs):
                return True
    return False

def k2(ctx, cfg, fs, table):
    cons = message_constructions(fs)
    for v, sites in sorted(cons.items()):
        for (b, blk, how) in sites:
            if re.search(r'^error::(Message::(render|combine_with)|summarize_missing|check_conflicts)', outer(b.path)):
                continue  # render-time rewriting, not a parse outcome
            ctx.look(b)
            se = success_edges(b)
            after = [c for (a, s, c) in se if only_via_edge(b, a, s, blk)]
            if not after:
                ctx.ob('K2.context', '%s:%s:on-absence' % (short(outer(b.path)), v), True,
                       '%s builds %s on no success edge of a consumer (absence / plain failure)' % (short(b.path), v), where=b.where(blk), cfg=cfg)
                continue
            if under_completion_predicate(b, blk):
                ctx.ob('K2.context', '%s:%s:completion-only' % (short(outer(b.path)), v), True,
                       '%s builds %s after a success but only under a completion-mode predicate (unreachable with completion off, ends in completion output otherwise)' % (short(b.path), v),
                       where=b.where(blk), cfg=cfg)
                continue
            names = sorted({short(c.name) for c in after})
            catchable = table.get(v) is True
            ok = (not catchable) or v == 'NonStrictPos'
            ctx.ob('K2.context', '%s:%s:after-success' % (short(outer(b.path)), v), ok,
                   '%s builds %s after %s succeeded (the item is present); can_catch(%s)=%s%s' % (
                       short(b.path), v, names, v, table.get(v), '' if ok else ' -- a present-but-invalid item would be treated as absent by optional/fallback/many',
                   ) + (' [listed exception: the word found belongs to another consumer]' if v == 'NonStrictPos' else ''),
                   where=b.where(blk), cfg=cfg)

# ---- K3 decision tables ------------------------------------------------------------------

def message_locals(body):
    return [i for i, l in enumerate(body.locals) if l['ty'] == 'error::Message']

def describe_ret(v):
    s = show(v)
    return s

def walk_rows(body, rows, atom_extra=None, call_extra=None):
    """rows: list of dict(res='Ok'|'Err', variant=..., plus named booleans). Returns list of (row, paths)"""
    out = []
    ev = [c for c in body.calls() if c.is_(r'as Parser<.*>>::eval$', r'^Parser::eval$')]
    for row in rows:
        vo = {}
        for l in message_locals(body):
            vo[(l, ())] = row.get('variant')
        def atom(w, sw, store):
            if sw.kind == 'enum':
                rs = provenance(body, sw.place, sw.discr_site[0], sw.discr_site[1], through=None)
                if any(r.kind == 'call' and r.call.is_(r'as Parser<.*>>::eval$', r'^Parser::eval$') and not r.path for r in rs):
                    return row['res']
                if any(r.kind == 'call' and r.call.is_(r'as Parser<.*>>::eval$', r'^Parser::eval$') and r.path[:1] == ['as Err'] for r in rs):
                    return row.get('variant')
            if atom_extra:
                return atom_extra(w, sw, store, row)
            return None
        def cm(w, c, store, row=row):
            if c.is_(r'^error::Message::can_catch$'):
                return ('c', row['can_catch'])
            if c.is_(r'as Parser<.*>>::eval$', r'^Parser::eval$') and any(c.bb == e.bb for e in ev):
                # the outcome of the inner parser as a VALUE (so that `?`, match, map_err and closures all see it); the
                # payload marker tells a passed-through error from a newly built one
                if row['res'] == 'Err':
                    return ('agg', 'std::result::Result', 'Err', [('agg', 'error::Error', None, [('agg', 'error::Message', row.get('variant'), [('c', '<inner>')])])])
                return ('agg', 'std::result::Result', 'Ok', [('c', '<inner value>')])
            if call_extra:
                return call_extra(w, c, store, row)
            return ('callres', c.name, c.bb)
        cm.first = True
        w = Walker(body, atom=atom, call_model=cm, variant_of=vo)
        paths = [p for p in w.run() if p.end == 'return']
        out.append((row, paths))
    return out

def ret_kind(p):
    v = p.ret
    if v is UNKNOWN or v[0] != 'agg':
        return 'unknown:%s' % show(v)
    if v[2] == 'Err':
        return 'Err'
    if v[2] == 'Ok':
        inner = v[3][0] if v[3] else UNKNOWN
        if inner is not UNKNOWN and inner[0] == 'agg' and inner[2] in ('None', 'Some'):
            return 'Ok(%s)' % inner[2]
        return 'Ok'
    return show(v)

def k3(ctx, cfg, fs, table):
    variants = fs.variants('error::Message')
    # fallback / fallback_with
    for rx, nm, dflt in ((r'^<structs::ParseFallback<P, T> as Parser<T>>::eval$', 'ParseFallback', r'value'),
                         (r'^<structs::ParseFallbackWith<T, P, F, E> as Parser<T>>::eval$', 'ParseFallbackWith', r'fallback')):
        body = ctx.look(fs.one(rx))
        rows = [dict(res='Err', variant=v, can_catch=table[v]) for v in variants]
        for row, paths in walk_rows(body, rows):
            v = row['variant']
            kinds = set()
            for p in paths:
                rk = ret_kind(p)
                if rk.startswith('Ok'):
                    # where does the Ok value come from?
                    src = 'default' if p.called(r'as std::clone::Clone>::clone$', r'as std::ops::Fn<') else 'other'
                    kinds.add('Ok:' + src)
                elif rk == 'Err':
                    e = p.ret[3][0]
                    # Err(Error(e)) with the same message, or PureFailed from the fallback function
                    kinds.add('Err')
                else:
                    kinds.add(rk)
            if row['can_catch']:
                ok = kinds <= {'Ok:default', 'Err'} and 'Ok:default' in kinds and (nm == 'ParseFallbackWith' or kinds == {'Ok:default'})
            else:
                ok = kinds == {'Err'}
            ctx.ob('K3.consult', '%s:Err(%s)' % (nm, v), ok,
                   '%s: inner Err(%s) [can_catch=%s] -> %s' % (nm, v, row['can_catch'], sorted(kinds)), where=body.where(), cfg=cfg)
        # the error returned in the final class is the inner error itself
        good = True
        for i, k, st in body.stmts():
            if st['k'] == 'assign' and st['rv']['k'] == 'agg' and st['rv'].get('adt') == 'error::Error':
                rs = provenance(body, st['rv']['fields'][0], i, k)
                for r in rs:
                    if r.kind == 'call' and r.call.is_(r'as Parser<.*>>::eval$') and r.path == ['as Err', '0', '0']:
                        continue
                    if r.kind == 'agg' and r.what == 'error::Message::PureFailed':
                        continue
                    good = False
        ctx.ob('K3.consult', '%s:same-error' % nm, good, '%s returns the inner error unchanged (or PureFailed from the fallback function)' % nm, where=body.where(), cfg=cfg)
        # inner Ok -> Ok(value) with the clone adopted
        for row, paths in walk_rows(body, [dict(res='Ok', variant=None, can_catch=False)]):
            kinds = {ret_kind(p) for p in paths}
            swapped = all(p.called(r'^std::mem::swap') for p in paths)
            ctx.ob('K3.consult', '%s:Ok' % nm, kinds == {'Ok'} and swapped, '%s: inner Ok -> %s, clone adopted by swap on every path: %s' % (nm, sorted(kinds), swapped), where=body.where(), cfg=cfg)

    # hide: only Missing is rewritten (to an empty Missing), everything else passes through
    body = ctx.look(fs.one(r'^<structs::ParseHide<P> as Parser<T>>::eval$'))
    for row, paths in walk_rows(body, [dict(res='Err', variant=v, can_catch=table[v]) for v in variants]):
        v = row['variant']
        def message_of(p):
            r = p.ret
            try:
                return r[3][0][3][0] if (r is not UNKNOWN and r[0] == 'agg' and r[2] == 'Err') else None
            except (IndexError, TypeError):
                return None
        msgs = [message_of(p) for p in paths]
        inner_marker = ('agg', 'error::Message', v, [('c', '<inner>')])
        if all(m_ is not None and m_ is not UNKNOWN and m_[0] == 'agg' for m_ in msgs) and msgs:
            rewrote = any(m_ != inner_marker for m_ in msgs)
            shape_ok = all((m_ == inner_marker) or (m_[2] == 'Missing') for m_ in msgs)
        else:
            # value not tracked to the return: fall back to "a Message is constructed on the path"
            rewrote = any(any(st['k'] == 'assign' and st['rv']['k'] == 'agg' and st['rv'].get('adt') == 'error::Message' for st in body.blocks[b]['stmts']) for p in paths for b in p.blocks)
            shape_ok = True
        ok = rewrote == (v == 'Missing') and shape_ok and bool(paths) and all(ret_kind(p) == 'Err' for p in paths)
        ctx.ob('K3.consult', 'ParseHide:Err(%s)' % v, ok, 'hide: inner Err(%s) is %s' % (v, 'replaced by an anonymous Missing' if rewrote else 'returned unchanged'), where=body.where(), cfg=cfg)

    # parse_option
    body = ctx.look(fs.one(r'^structs::parse_option$'))
    # parameters by TYPE (their names are free to change): the counter is the `&mut usize`, the catch switch the `bool`
    by_ty = {}
    for i in range(1, body.arg_count + 1):
        by_ty.setdefault(body.local_ty(i), []).append(i)
    if len(by_ty.get('bool', [])) != 1 or len(by_ty.get('&mut usize', [])) != 1:
        raise Broken('parse_option: expected one bool (catch) and one &mut usize (progress counter) parameter, found %s' % {k: len(v) for k, v in by_ty.items()})
    params = {'catch': by_ty['bool'][0], 'len': by_ty['&mut usize'][0]}
    LEN_NAME = body.name_of(params['len'])
    def atom_extra(w, sw, store, row):
        if sw.kind == 'bool':
            for r in sw.roots:
                if r.kind == 'bin' and r.extra['op'] in ('Eq', 'Ne', 'Lt', 'Le', 'Gt', 'Ge'):
                    a = provenance(body, r.extra['a'], r.site[0], r.site[1]); b_ = provenance(body, r.extra['b'], r.site[0], r.site[1])
                    def is_len(rs): return bool(rs) and all(x.kind == 'call' and x.call.is_(r'State::len$') for x in rs)
                    def is_lenp(rs): return bool(rs) and all(x.kind == 'param' and x.what == LEN_NAME for x in rs)
                    if is_len(a) and is_len(b_):
                        return row['samelen'] if r.extra['op'] == 'Eq' else (not row['samelen'] if r.extra['op'] == 'Ne' else None)
                    if r.extra['op'] == 'Lt' and is_len(a) and is_lenp(b_):
                        return row['progress']
                    if r.extra['op'] == 'Gt' and is_lenp(a) and is_len(b_):
                        return row['progress']
        return None
    rows = []
    for v in variants:
        for catch in (False, True):
            for samelen in (False, True):
                rows.append(dict(res='Err', variant=v, can_catch=table[v], catch=catch, samelen=samelen, progress=False))
    for row, _ in [(r, None) for r in rows]:
        pass
    results = []
    for row in rows:
        store = {params['catch']: ('c', row['catch'])}
        vo = {(l, ()): row['variant'] for l in message_locals(body)}
        def atom(w, sw, st, row=row):
            if sw.kind == 'enum':
                rs = provenance(body, sw.place, sw.discr_site[0], sw.discr_site[1], through=None)
                if any(r.kind == 'call' and r.call.is_(r'as Parser<.*>>::eval$') and not r.path for r in rs):
                    return row['res']
            return atom_extra(w, sw, st, row)
        def cm(w, c, st, row=row):
            if c.is_(r'^error::Message::can_catch$'):
                return ('c', row['can_catch'])
            return ('callres', c.name, c.bb)
        w = Walker(body, atom=atom, call_model=cm, variant_of=vo)
        paths = [p for p in w.run(0, store) if p.end == 'return']
        kinds = {ret_kind(p) for p in paths}
        v = row['variant']
        missing = v == 'Missing'
        expect_none = (row['catch'] and v != 'ParseFailure') or (missing and row['samelen']) or ((not missing) and row['can_catch'])
        want = {'Ok(None)'} if expect_none else {'Err'}
        restored = all(p.called(r'^std::mem::swap') for p in paths if ret_kind(p) == 'Ok(None)')
        ok = kinds == want and restored
        ctx.ob('K3.consult', 'parse_option:Err(%s):catch=%s:consumed=%s' % (v, row['catch'], not row['samelen']), ok,
               'parse_option: inner Err(%s), catch=%s, inner consumed %s -> %s (expected %s)%s' % (
                   v, row['catch'], 'nothing' if row['samelen'] else 'something', sorted(kinds), sorted(want),
                   '' if restored else '; Ok(None) returned WITHOUT restoring the pre-attempt state'), where=body.where(), cfg=cfg)
    # Ok arm: Some iff progress, and *len updated
    for progress in (False, True):
        row = dict(res='Ok', variant=None, can_catch=False, catch=False, samelen=False, progress=progress)
        def atom(w, sw, st, row=row):
            if sw.kind == 'enum':
                rs = provenance(body, sw.place, sw.discr_site[0], sw.discr_site[1], through=None)
                if any(r.kind == 'call' and r.call.is_(r'as Parser<.*>>::eval$') and not r.path for r in rs):
                    return 'Ok'
            return atom_extra(w, sw, st, row)
        w = Walker(body, atom=atom, call_model=lambda w, c, st: ('callres', c.name, c.bb))
        paths = [p for p in w.run() if p.end == 'return']
        kinds = {ret_kind(p) for p in paths}
        want = {'Ok(Some)'} if progress else {'Ok(None)'}
        upd = all(any(pl == '(*%s)' % LEN_NAME and val[0] == 'callres' and val[1].endswith('State::len') for (_, pl, val) in p.writes) for p in paths) if progress else True
        ctx.ob('K3.consult', 'parse_option:Ok:progress=%s' % progress, kinds == want and upd,
               'parse_option: inner Ok and remaining count %s the previous one -> %s (expected %s)%s' % (
                   'below' if progress else 'not below', sorted(kinds), sorted(want), '' if upd else '; *len is not updated from args.len()'), where=body.where(), cfg=cfg)
    # the progress test must be a strict comparison
    strict = False
    for sw in switches(body):
        for r in sw.roots:
            if r.kind == 'bin' and r.extra['op'] in ('Lt', 'Gt', 'Le', 'Ge'):
                strict = r.extra['op'] in ('Lt', 'Gt')
    ctx.ob('K3.consult', 'parse_option:strict-progress', strict, 'the consumed-something test is a strict comparison: %s' % strict, where=body.where(), cfg=cfg)

def k4(ctx, cfg, fs):
    seen = set()
    for (b, c, cls, d) in conversion_sites(fs):
        o = outer(b.path)
        if cls == 'escapes' and o in ('info::OptionParser::<T>::run',):
            continue
        key = (o, cls if cls != 'escapes' else 'escapes')
        ok = o in CONVERSION_SITES
        ctx.look(b)
        ctx.ob('K4.discipline', '%s:%s:%s' % (short(o), short(c.name), cls), ok,
               '%s: result of %s is %s (%s): %s' % (short(b.path), short(c.name), cls, d, CONVERSION_SITES.get(o, 'NOT a listed Err->Ok conversion site: a failure of a present item can be turned into success here')),
               where=c.where(), cfg=cfg)

def retry_looks_at_failure(ctx, cfg, fs):
    """an adjacent command that failed is tried again on the block it managed to consume, and a success of that retry replaces the
    failure.  That is right when the failure was "something is left over" (the next command of a chain) - and wrong when it was a
    FINAL failure of an item that is present (`cmd --n abc` with `--n` under fallback: the first run fails with the conversion
    error and consumes nothing, the retry on the now empty block succeeds with the default, and the parent reports `--n` as
    unexpected): the conversion text is lost.  The retry would have to look at what kind of failure it is about to replace."""
    b = ctx.look(fs.one(r'^<params::ParseCommand<T> as Parser<T>>::eval$'))
    runs = [c for c in b.calls() if c.is_(r'OptionParser::<T>::run_subparser$')]
    firsts = [c for c in runs if scopes.state_id(b, c.args[1], c.bb) == 'args' and any(x.is_(r'State::adjacently_available_from$') and b.dominates(x.bb, c.bb) for x in b.calls())]
    retries = [c for c in runs if c not in firsts and any(b.dominates(f.bb, c.bb) for f in firsts)]
    if len(firsts) != 1 or len(retries) != 1:
        raise Broken('ParseCommand::eval: adjacent first run / retry not identified (%d/%d)' % (len(firsts), len(retries)))
    first, retry = firsts[0], retries[0]
    # does any test between the failure of the first run and the retry look at the first error?
    looks = []
    for sw in switches(b):
        if not (b.dominates(first.bb, sw.b) and b.reaches(sw.b, [retry.bb])):
            continue
        rs = sw.roots if sw.kind != 'enum' else provenance(b, sw.place, sw.discr_site[0], sw.discr_site[1], through=[r'Result::<.*>::map_err'])
        if any(r.kind == 'call' and r.call.bb == first.bb and any(x.startswith('as Err') for x in r.path) and len(r.path) > 1 for r in rs):
            looks.append(b.where(sw.b))
    ctx.ob('K4.discipline', 'ParseCommand::eval:retry-looks-at-the-failure', bool(looks),
           'the adjacent-command retry replaces the failure of the first run after inspecting it at %s' % (looks or 'NO point: any failure, also a final conversion / guard failure of a present item, is replaced when the retry succeeds'), where=retry.where(), cfg=cfg)

def k5(ctx, cfg, fs):
    users = [b for b in fs.bodies.values() if any(c.is_(r'^structs::parse_option$') for c in b.calls())]
    for b in sorted(users, key=lambda x: x.path):
        ctx.look(b)
        for c in b.calls():
            if not c.is_(r'^structs::parse_option$'):
                continue
            fl = classify_result(b, c)
            in_loop = c.target is not None and c.bb in reachable_edges(b, c.target)
            if b.kind == 'closure':
                # from_fn closure: the result must be returned (transposed) to the collecting iterator
                ok = fl.kinds <= {'returned', 'propagated'} and bool(fl.kinds)
                ctx.ob('K5.loops', '%s:returned-to-collect' % short(b.path), ok,
                       '%s hands the result of parse_option to the collecting iterator (%s)' % (short(b.path), sorted(fl.kinds)), where=c.where(), cfg=cfg)
                # parent collects into Result
                par = fs.body(outer(b.path))
                coll = [x for x in par.calls() if x.is_(r'Iterator>::collect', r'Iterator::collect')]
                okc = bool(coll) and all('std::result::Result<' in x.full for x in coll)
                ctx.ob('K5.loops', '%s:collect-into-result' % short(par.path), okc,
                       '%s collects the repeated results into a Result (first Err stops the collection): %s' % (short(par.path), [x.full[-90:] for x in coll]), where=par.where(), cfg=cfg)
                continue
            if not in_loop:
                ok = bool(fl.kinds) and fl.kinds <= {'returned', 'propagated'}
                ctx.ob('K5.loops', '%s:propagates' % short(b.path), ok, '%s returns/propagates the result of parse_option (%s)' % (short(b.path), sorted(fl.kinds)), where=c.where(), cfg=cfg)
                continue
            removed = list(fl.ok_edges)
            back = c.bb in reachable_edges(b, c.target, removed_edges=removed)
            ok = bool(fl.ok_edges) and not back and ('propagated' in fl.kinds or 'switched' in fl.kinds)
            ctx.ob('K5.loops', '%s:loop-stops-on-failure' % short(b.path), ok,
                   '%s: %s' % (short(b.path), 'the loop is re-entered only through the Ok edge of the test of parse_option\'s result' if ok else
                               'parse_option can be called again although its previous result was an error or was not examined (kinds=%s)' % sorted(fl.kinds)),
                   where=c.where(), cfg=cfg)
            # and the Err edge returns an Err
            errs_ok = True
            for (sb, tb) in fl.err_edges:
                reach = reachable_edges(b, tb)
                if any(o in reach for o in ok_return_blocks(b)):
                    errs_ok = False
            ctx.ob('K5.loops', '%s:failure-is-returned' % short(b.path), errs_ok and bool(fl.err_edges),
                   '%s: no Ok return is reachable from the Err edge of parse_option: %s' % (short(b.path), errs_ok), where=c.where(), cfg=cfg)

def loop_conditions(ctx, cfg, fs, rule='K5.loops'):
    """whether a repetition (many / some / count / last / collect) goes round again depends ONLY on what the inner
    parser just returned and on whether the number of remaining items changed - never on where the consumed item sat or
    on what lies next to it (an item to its right may have been taken by a parser declared earlier, which says nothing
    about further occurrences)."""
    OKCALL = [r'^structs::parse_option$', r'State::len$', r'Try>::branch$', r'Option::<.*>::is_(some|none)$', r'Result::<.*>::is_(ok|err)$', r'Vec::<.*>::(len|is_empty)$']
    for b in sorted(fs.bodies.values(), key=lambda x: x.path):
        for c in b.calls():
            if not c.is_(r'^structs::parse_option$') or c.target is None:
                continue
            if b.kind == 'closure':
                # the body of `from_fn(|| parse_option(..).transpose())`: the collecting iterator is the loop, every test in the
                # closure decides whether the repetition goes on
                cyc = set(b.reachable(0))
            elif c.bb in reachable_edges(b, c.target):
                cyc = {x for x in reachable_edges(b, c.target) if b.reaches(x, [c.bb])} | {c.bb}
            else:
                continue
            ctx.look(b)
            bad = []
            def judge(roots, depth=0):
                for r in roots:
                    if r.kind == 'const':
                        continue
                    if r.kind == 'call' and r.call.is_(*OKCALL):
                        continue
                    if r.kind == 'param' and r.what == 'self':
                        continue
                    if r.kind in ('bin', 'un') and depth < 4:
                        for key in ('a', 'b', 'op_'):
                            o = r.extra.get(key) if isinstance(r.extra, dict) else None
                            if isinstance(o, list):
                                judge(provenance(b, o, r.site[0], r.site[1], through=None), depth + 1)
                        continue
                    if r.kind == 'discr':
                        judge(provenance(b, r.extra['place'], r.site[0], r.site[1], through=None), depth + 1) if depth < 4 else None
                        continue
                    bad.append('%s:%s%s' % (r.kind, r.what if r.kind != 'call' else short(r.call.name), ('.' + '.'.join(r.path)) if r.path else ''))
            for sw in switches(b):
                if sw.b not in cyc:
                    continue
                judge(sw.roots)
            ctx.ob(rule, '%s:goes-on-by-outcome-only' % short(b.path), not bad,
                   '%s: the tests inside the repetition look only at the result of parse_option and at State::len(): %s' % (short(b.path), sorted(set(bad)) or 'ok'), where=c.where(), cfg=cfg)

def count_counts(ctx, cfg, fs, rule='K5.loops'):
    """count() reports how many times the inner parser SUCCEEDED: also a success that consumed nothing (a flag that is only
    present through its environment variable, a fallback) is one occurrence.  The `+ 1` therefore sits on every way from the
    success of parse_option to the next round or to the end of the loop - in particular before the no-progress exit."""
    b = ctx.look(fs.one(r'^<structs::ParseCount<P, T> as Parser<usize>>::eval$'))
    po = [c for c in b.calls() if c.is_(r'^structs::parse_option$')]
    if len(po) != 1:
        raise Broken('ParseCount::eval: expected one parse_option call, found %d' % len(po))
    succ = []
    for sw in switches(b):
        if sw.kind == 'bool' and any(r.kind == 'call' and r.call.is_(r'Option::<.*>::is_(some|none)$') for r in sw.roots):
            r0 = [r for r in sw.roots if r.kind == 'call'][0]
            succ.append(sw.target(r0.call.is_(r'is_some$')))
        elif sw.kind == 'enum' and sw.enum == 'std::option::Option' and sw.target('Some') is not None:
            rs = provenance(b, sw.place, sw.discr_site[0], sw.discr_site[1], through=None)
            if any(r.kind == 'call' and (r.call.bb == po[0].bb or r.call.is_(r'Try>::branch$')) for r in rs):
                succ.append(sw.target('Some'))
    incs = [i for i, k, st in b.stmts() if st['k'] == 'assign' and st['rv']['k'] == 'bin' and st['rv']['op'].startswith('Add') and (op_const(st['rv']['b']) or {}).get('v') == 1
            and b.local_ty((op_place(st['rv']['a']) or [0])[0]) == 'usize']
    ok = bool(succ) and bool(incs)
    missed = []
    for s_ in succ:
        reach = reachable_edges(b, s_, avoid=incs)
        if po[0].bb in reach or any(r_ in reach for r_ in b.return_blocks()):
            missed.append(b.where(s_))
    ctx.ob(rule, 'ParseCount::eval:counts-every-success', ok and not missed,
           'ParseCount::eval adds one on every way from a success of parse_option to the next round or the exit (%d success edge(s), %d increment(s)): %s' % (len(succ), len(incs), missed or 'ok'), where=b.where(), cfg=cfg)

def in_cycle(b, x):
    return any(x in reachable_edges(b, s_) for s_ in b.succ(x))

def len_threaded(ctx, cfg, fs, rule='K5.loops'):
    """parse_option reports a value only when the number of remaining items dropped below `*len` and then lowers
    `*len`: that is a progress test only if the SAME counter is handed in on every iteration.  Each repetition
    must pass a `&mut` of one variable that is set once, before the repetition starts."""
    for b in sorted(fs.bodies.values(), key=lambda x: x.path):
        for c in b.calls():
            if not c.is_(r'^structs::parse_option$'):
                continue
            rs = provenance(b, c.args[1], c.bb, 'term', through=None)
            ok = False; why = 'the counter is %s' % sorted('%s:%s' % (r.kind, r.what) for r in rs)
            if b.kind == 'closure':
                # captured by reference from the enclosing function, where it must be initialised outside any loop
                ok = bool(rs) and all(r.kind == 'upvar' for r in rs)
                par = fs.body(outer(b.path))
                why = 'the counter is the captured variable %s of %s' % (sorted({r.what for r in rs}), short(par.path))
                if ok:
                    for r in rs:
                        ls = [l for l, n in par.local_names.items() if n == r.what]
                        for l in ls:
                            ds = par.whole_defs(l)
                            ok &= len(ds) == 1 and not in_cycle(par, ds[0][0])
            else:
                in_loop = c.target is not None and c.bb in reachable_edges(b, c.target)
                locs = set()
                for i, k, st in b.stmts():
                    pass
                # `&mut len`: a Ref root is reported as the place's own provenance; look at the operand chain directly
                pl = op_place(c.args[1])
                base = None
                seen = set()
                while pl is not None and pl[0] not in seen:
                    seen.add(pl[0])
                    ds = b.whole_defs(pl[0])
                    if len(ds) == 1 and ds[0][2] == 'assign' and ds[0][3]['rv']['k'] in ('ref', 'rawptr'):
                        nxt = ds[0][3]['rv']['place']
                        if nxt[0] in b.local_names or not b.whole_defs(nxt[0]) or b.whole_defs(nxt[0])[0][3].get('rv', {}).get('k') not in ('ref', 'rawptr'):
                            base = nxt[0]; break
                        pl = nxt
                    else:
                        break
                if base is not None:
                    ds = b.whole_defs(base)
                    once = len(ds) == 1 and not in_cycle(b, ds[0][0])        # single initialisation, not inside a loop
                    ok = once or not in_loop
                    why = 'the counter is `%s`, initialised %s' % (b.name_of(base), 'once before the loop' if once else 'at %d place(s), inside the loop' % len(ds))
            ctx.ob(rule, '%s:same-counter-every-iteration' % short(b.path), ok, '%s: %s' % (short(b.path), why), where=c.where(), cfg=cfg)

def k6(ctx, cfg, fs):
    # construction side
    specs = [(r'^<structs::ParseWith<T, P, F, E, R> as Parser<R>>::eval$', 'ParseFailed', 1, 'to_string of the parse function\'s error',
              lambda r: r.kind == 'call' and r.call.is_(r'ToString>::to_string$')),
             (r'^<structs::ParseGuard<P, F> as Parser<T>>::eval$', 'GuardFailed', 1, 'the guard message', lambda r: r.kind == 'param' and r.path == ['message']),
             (r'^<params::ParseArgument<T> as Parser<T>>::eval$', 'ParseFailed', 1, 'the conversion error of parse_os_str', lambda r: r.kind == 'call' and r.call.is_(r'parse_os_str') and r.path == ['as Err', '0']),
             (r'^<params::ParsePositional<T> as Parser<T>>::eval$', 'ParseFailed', 1, 'the conversion error of parse_os_str', lambda r: r.kind == 'call' and r.call.is_(r'parse_os_str') and r.path == ['as Err', '0'])]
    for rx, variant, fld, what, pred in specs:
        b0 = ctx.look(fs.one(rx))
        found = False; good = True; desc = None
        for b in fs.family(b0):
            in_clo = b is not b0
            for i, k, st in b.stmts():
                if st['k'] == 'assign' and st['rv']['k'] == 'agg' and st['rv'].get('adt') == 'error::Message' and st['rv']['variant'] == variant:
                    found = True
                    rs = provenance(b, st['rv']['fields'][fld], i, k, through=None)
                    desc = rs
                    if in_clo:
                        # the message is built by a closure handed to map_err on the failing call: its argument is that call's error
                        me = [c for c in b0.calls() if c.is_(r'Result::<.*>::map_err$') and any(q.kind == 'agg' and q.extra.get('closure') == b.path for q in provenance(b0, c.args[1], c.bb, 'term', through=None))]
                        src = [q for c in me for q in provenance(b0, c.args[0], c.bb, 'term', through=None)]
                        good &= bool(me) and bool(src)
                        if variant == 'ParseFailed' and 'ParseWith' in rx:
                            good &= all(x.kind == 'call' and x.call.is_(r'as std::ops::Fn<') for x in src)
                            good &= bool(rs) and all(r.kind == 'call' and r.call.is_(r'ToString>::to_string$') and all(z.kind == 'param' for z in provenance(b, r.call.args[0], r.call.bb, 'term', through=None)) for r in rs)
                        elif variant == 'ParseFailed':
                            good &= all(x.kind == 'call' and x.call.is_(r'parse_os_str') for x in src) and bool(rs) and all(r.kind == 'param' for r in rs)
                        else:
                            good &= bool(rs) and all(pred(r) or r.kind == 'upvar' for r in rs)
                        continue
                    good &= bool(rs) and all(pred(r) for r in rs)
                    if variant == 'ParseFailed' and 'ParseWith' in rx:
                        # to_string of the Err payload of the user function
                        for r in rs:
                            if r.kind == 'call':
                                inner = provenance(b, r.call.args[0], r.call.bb, 'term', through=None)
                                good &= all(x.kind == 'call' and x.call.is_(r'as std::ops::Fn<') and x.path == ['as Err', '0'] for x in inner)
        ctx.ob('K6.text', '%s:%s-text' % (short(b0.path), variant), found and good, '%s stores %s in %s (%s)' % (short(b0.path), what, variant, desc), where=b0.where(), cfg=cfg)
    # render side
    b = ctx.look(fs.one(r'^error::Message::render$'))
    for variant in ('ParseFailed', 'GuardFailed', 'PureFailed'):
        fld = {'ParseFailed': '1', 'GuardFailed': '1', 'PureFailed': '0'}[variant]
        hit = False
        for c in b.calls():
            if c.is_(r'^buffer::Doc::text$'):
                rs = provenance(b, c.args[1], c.bb, 'term')
                if rs and all(r.path[-2:] == ['as ' + variant, fld] for r in rs):
                    hit = True
        ctx.ob('K6.text', 'render:%s-text' % variant, hit, 'Message::render writes the text carried by %s into the error document: %s' % (variant, hit), where=b.where(), cfg=cfg)
