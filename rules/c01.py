"""C01 - parsing conforms to the declared grammar (structural clauses only).

Decides:
 C consumer discipline  each primitive consumer takes the LEFTMOST unconsumed matching item in scope: it searches
                        the scope- and presence-filtered iterator with find/find_map/next (no reversing or skipping
                        adaptor), named consumers and positionals over the whole scope, take_cmd and non-anywhere
                        `any` at the front only; success is returned only after remove() of every index read.
 P primitives           iterator / remove / get / set_scope guards (see C05).
 W sequential composition  every documented form of construct! (witness crate expanded with the CURRENT macro):
                        one eval per field, in declaration order, all on the shared state, no short-circuit unless
                        failfast, `?` after the last eval in declaration order, value built from the n results,
                        Meta::And over the same fields.
 K repetition           parse_option decision table: Some only on strict progress; None exactly for
                        catch / (Missing and nothing consumed) / (non-Missing catchable) with state restored;
                        loops in some/count/last/many/collect leave on failure (shared with C06).
 O leftover             run_subparser returns Ok only when nothing is left in scope; "no arguments were given" is decided on the state
                        as it was BEFORE the parser ran (shared with C10).
 L lossless / B boundaries  typed values reach the conversion unaltered (PathBuf/OsString without to_str) and the byte-level
                        split of `-x=value` uses the real width of the first character (shared with C02).
 T separator           the pre-consumed `--` marker is the item at the position it was tokenized into (shared with C09).
 R registry             the short-name registry behind `-abc` splitting is complete and wired straight (shared with C02).
 N name once       a command name is consumed once: the spellings are tried until the FIRST take_cmd succeeds and no further spelling is
                        compared with the next item afterwards; take_cmd records the matched position (shared with C08).
 A accept sets      which kinds of item each consumer may claim (ArgWord only as the value of the name in front of it; shared with C05/C09).
 X repetition exit  whether many/some/count/last/collect go round again depends only on parse_option's result and State::len();
                        count() adds one on every way from a success to the next round or the exit; only the listed functions call
                        State::remove / get / set_scope.
 B builders        wiring table of the combinator API (rules/wiring.py): what each constructor / builder method stores in which field of the parser
                        it returns (many/optional/some/collect: catch=false; switch: present true, absent false; short/long/env: each into its own list;
                        positional: unrestricted; command: the given name is the first long name ..).
 R registry wiring  run_inner feeds the tokenizer the short names of the parser's OWN raw meta (not the help-normalised one, which drops all but the first
                        sibling command) - shared with C02.
 C flag consumption / D derive names  a flag spelled on the line is taken from the line whatever its environment variable says (shared with C18); the
                        naming members of the derive family agree with their documented equivalents (one character -> short name, words, raw identifiers; C17).
Does not decide: that the composition accepts exactly the declared language and attributes values correctly
for every shape x vector (language equivalence over run-time data)."""
from core import *
import consumers, shapes, c06, c12, c02, c08
from cfgq import *
from dataflow import *

LEVEL = 'other'
EXPLANATION = __doc__
ASSUMPTIONS = ['user closures and FromStr impls are total and pure', 'the witness forms of construct! cover the documented forms; other call shapes expand through the same macro arms']
FLOORS = {'D.derive-names': 6, 'C.consumers': 22, 'P.primitives': 13, 'W.construct': 70, 'K3.consult': 120, 'K5.loops': 11, 'O.leftover': 2, 'F.parsecon': 3, 'R.registry': 14, 'L.lossless': 2, 'B.boundaries': 3, 'T.separator': 2, 'N.name-once': 2, 'A.accept-sets': 8, 'B.builders': 50}

def run(ctx):
    cfgs = ['none', 'all'] if ctx.tier == 'quick' else ['none', 'all', 'ac', 'doc', 'bat']
    ctx.preload(cfgs)
    for cfg in cfgs:
        fs = ctx.facts(cfg)
        ctx.guard(consumers.consumers, ctx, cfg, fs, 'C.consumers')
        ctx.guard(consumers.primitives, ctx, cfg, fs, 'P.primitives')
        ctx.guard(consumers.itemstate, ctx, cfg, fs, 'P.primitives')
        ctx.guard(consumers.leftover, ctx, cfg, fs, 'O.leftover')
        table = c06.k1(ctx, cfg, fs)
        ctx.guard(c06.k3, ctx, cfg, fs, table)
        ctx.guard(c06.k5, ctx, cfg, fs)
        ctx.guard(c06.loop_conditions, ctx, cfg, fs)
        ctx.guard(c06.count_counts, ctx, cfg, fs)
        ctx.guard(consumers.ledger_callers, ctx, cfg, fs, 'P.primitives')
        ctx.guard(c06.len_threaded, ctx, cfg, fs)
        ctx.guard(parsecon, ctx, cfg, fs)
        ctx.guard(c12.walker_rules, ctx, cfg, fs, 'R.registry', {'collect_shorts': c12.WALKERS['collect_shorts']})
        ctx.guard(c08.keep_only, ctx, lambda: c02.registry(ctx, cfg, fs), lambda o: True, 'R.registry')
        ctx.guard(c08.keep_only, ctx, lambda: c02.name_search(ctx, cfg, fs), lambda o: o.rule == 'R.registry', 'R.registry')
        ctx.guard(c08.keep_only, ctx, lambda: c02.lossless(ctx, cfg, fs), lambda o: 'parse_os_str' in o.key or o.key.startswith('value-path'), 'L.lossless')
        ctx.guard(c08.keep_only, ctx, lambda: c02.boundaries(ctx, cfg, fs), lambda o: True, 'B.boundaries')
        import c10
        ctx.guard(c08.keep_only, ctx, lambda: c10.usage_fallback(ctx, cfg, ctx.look(fs.one(r'^info::OptionParser::<T>::run_subparser$')), 'O.leftover'), lambda o: True, 'O.leftover')
        import c09
        ctx.guard(c08.keep_only, ctx, lambda: c09.tokenizer(ctx, cfg, fs), lambda o: 'marker-' in o.key, 'T.separator')
        ctx.guard(c08.first_name_only, ctx, cfg, fs, 'N.name-once')
        ctx.guard(c08.keep_only, ctx, lambda: c08.name_first(ctx, cfg, fs), lambda o: 'records-position' in o.key, 'N.name-once')
        ctx.guard(consumers.accept_sets, ctx, cfg, fs, 'A.accept-sets')
        import c18
        # a flag spelled on the line is CONSUMED from the line whatever its environment variable says (shared with C18)
        ctx.guard(c08.keep_only, ctx, lambda: c18.flag(ctx, cfg, fs), lambda o: 'take_flag-unconditional' in o.key or 'env-only-when-absent' in o.key, 'C.consumers')
        import wiring
        ctx.guard(wiring.builders, ctx, cfg, fs, 'B.builders')
    ctx.guard(shapes.construct_shapes, ctx, 'W.construct')
    # the declared grammar of a derived parser: which name a field gets (one character -> short, otherwise long; words; raw identifiers;
    # non-ASCII) - the naming members of the derive translation validation (shared with C17)
    import c17
    ctx.guard(c17.members_agree, ctx, 0, 'D.derive-names', lambda mod, kind, name: mod in ('b_names', 'b_non_ascii', 'b_case_rule', 'b_case_rule_enum', 'b_cmd_multiword', 'b_switch_arg'))

def parsecon(ctx, cfg, fs):
    b = ctx.look(fs.one(r'^<structs::ParseCon<P> as Parser<T>>::eval$'))
    calls = [c for c in b.calls() if c.is_(r'as std::ops::Fn<')]
    ok = len(calls) == 1
    ff = False; st_ok = False
    if ok:
        rs = provenance(b, calls[0].args[1], calls[0].bb, 'term', through=None)
        for r in rs:
            if r.kind == 'agg' and r.what == 'tuple':
                f0 = provenance(b, r.extra['fields'][0], r.site[0], r.site[1]); f1 = provenance(b, r.extra['fields'][1], r.site[0], r.site[1], through=None)
                ff = all(x.kind == 'param' and x.path == ['failfast'] for x in f0) and bool(f0)
                st_ok = all(x.kind == 'param' and x.what == 'args' for x in f1) and bool(f1)
    ctx.ob('F.parsecon', 'ParseCon::eval:calls-inner', ok and ff and st_ok, 'ParseCon::eval calls the construct! closure once with (self.failfast, args): failfast=%s state=%s' % (ff, st_ok), where=b.where(), cfg=cfg)
    rets = []
    for i, k, st in b.stmts():
        if st['k'] == 'assign' and st['lhs'] == [0, []]:
            rets += provenance(b, st['rv']['op'], i, k, through=None) if st['rv']['k'] == 'use' else [Root('other', st['rv']['k'], [])]
    ctx.ob('F.parsecon', 'ParseCon::eval:returns-inner', bool(rets) and all(r.kind == 'call' and r.call.is_(r'as std::ops::Fn<') for r in rets), 'ParseCon::eval returns the closure result unchanged: %s' % rets, where=b.where(), cfg=cfg)
    a = ctx.look(fs.one(r'^structs::ParseCon::<T>::adjacent$'))
    sets = [st for i, k, st in a.stmts() if st['k'] == 'assign' and 'failfast' in place_fields(st['lhs'])]
    ok = len(sets) == 1 and (op_const(sets[0]['rv'].get('op', ['?'])) or {}).get('v') is True
    wraps = [st for i, k, st in a.stmts() if st['k'] == 'assign' and st['rv']['k'] == 'agg' and st['rv'].get('adt', '').endswith('ParseAdjacent')]
    ctx.ob('F.parsecon', 'ParseCon::adjacent:failfast', ok and len(wraps) == 1, '.adjacent() turns failfast on and wraps the group in ParseAdjacent: %s' % (ok and len(wraps) == 1), where=a.where(), cfg=cfg)
