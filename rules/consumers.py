"""Consumer discipline shared by C01 / C03 / C05 / C08 / C09 / C02: the consumption ledger, its
primitives and the five primitive consumers."""
import re
from core import *
from dataflow import *
from cfgq import *
from parsers import *

STATE = 'args::inner::State'
LEDGER_WRITERS = {
    'item_state': {'args::inner::State::remove': 'marks the consumed item Parsed',
                   'args::inner::State::save_conflicts': 'marks items the losing alternative consumed as Conflict (still present)'},
    'remaining': {'args::inner::State::remove': 'paired with the Parsed mark',
                  'args::inner::State::set_scope': 'recomputed as the number of present items in the new scope'},
    'scope': {'args::inner::State::set_scope': 'the only scope writer'},
}
STATE_BUILDERS = {'args::inner::State::construct': 'tokenizer', '<args::inner::State as std::clone::Clone>::clone': 'derived Clone'}
PARSED_BUILDERS = {'args::inner::State::construct': 'pre-consumes the `--` marker', 'args::inner::State::remove': 'consumption'}

# who may call the primitives that consume / read single ledger entries (resolved callers on the reviewed tree)
LEDGER_CALLERS = {
    r'^args::inner::State::remove$': {
        'args::<impl args::inner::State>::take_flag': 'the flag consumer', 'args::<impl args::inner::State>::take_arg': 'the argument consumer (name and value)',
        'args::<impl args::inner::State>::take_cmd': 'the command-name consumer', 'args::<impl args::inner::State>::take_positional_word': 'the positional consumer',
        '<params::ParseAny<T> as Parser<T>>::eval': '`any`: removes the item (and an attached value) its check accepted'},
    r'^args::inner::State::get$': {
        'args::<impl args::inner::State>::take_arg': 'reads the value slot next to the matched name',
        'error::Message::render': 'quotes the offending item in the message'},
    r'^args::inner::State::set_scope$': {
        "<args::inner::ArgRangesIter<'a> as std::iter::Iterator>::next": 'adjacent group: window starting at a present item',
        '<params::ParseCommand<T> as Parser<T>>::eval': 'command: `name..end`, adjacency narrowing and restore',
        '<structs::ParseAdjacent<P> as Parser<T>>::eval': 'adjacent group: trim / restore',
        'error::summarize_missing': 'error text: looks at the whole line on a private clone'},
}

# who may fork the state: an attempt that may be thrown away runs on a clone; everybody else works on the state it was given, so that
# what a deeper parser consumed (and how deep it got) is still there when its failure reaches an enclosing choice or command
FORKERS = {
    'structs::parse_option': 'optional / many / some / ..: the attempt is undone when its failure is absorbed',
    '<structs::ParseFallback<P, T> as Parser<T>>::eval': 'fallback: attempt undone when the value is substituted',
    '<structs::ParseFallbackWith<T, P, F, E> as Parser<T>>::eval': 'fallback_with: same',
    '<structs::ParseOrElse<T> as Parser<T>>::eval': 'alternatives: one fork per branch, exactly one adopted',
    '<structs::ParseAdjacent<P> as Parser<T>>::eval': 'adjacent group: probes and attempts on scratch states',
    '<params::ParseCommand<T> as Parser<T>>::eval': 'adjacent command: retry on the narrowed block',
    "<args::inner::ArgRangesIter<'a> as std::iter::Iterator>::next": 'adjacent group: one scratch state per start position',
    'error::summarize_missing': 'error text only: looks at a private clone',
}

def forkers(ctx, cfg, fs, rule):
    seen = {}
    for b in fs.bodies.values():
        for c in b.calls():
            if c.is_(r'^<args::inner::State as std::clone::Clone>::clone$'):
                seen.setdefault(outer(b.path), c.where())
    if not seen:
        raise Broken('no caller of State::clone found')
    for fn, where in sorted(seen.items()):
        ctx.ob(rule, 'forks:State<-%s' % short(fn), fs.listed(fn, FORKERS), '%s clones the State: %s' % (short(fn), FORKERS.get(fn, 'NOT a listed forking site (a pass-through wrapper must evaluate its inner parser on the state it was given)')), where=where, cfg=cfg)

def ledger_callers(ctx, cfg, fs, rule):
    """an item is taken off the line only by the five consumers: a parser that peeks at / removes a neighbouring item on its
    own (a flag eating a following `true`) makes the outcome depend on what happens to stand next to it"""
    for rx, table in LEDGER_CALLERS.items():
        seen = {}
        for b in fs.bodies.values():
            for c in b.calls():
                if c.is_(rx):
                    seen.setdefault(outer(b.path), c.where())
        if not seen:
            raise Broken('no caller of %s found' % rx)
        prim = rx.strip('^$').split('::')[-1]
        for fn, where in sorted(seen.items()):
            ctx.ob(rule, 'callers:%s<-%s' % (prim, short(fn)), fs.listed(fn, table), '%s calls State::%s: %s' % (short(fn), prim, table.get(fn, 'NOT a listed caller (only the primitive consumers touch single items of the ledger)')), where=where, cfg=cfg)

def field_accesses(place):
    return [(pr[2], pr[4]) for pr in place[1] if pr[0] == 'f']

def ledger(ctx, cfg, fs, rule):
    """WHO-write census of the consumption ledger + visibility"""
    writes = {}
    for b in fs.bodies.values():
        for i, k, st in b.stmts():
            if st['k'] != 'assign':
                continue
            for (fn, pt) in field_accesses(st['lhs']):
                if pt == STATE:
                    writes.setdefault(fn, {}).setdefault(outer(b.path), b.where(i))
            rv = st['rv']
            if rv['k'] in ('ref', 'rawptr') and rv['mut']:
                for (fn, pt) in field_accesses(rv['place']):
                    if pt == STATE:
                        writes.setdefault(fn, {}).setdefault(outer(b.path), b.where(i))
            if rv['k'] == 'agg' and rv.get('adt') == STATE:
                writes.setdefault('<State aggregate>', {}).setdefault(outer(b.path), b.where(i))
            if rv['k'] == 'agg' and rv.get('adt') == 'args::ItemState' and rv.get('variant') == 'Parsed':
                writes.setdefault('<ItemState::Parsed>', {}).setdefault(outer(b.path), b.where(i))
    for fld, table in LEDGER_WRITERS.items():
        for fn, where in sorted(writes.get(fld, {}).items()):
            ctx.ob(rule, 'ledger:%s<-%s' % (fld, short(fn)), fs.listed(fn, table),
                   '%s writes State.%s: %s' % (short(fn), fld, table.get(fn, 'NOT a listed writer of the consumption ledger')), where=where, cfg=cfg)
        if not writes.get(fld):
            raise Broken('no writer of State.%s found' % fld)
    for fn, where in sorted(writes.get('<State aggregate>', {}).items()):
        ctx.ob(rule, 'ledger:State{}<-%s' % short(fn), fs.listed(fn, STATE_BUILDERS), '%s builds a State value: %s' % (short(fn), STATE_BUILDERS.get(fn, 'NOT a listed constructor')), where=where, cfg=cfg)
    for fn, where in sorted(writes.get('<ItemState::Parsed>', {}).items()):
        ctx.ob(rule, 'ledger:Parsed<-%s' % short(fn), fs.listed(fn, PARSED_BUILDERS), '%s produces ItemState::Parsed: %s' % (short(fn), PARSED_BUILDERS.get(fn, 'NOT a listed producer')), where=where, cfg=cfg)
    # encapsulation: the ledger fields are private to args::inner, the primitives are crate-private
    adt = fs.adt(STATE)
    for f in adt['variants'][0]['fields']:
        if f['name'] in LEDGER_WRITERS:
            ok = 'args::inner' in f['vis'] and f['vis'].startswith('Restricted')
            ctx.ob(rule, 'ledger:vis:%s' % f['name'], ok, 'State.%s is visible in %s (must be private to args::inner)' % (f['name'], f['vis']), cfg=cfg)
    for fn in ('remove', 'set_scope', 'construct', 'save_conflicts'):
        b = fs.body('args::inner::State::%s' % fn)
        vis = b.j.get('vis', '')
        ctx.ob(rule, 'ledger:vis:fn:%s' % fn, vis.startswith('Restricted'), 'State::%s visibility is %s (code outside the crate, e.g. a third-party Parser impl, cannot consume items)' % (fn, vis), where=b.where(), cfg=cfg)

def guard_edges(body, pats_subject):
    """true-edges of the bool switches testing calls matching the patterns:
    returns list of (Switch, call)"""
    out = []
    for c in body.calls():
        if c.is_(*pats_subject):
            sw = switch_on_call(body, c)
            if sw is not None and sw.kind == 'bool':
                out.append((sw, c))
    return out

def primitives(ctx, cfg, fs, rule):
    # State::remove
    b = ctx.look(fs.body('args::inner::State::remove'))
    cont = [(sw, c) for (sw, c) in guard_edges(b, [r'^std::ops::Range::<usize>::contains']) if any('scope' in r.path for r in provenance(b, c.args[0], c.bb, 'term'))]
    pres = guard_edges(b, [r'^args::ItemState::present$'])
    writes = []
    for i, k, st in b.stmts():
        if st['k'] == 'assign' and (any(pt == STATE for (_, pt) in field_accesses(st['lhs'])) or (st['lhs'][1] and st['lhs'][1][0][0] == '*' and st['lhs'][0] > b.arg_count)):
            writes.append((i, place_str(st['lhs'], b)))
    ok = bool(cont) and bool(pres) and bool(writes)
    for (i, pl) in writes:
        g1 = any(only_via_edge(b, sw.b, sw.target(True), i) for (sw, c) in cont)
        g2 = any(only_via_edge(b, sw.b, sw.target(True), i) for (sw, c) in pres)
        ctx.ob(rule, 'remove:guarded:%s' % pl, g1 and g2,
               'State::remove writes %s only under scope.contains(index)=%s and item_state[index].present()=%s' % (pl, g1, g2), where=b.where(i), cfg=cfg)
    ctx.ob(rule, 'remove:guards-exist', ok, 'State::remove has a scope test, a presence test and %d guarded writes' % len(writes), where=b.where(), cfg=cfg)
    # the presence test reads item_state[index] with the parameter index
    for (sw, c) in pres:
        rs = provenance(b, c.args[0], c.bb, 'term')
        good = bool(rs) and all('item_state' in r.path for r in rs)
        ctx.ob(rule, 'remove:presence-of-index', good, 'the presence test inspects item_state[..]: %s' % rs, where=c.where(), cfg=cfg)
    # pairing: remaining decremented by exactly one and Parsed stored, both present
    dec = any(st['k'] == 'assign' and st['rv']['k'] == 'bin' and st['rv']['op'].startswith('Sub') and (op_const(st['rv']['b']) or {}).get('v') == 1
              and 'remaining' in place_fields(op_place(st['rv']['a']) or [0, []]) for _, _, st in b.stmts())
    parsed = any(st['k'] == 'assign' and st['rv']['k'] == 'agg' and st['rv'].get('variant') == 'Parsed' for _, _, st in b.stmts())
    ctx.ob(rule, 'remove:pairing', dec and parsed, 'State::remove decrements remaining by one (%s) and stores Parsed (%s)' % (dec, parsed), where=b.where(), cfg=cfg)

    # State::get
    b = ctx.look(fs.body('args::inner::State::get'))
    cont = [(sw, c) for (sw, c) in guard_edges(b, [r'^std::ops::Range::<usize>::contains']) if any('scope' in r.path for r in provenance(b, c.args[0], c.bb, 'term'))]
    pres = guard_edges(b, [r'^args::ItemState::present$'])
    somes = value_sites(b, 'Some')
    good = bool(somes) and all(any(only_via_edge(b, sw.b, sw.target(True), i) for (sw, c) in cont) and any(only_via_edge(b, sw.b, sw.target(True), i) for (sw, c) in pres) for i in somes)
    ctx.ob(rule, 'get:guarded', good, 'State::get returns Some only for an in-scope, present index: %s' % good, where=b.where(), cfg=cfg)

    # ArgsIter::next
    b = ctx.look(fs.one(r"^<args::inner::ArgsIter<'a> as std::iter::Iterator>::next$"))
    cont = [(sw, c) for (sw, c) in guard_edges(b, [r'^std::ops::Range::<usize>::contains']) if any('scope' in r.path for r in provenance(b, c.args[0], c.bb, 'term'))]
    pres = guard_edges(b, [r'^args::ItemState::present$'])
    somes = value_sites(b, 'Some')
    good = bool(somes) and all(any(only_via_edge(b, sw.b, sw.target(True), i) for (sw, c) in cont) and any(only_via_edge(b, sw.b, sw.target(True), i) for (sw, c) in pres) for i in somes)
    ctx.ob(rule, 'ArgsIter::next:guarded', good, 'ArgsIter::next yields an item only when it is in scope and present: %s' % good, where=b.where(), cfg=cfg)
    # yields (ix, &items[ix]) for the same ix it tested
    same = False
    for i in somes:
        for k, st in enumerate(b.blocks[i]['stmts']):
            if st['k'] == 'assign' and st['lhs'] == [0, []]:
                rs = provenance(b, st['rv']['fields'][0], i, k, through=None)
                for r in rs:
                    if r.kind == 'agg' and r.what == 'tuple':
                        f0 = provenance(b, r.extra['fields'][0], r.site[0], r.site[1])
                        f1 = r.extra['fields'][1]
                        p1 = op_place(f1)
                        ix_local = None
                        d1 = provenance(b, f1, r.site[0], r.site[1], through=None)
                        same = bool(f0) and all(('cur' in x.path) or (x.kind == 'bin' and x.extra['op'].startswith('Add') and 'cur' in place_fields(op_place(x.extra['a']) or [0, []])) for x in f0)
    ctx.ob(rule, 'ArgsIter::next:yields-tested-index', same, 'the index yielded is the cursor value that was tested: %s' % same, where=b.where(), cfg=cfg)
    # advances by exactly one, forward
    adv = [st for _, _, st in b.stmts() if st['k'] == 'assign' and st['rv']['k'] == 'bin' and 'cur' in place_fields(op_place(st['rv']['a']) or [0, []])]
    ok = len(adv) == 1 and adv[0]['rv']['op'].startswith('Add') and (op_const(adv[0]['rv']['b']) or {}).get('v') == 1
    ctx.ob(rule, 'ArgsIter::next:advance-by-one', ok, 'the cursor advances by +1 per step (left to right): %s' % ok, where=b.where(), cfg=cfg)
    # items_iter starts at scope.start
    b = ctx.look(fs.body('args::inner::State::items_iter'))
    good = False
    for i, k, st in b.stmts():
        if st['k'] == 'assign' and st['rv']['k'] == 'agg' and st['rv'].get('adt', '').endswith('ArgsIter'):
            names = st['rv']['field_names']
            rs = provenance(b, st['rv']['fields'][names.index('cur')], i, k)
            good = bool(rs) and all(r.path == ['scope', 'start'] for r in rs)
    ctx.ob(rule, 'items_iter:starts-at-scope-start', good, 'items_iter starts at scope.start: %s' % good, where=b.where(), cfg=cfg)

    # set_scope recomputes remaining as count of present items in the new scope
    b = ctx.look(fs.body('args::inner::State::set_scope'))
    ok = False; desc = None
    fam = fs.family(b)
    uses_present = any(fn_ == 'args::ItemState::present' for x in fam for (_, fn_, _) in fn_refs(x)) or \
        any(c.is_(r'^args::ItemState::present$') for x in fam if x.kind == 'closure' for c in x.calls())
    for i, k, st in b.stmts():
        if st['k'] == 'assign' and 'remaining' in place_fields(st['lhs']):
            rs = provenance(b, st['rv']['op'], i, k, through=None) if st['rv']['k'] == 'use' else []
            desc = rs
            for r in rs:
                if r.kind == 'call' and r.call.is_(r'Iterator>?::count'):
                    chain = r.call.full
                    # the counted iterator is a filter over item_state[scope]
                    base = provenance(b, r.call.args[0], r.call.bb, 'term', through=DEFAULT_THROUGH + [r'Iterator>?::(filter|copied|cloned)$', r'slice::<impl \[T\]>::iter$', r'IntoIterator>?::into_iter$'])
                    on_ledger = bool(base) and all('item_state' in q.path for q in base)
                    ok = uses_present and 'Filter' in chain and on_ledger
    if not ok:
        # the same count written as a loop: remaining <- 0, +1 for every element of item_state[scope] that is present()
        LOOP = DEFAULT_THROUGH + [r'Iterator>?::(next|copied|cloned|by_ref)$', r'slice::<impl \[T\]>::iter$', r'IntoIterator>?::into_iter$']
        for i, k, st in b.stmts():
            if st['k'] == 'assign' and 'remaining' in place_fields(st['lhs']) and st['rv']['k'] == 'use':
                rs = provenance(b, st['rv']['op'], i, k, through=None)
                zero = any(r.kind == 'const' and r.what == 0 for r in rs)
                incs = [r for r in rs if r.kind == 'bin' and r.extra['op'].startswith('Add') and (op_const(r.extra['b']) or {}).get('v') == 1]
                other = [r for r in rs if not (r.kind == 'const' and r.what == 0) and r not in incs]
                good = zero and bool(incs) and not other
                for r in incs:
                    guarded = False
                    for (a_, s_) in b.transitive_control_deps(r.site[0]):
                        sw = Switch(b, a_)
                        if sw.kind == 'bool' and s_ == sw.target(True) and sw.roots and all(q.kind == 'call' and q.call.is_(r'^args::ItemState::present$') for q in sw.roots):
                            for q in sw.roots:
                                base = provenance(b, q.call.args[0], q.call.bb, 'term', through=LOOP)
                                if base and all('item_state' in z.path for z in base):
                                    guarded = True
                    good &= guarded
                ok = ok or good
    ctx.ob(rule, 'set_scope:remaining-recount', ok, 'set_scope recomputes remaining as the number of present() items of the new scope: %s' % ok, where=b.where(), cfg=cfg)
    assigned = any(st['k'] == 'assign' and place_fields(st['lhs']) == ['scope'] and all(r.kind == 'param' and r.what == 'scope' for r in provenance(b, st['rv']['op'], i, k)) for i, k, st in b.stmts() if st['rv']['k'] == 'use')
    ctx.ob(rule, 'set_scope:assigns-parameter', assigned, 'set_scope stores its parameter as the new scope: %s' % assigned, where=b.where(), cfg=cfg)

ITEMSTATE_INSPECTORS = {
    'args::ItemState::present': 'the presence classification',
    'args::ItemState::parsed': 'the consumed classification',
    'args::inner::State::conflict': 'reads the index stored in Conflict(_) for the error message',
    '<args::ItemState as std::cmp::PartialEq>::eq': 'derived',
    '<args::ItemState as std::fmt::Debug>::fmt': 'derived',
    '<args::ItemState as std::clone::Clone>::clone': 'derived',
}

def itemstate(ctx, cfg, fs, rule):
    """the three-valued item state is classified in one place: Unparsed and Conflict are `present`, Parsed is not"""
    for fn, want in (('present', {'Unparsed': True, 'Conflict': True, 'Parsed': False}), ('parsed', {'Unparsed': False, 'Conflict': False, 'Parsed': True})):
        b = ctx.look(fs.body('args::ItemState::%s' % fn))
        enum, t = enum_const_table(b)
        ctx.ob(rule, 'ItemState::%s:table' % fn, t == want, 'ItemState::%s = %s (expected %s: an item claimed only by the losing alternative stays available)' % (fn, t, want), where=b.where(), cfg=cfg)
    for b in fs.bodies.values():
        hits = []
        for sw in switches(b):
            if sw.kind == 'enum' and sw.enum == 'args::ItemState':
                hits.append('match on ItemState')
        for c in b.calls():
            if c.is_(r'^<args::ItemState as std::cmp::PartialEq>::eq$', r'ItemState as std::cmp::PartialEq'):
                hits.append('ItemState == ..')
        if hits:
            o = outer(b.path)
            ctx.ob(rule, 'ItemState:inspected-by:%s' % short(o), fs.listed(o, ITEMSTATE_INSPECTORS),
                   '%s inspects ItemState directly (%s): %s' % (short(b.path), sorted(set(hits)), ITEMSTATE_INSPECTORS.get(o, 'NOT a listed classifier - presence must be decided by ItemState::present()/parsed() so that conflict-marked items are treated uniformly')),
                   where=b.where(), cfg=cfg)
    # every presence query of State goes through ItemState::present
    for fn in ('args::inner::State::present', 'args::inner::State::get', 'args::inner::State::remove', 'args::inner::State::adjacently_available_from',
               'args::inner::State::adjacent_scope', 'args::inner::State::set_scope'):
        b = ctx.look(fs.body(fn))
        uses = [c for x in fs.family(b) for c in x.calls() if c.is_(r'^args::ItemState::present$')]
        refs = [fn_ for x in fs.family(b) for (_, fn_, _) in fn_refs(x) if fn_ == 'args::ItemState::present']
        ctx.ob(rule, 'ItemState:present-used-by:%s' % short(fn), bool(uses) or bool(refs), '%s decides presence with ItemState::present(): %s' % (short(fn), bool(uses) or bool(refs)), where=b.where(), cfg=cfg)

ITER_ALLOWED = {'find': 'whole-scope', 'find_map': 'whole-scope', 'next': 'front-only'}
CONSUMERS = {
    'take_flag': ('args::<impl args::inner::State>::take_flag', 'whole-scope'),
    'take_arg': ('args::<impl args::inner::State>::take_arg', 'whole-scope'),
    'take_positional_word': ('args::<impl args::inner::State>::take_positional_word', 'whole-scope'),
    'take_cmd': ('args::<impl args::inner::State>::take_cmd', 'front-only'),
}

def iter_calls(body):
    """Iterator method calls whose receiver is the items_iter() iterator"""
    out = []
    for c in body.calls():
        m = re.search(r'Iterator>?::(\w+)', c.name)
        if not m or not c.args:
            continue
        rs = provenance(body, c.args[0], c.bb, 'term', through=DEFAULT_THROUGH + [r'Iterator>?::(rev|skip|step_by|filter|map|enumerate|peekable|take|skip_while|take_while|chain|fuse|by_ref)', r'IntoIterator>?::into_iter'])
        if rs and all(r.kind == 'call' and r.call.is_(r'State::items_iter$') for r in rs):
            out.append((m.group(1), c))
    return out

_HELPERS = {}
def lookup_helpers(fs):
    """crate functions (other than the listed consumers) that search State::items_iter() and hand back the index
    they found: path -> list of (iterator method, call).  A consumer that delegates its search to one of these is
    analysed as if the search were written inline."""
    key = id(fs)
    if key in _HELPERS:
        return _HELPERS[key]
    out = {}
    listed = {p_ for (p_, _) in CONSUMERS.values()}
    for h in fs.bodies.values():
        if h.kind == 'closure' or h.path in listed or not re.search(r'Option<usize>|Option<\(usize', h.local_ty(0)):
            continue
        its = [x for x in iter_calls(h) if x[0] in ITER_ALLOWED]
        if not its:
            continue
        good = True
        for r_ in h.return_blocks():
            rs = provenance(h, ['cp', [0, []]], r_, 'term', through=[r'Option::<.*>::map$', r'as std::ops::Try>::branch$'])
            good &= bool(rs) and all((r.kind == 'call' and any(r.call.bb == x[1].bb for x in its)) or (r.kind == 'agg' and str(r.what).endswith('None')) for r in rs)
        # closures handed to Option::map only project (no calls of their own)
        for clo in fs.closures_of(h):
            if any(c.is_(r'Option::<.*>::map') for c in h.calls()) and not any(x[1].args and clo.path in str(x[1].args) for x in its):
                pass
        if good:
            out[h.path] = its
    _HELPERS[key] = out
    return out

def projecting_map(body, call):
    """`opt.map(|(ix, _)| ix)`-like call: the closure has no calls of its own and returns a part of its argument"""
    if not call.is_(r'Option::<.*>::map$') or len(call.args) < 2 or body.facts is None:
        return False
    for r in provenance(body, call.args[1], call.bb, 'term', through=None):
        if r.kind == 'agg' and r.extra.get('closure') in body.facts.bodies:
            clo = body.facts.bodies[r.extra['closure']]
            if clo.calls():
                return False
            rets = [q for rb in clo.return_blocks() for q in provenance(clo, ['cp', [0, []]], rb, 'term', through=None)]
            return bool(rets) and all(q.kind == 'param' for q in rets)
    return False

def index_sources(body, op, bb, idx):
    """classify the provenance of an index operand"""
    rs = provenance(body, op, bb, idx, through=None)
    # look through projections of the found pair: find(..).map(|(ix, _)| ix)
    for _ in range(3):
        nxt = []; changed = False
        for r in rs:
            if r.kind == 'call' and projecting_map(body, r.call):
                nxt += provenance(body, r.call.args[0], r.call.bb, 'term', through=None); changed = True
            else:
                nxt.append(r)
        rs = nxt
        if not changed: break
    kinds = set()
    helpers = lookup_helpers(body.facts) if body.facts is not None else {}
    for r in rs:
        if r.kind == 'call' and r.call.is_(r'Iterator>?::(find|find_map|next)\b'):
            kinds.add('iter')
        elif r.kind == 'call' and any(n in helpers for n in r.call.names):
            kinds.add('iter')
        elif r.kind == 'bin' and r.extra['op'].startswith('Add') and (op_const(r.extra['b']) or {}).get('v') == 1:
            inner = provenance(body, r.extra['a'], r.site[0], r.site[1], through=None)
            inner = [z for q in inner for z in (provenance(body, q.call.args[0], q.call.bb, 'term', through=None) if (q.kind == 'call' and projecting_map(body, q.call)) else [q])]
            if inner and all(x.kind == 'call' and (x.call.is_(r'Iterator>?::(find|find_map|next)\b') or any(n in helpers for n in x.call.names)) for x in inner):
                kinds.add('iter+1')
            else:
                kinds.add('arith')
        elif r.kind == 'param':
            kinds.add('param:' + str(r.what))
        else:
            kinds.add('%s:%s' % (r.kind, r.what))
    return kinds

def consumers(ctx, cfg, fs, rule):
    for nm, (path, kind) in CONSUMERS.items():
        b = ctx.look(fs.body(path))
        its = iter_calls(b)
        for c_ in b.calls():
            for n_ in c_.names:
                its = its + lookup_helpers(fs).get(n_, [])
        meths = sorted({m for (m, c) in its})
        bad = [m for m in meths if m not in ITER_ALLOWED and m not in ('into_iter',)]
        kinds = {ITER_ALLOWED[m] for m in meths if m in ITER_ALLOWED}
        ctx.ob(rule, '%s:search-kind' % nm, not bad and kinds == {kind},
               '%s searches the items_iter() with %s -> %s (expected %s; no reversing/skipping adaptor)' % (nm, meths, sorted(kinds), kind), where=b.where(), cfg=cfg)
        fam = fs.family(b)
        # every remove() index comes from the iterator (or key+1)
        rem = [c for c in b.calls() if c.is_(r'State::remove$')]
        for c in rem:
            ks = index_sources(b, c.args[1], c.bb, 'term')
            ok = bool(ks) and ks <= {'iter', 'iter+1'}
            ctx.ob(rule, '%s:remove-index:%s' % (nm, '+'.join(sorted(ks))), ok, '%s removes an index that comes from %s' % (nm, sorted(ks)), where=c.where(), cfg=cfg)
        gets = [c for c in b.calls() if c.is_(r'State::get$')]
        for c in gets:
            ks = index_sources(b, c.args[1], c.bb, 'term')
            ctx.ob(rule, '%s:get-index:%s' % (nm, '+'.join(sorted(ks))), ks <= {'iter+1'}, '%s reads the value slot at %s' % (nm, sorted(ks)), where=c.where(), cfg=cfg)
        # no direct indexing of self.items in a consumer
        direct = []
        for bb in fam:
            for i, k, st in bb.stmts():
                pls = []
                if st['k'] == 'assign':
                    rv = st['rv']
                    if rv['k'] in ('ref', 'rawptr', 'discr'): pls.append(rv['place'])
                    if rv['k'] in ('use', 'cast') and op_place(rv['op']): pls.append(op_place(rv['op']))
                for pl in pls:
                    if any(pr[0] in ('i', 'ci') for pr in pl[1]):
                        direct.append(bb.where(i))
            for c in bb.calls():
                if c.is_(r'as std::ops::Index<.*>>::index$', r'slice::<impl \[.*\]>::get(_unchecked)?\b'):
                    direct.append(c.where())
        ctx.ob(rule, '%s:no-direct-indexing' % nm, not direct, '%s reads payloads only through the iterator / State::get (direct indexing sites: %s)' % (nm, direct), where=b.where(), cfg=cfg)
        # success returns are dominated by the removal of what was read
        succ = []
        for i, k, st in b.stmts():
            if st['k'] == 'assign' and st['lhs'] == [0, []]:
                rv = st['rv']
                if rv['k'] == 'use' and (op_const(rv['op']) or {}).get('v') is True:
                    succ.append(i)
                if rv['k'] == 'agg' and rv.get('variant') == 'Ok':
                    inner = provenance(b, rv['fields'][0], i, k, through=None)
                    if not all(r.kind == 'agg' and r.what.endswith('::None') for r in inner):
                        succ.append(i)
        need = 2 if nm == 'take_arg' else 1
        for s in succ:
            doms = [c for c in rem if b.dominates(c.bb, s)]
            kinds_ = set()
            for c in doms:
                kinds_ |= index_sources(b, c.args[1], c.bb, 'term')
            ok = len(doms) >= need and ('iter' in kinds_) and (nm != 'take_arg' or 'iter+1' in kinds_)
            ctx.ob(rule, '%s:success-implies-removed' % nm, ok,
                   '%s: a success return is dominated by %d remove() call(s) on %s (needs %s)' % (nm, len(doms), sorted(kinds_), 'key and value' if need == 2 else 'the matched item'), where=b.where(s), cfg=cfg)
        if not succ:
            raise Broken('%s: no success return found' % nm)
    # ParseAny::eval
    b = ctx.look(fs.one(r'^<params::ParseAny<T> as Parser<T>>::eval$'))
    its = iter_calls(b)
    meths = sorted({m for (m, c) in its})
    ctx.ob(rule, 'ParseAny:search-kind', set(meths) <= {'next', 'into_iter'} and 'next' in meths, 'ParseAny::eval walks items_iter() front to back with %s' % meths, where=b.where(), cfg=cfg)
    for c in [c for c in b.calls() if c.is_(r'State::remove$')]:
        ks = index_sources(b, c.args[1], c.bb, 'term')
        ctx.ob(rule, 'ParseAny:remove-index:%s' % '+'.join(sorted(ks)), ks <= {'iter', 'iter+1'} and bool(ks), 'ParseAny::eval removes an index from %s' % sorted(ks), where=c.where(), cfg=cfg)
    # front-only unless anywhere: the loop is left (break) under !self.anywhere
    nx = [c for (m, c) in its if m == 'next']
    brk = False
    for sw in switches(b):
        if sw.kind == 'bool' and any('anywhere' in r.path for r in sw.roots):
            # one edge leaves the loop (cannot reach next again), the other continues
            reach = {o: (nx[0].bb in reachable_edges(b, t)) for o, t in sw.edges.items()} if nx else {}
            brk = reach.get(False) is False and reach.get(True) is True
    ctx.ob(rule, 'ParseAny:front-only-unless-anywhere', brk, 'a non-anywhere `any` stops after inspecting the front item: %s' % brk, where=b.where(), cfg=cfg)

def accept_sets(ctx, cfg, fs, rule):
    """which Arg variants each consumer accepts"""
    # matches_arg: the three word variants never match
    b = ctx.look(fs.one(r'^params::NamedArg::matches_arg$'))
    sws = [sw for sw in switches(b) if sw.kind == 'enum' and sw.enum == 'arg::Arg']
    if len(sws) < 1:
        raise Broken('matches_arg: no switch on Arg')
    sw = sws[0]
    for v in ('ArgWord', 'Word', 'PosWord'):
        t = sw.target(v)
        vals = set()
        seen = set(); st = [t]
        while st:
            x = st.pop()
            if x in seen: continue
            seen.add(x)
            hit = False
            for s_ in b.blocks[x]['stmts']:
                if s_['k'] == 'assign' and s_['lhs'] == [0, []]:
                    vals.add((op_const(s_['rv'].get('op', ['?'])) or {}).get('v', '<non-const>') if s_['rv']['k'] == 'use' else '<non-const>'); hit = True
            if not hit: st += b.succ(x)
        ctx.ob(rule, 'matches_arg:%s' % v, vals == {False}, 'matches_arg(%s) = %s (a word can never be taken for a name)' % (v, sorted(map(str, vals))), where=b.where(), cfg=cfg)
    # Short/Long: contains(name) && (!adjacent || is_adj): the membership test, the `adjacent` parameter and
    # the attached-value bit of the item must all take part in the arm
    for v in ('Short', 'Long'):
        t = sw.target(v)
        others = [x for o, x in sw.edges.items() if x != t]
        reach = reachable_edges(b, t, avoid=others)
        reads_adj = False; reads_flag = False; contains = False
        for x in reach:
            tt = b.blocks[x]['term']
            ops = []
            if tt['k'] == 'switch':
                ops.append((tt['op'], x, 'term'))
            for k, s_ in enumerate(b.blocks[x]['stmts']):
                if s_['k'] == 'assign' and s_['lhs'] == [0, []] and s_['rv']['k'] == 'use':
                    ops.append((s_['rv']['op'], x, k))
            for (op, bb_, ix_) in ops:
                for r in provenance(b, op, bb_, ix_, through=None):
                    if r.kind == 'param' and r.what == 'adjacent': reads_adj = True
                    if r.kind == 'param' and r.what == 'arg' and r.path[:2] == ['as ' + v, '1']: reads_flag = True
                    if r.kind == 'un' and r.extra['op'] == 'Not':
                        for q in provenance(b, r.extra['a'], r.site[0], r.site[1], through=None):
                            if q.kind == 'param' and q.what == 'adjacent': reads_adj = True
            c = b.call_at(x)
            if c and c.is_(r'slice::<impl \[T\]>::contains'): contains = True
        ctx.ob(rule, 'matches_arg:%s:conditions' % v, reads_adj and reads_flag and contains,
               'matches_arg(%s): name membership test=%s, `adjacent` consulted=%s, the attached-value bit consulted=%s' % (v, contains, reads_adj, reads_flag), where=b.where(), cfg=cfg)
    # take_arg value slot accepts exactly Word | ArgWord
    b = fs.body(CONSUMERS['take_arg'][0])
    get = [c for c in b.calls() if c.is_(r'State::get$')]
    acc = None
    for sw in switches(b):
        if sw.kind == 'enum' and sw.enum == 'arg::Arg':
            rs = provenance(b, sw.place, sw.discr_site[0], sw.discr_site[1])
            if any(r.kind == 'call' and r.call.is_(r'State::get$') for r in rs):
                errb = [i for i, k, st in b.stmts() if st['k'] == 'assign' and st['rv']['k'] == 'agg' and st['rv'].get('variant') == 'NoArgument']
                acc = sorted(v for v, t in sw.edges.items() if not any(e in reachable_edges(b, t, avoid=[x for o, x in sw.edges.items() if x != t]) and t == e for e in errb) and t not in errb)
    ctx.ob(rule, 'take_arg:value-accept-set', acc == ['ArgWord', 'Word'], 'take_arg accepts %s as the value of an argument (expected ArgWord, Word; a PosWord, i.e. anything after `--`, or another option is NoArgument)' % acc, where=b.where(), cfg=cfg)
    # take_positional_word: Word -> strict=false, PosWord -> strict=true, nothing else
    b = fs.body(CONSUMERS['take_positional_word'][0])
    table = {}
    for clo in fs.closures_of(b):
        for sw in switches(clo):
            if sw.kind == 'enum' and sw.enum == 'arg::Arg':
                for v, t in sw.edges.items():
                    res = None
                    seen = set(); st = [t]
                    while st:
                        x = st.pop()
                        if x in seen: continue
                        seen.add(x); hit = False
                        for k, s_ in enumerate(clo.blocks[x]['stmts']):
                            if s_['k'] == 'assign' and s_['lhs'] == [0, []] and s_['rv']['k'] == 'agg':
                                hit = True
                                if s_['rv'].get('variant') == 'None': res = 'skip'
                                else:
                                    rs = provenance(clo, s_['rv']['fields'][0], x, k, through=None)
                                    for r in rs:
                                        if r.kind == 'agg' and r.what == 'tuple':
                                            cst = op_const(r.extra['fields'][1])
                                            res = 'strict=%s' % (cst or {}).get('v')
                        if not hit: st += clo.succ(x)
                    table[v] = res
    want = {'Word': 'strict=False', 'PosWord': 'strict=True', 'Short': 'skip', 'Long': 'skip', 'ArgWord': 'skip'}
    ctx.ob(rule, 'take_positional_word:accept-set', table == want, 'take_positional_word maps %s (expected %s)' % (table, want), where=b.where(), cfg=cfg)
    # take_cmd: Word | Short | Long(_, false, _) at the front only
    b = fs.body(CONSUMERS['take_cmd'][0])
    acc = None; adjbit = False
    for sw in switches(b):
        if sw.kind == 'enum' and sw.enum == 'arg::Arg':
            eqs = [c.bb for c in b.calls() if c.is_(r'PartialEq', r'::eq$')]
            acc = sorted(v for v, t in sw.edges.items() if any(e in reachable_edges(b, t) for e in eqs) and not _direct_to_false(b, t, eqs))
        if sw.kind == 'bool':
            rs = sw.roots
            if any(r.path[-2:] == ['as Long', '1'] for r in rs):
                adjbit = True
    ctx.ob(rule, 'take_cmd:accept-set', acc == ['Long', 'Short', 'Word'] and adjbit,
           'take_cmd compares the command name with %s items (Long only without an attached value: %s); never ArgWord/PosWord' % (acc, adjbit), where=b.where(), cfg=cfg)

def _direct_to_false(b, t, eqs):
    """the arm target leads to the comparison only through... (helper: arm that skips the comparison)"""
    return not any(e in reachable_edges(b, t) for e in eqs)

def leftover(ctx, cfg, fs, rule):
    b = ctx.look(fs.one(r'^info::OptionParser::<T>::run_subparser$'))
    oks = ok_return_blocks(b)
    nx = [c for (m, c) in iter_calls(b) if m == 'next']
    if not oks:
        raise Broken('run_subparser: no Ok return')
    good = True; detail = []
    for o in oks:
        via = False
        for c in nx:
            sw = switch_on_call(b, c)
            if sw is not None and sw.kind == 'enum' and sw.target('None') is not None and only_via_edge(b, sw.b, sw.target('None'), o):
                via = True
        good &= via
        detail.append(via)
    ctx.ob(rule, 'run_subparser:ok-needs-empty-scope', good,
           'every Ok return of run_subparser lies on the edge where items_iter().next() is None (nothing left in scope): %s' % detail, where=b.where(), cfg=cfg)
    # and the value returned is the inner parser's value
    vals = []
    for i, k, st in b.stmts():
        if st['k'] == 'assign' and st['lhs'] == [0, []] and st['rv']['k'] == 'agg' and st['rv'].get('variant') == 'Ok':
            vals += provenance(b, st['rv']['fields'][0], i, k, through=None)
    ok = bool(vals) and all(r.kind == 'call' and r.call.is_(r'as Parser<.*>>::eval$', r'Parser<T> for std::boxed::Box') and r.path == ['as Ok', '0'] for r in vals)
    ctx.ob(rule, 'run_subparser:ok-value', ok, 'the value returned is the inner parser\'s Ok payload: %s' % vals, where=b.where(), cfg=cfg)
