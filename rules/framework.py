"""Check framework: obligations, known findings, evidence, VIOLATION lines."""
import json, os, re, sys, time, traceback
from core import *

EVID = os.environ.get('VERIF_EVIDENCE_DIR') or os.path.join(VERIF, 'evidence')
KNOWN = os.path.join(VERIF, 'known_findings.json')

class Ob:
    def __init__(self, rule, key, ok, detail, where=None, cfg=None, nontrivial=True, extra=None):
        self.rule = rule; self.key = key; self.ok = ok; self.detail = detail
        self.where = where; self.cfg = cfg; self.nontrivial = nontrivial; self.extra = extra or {}
    def j(self):
        d = {'rule': self.rule, 'key': self.key, 'verdict': 'holds' if self.ok else 'VIOLATED',
             'detail': self.detail}
        if self.where: d['where'] = self.where
        if self.cfg: d['config'] = self.cfg
        d.update(self.extra)
        return d

class Ctx:
    def __init__(self, pid, tier, seed):
        self.pid = pid; self.tier = tier; self.seed = seed
        self.obs = []
        self._facts = {}
        self.notes = []
        self.assumptions = []
        self.analysed = set()   # functions looked at
        self.configs_used = set()
        self.deferred = []      # Broken raised inside one rule group: the other groups still run

    def facts(self, cfg):
        if cfg not in self._facts:
            self._facts.update(load([cfg]))
        self.configs_used.add(cfg)
        return self._facts[cfg]

    def preload(self, cfgs):
        need = [c for c in cfgs if c not in self._facts]
        if need:
            self._facts.update(load(need))

    def guard(self, fn, *a, **k):
        """run one rule group; a missing anchor (Broken) in it is remembered and the remaining groups still run, so a
        violation another group can establish is not hidden behind a CHECK-BROKEN"""
        try:
            return fn(*a, **k)
        except Broken as e:
            self.deferred.append('%s: %s' % (getattr(fn, '__name__', 'rule group'), e))
            return None

    def ob(self, rule, key, ok, detail, where=None, cfg=None, nontrivial=True, **extra):
        """record one obligation. key must not contain line numbers."""
        o = Ob(rule, key, bool(ok), detail, where, cfg, nontrivial, extra)
        self.obs.append(o)
        return o.ok

    def look(self, body):
        self.analysed.add(body.path)
        return body

def load_known():
    if not os.path.exists(KNOWN):
        return {'findings': [], 'fixed': []}
    with open(KNOWN) as fh:
        return json.load(fh)

def sanitize(s):
    return re.sub(r'[^A-Za-z0-9_.-]+', '_', s)[:150]

def run_check(pid, module, tier, seed, replay=None):
    t0 = time.time()
    ctx = Ctx(pid, tier, seed)
    try:
        module.run(ctx)
        floors = getattr(module, 'FLOORS', {})
        counts = {}
        for k in {(o.rule, o.key) for o in ctx.obs}:
            counts[k[0]] = counts.get(k[0], 0) + 1
        for rule, measured in floors.items():
            # FLOORS holds the instance counts measured on the reviewed tree; a rule may lose a few
            # instances to a refactor, but not collapse (vacuous pass)
            fl = max(1, int(measured * 0.7))
            if counts.get(rule, 0) < fl:
                raise Broken('rule %s examined %d instances, below the floor %d counted on the reviewed tree '
                             '(anchors moved or the rule went vacuous)' % (rule, counts.get(rule, 0), fl))
    except Broken as e:
        ctx.deferred.append(str(e))
    except Exception:
        traceback.print_exc()
        print('CHECK-BROKEN property=%s: internal error' % pid)
        sys.exit(2)

    known = load_known()
    kf = {(f['property'], f['key']): f for f in known.get('findings', [])}
    # merge obligations with identical (rule,key) across configs: violated if violated anywhere
    merged = {}
    for o in ctx.obs:
        k = (o.rule, o.key)
        if k not in merged:
            merged[k] = {'ob': o, 'cfgs': [o.cfg] if o.cfg else [], 'bad': [] if o.ok else [o]}
        else:
            if o.cfg: merged[k]['cfgs'].append(o.cfg)
            if not o.ok:
                merged[k]['bad'].append(o)
    violations = []; knowns = []
    if os.environ.get('VERIF_LIST'):
        # debugging aid: every obligation examined, one per line
        for (rule, key), m in sorted(merged.items()):
            print('OB %s %s:%s' % ('bad' if m['bad'] else 'ok ', rule, key))
    for (rule, key), m in merged.items():
        if m['bad']:
            full = '%s:%s' % (rule, key)
            if (pid, full) in kf:
                knowns.append((full, m['bad'][0], kf[(pid, full)]))
            else:
                violations.append((full, m['bad'][0]))
    # a reviewed function vanished without a recognisable successor AND code of unknown helpers was inlined: verdicts about
    # the functions that received that code rest on a reconstruction that may not be faithful - withheld (check broken)
    lost = sorted({m_ for f in ctx._facts.values() for m_ in f.normalisation.get('missing_reviewed', [])})
    if lost:
        touched = {b.path for f in ctx._facts.values() for b in f.bodies.values() if b.j.get('inlined')}
        # ... and the reviewed callers of the vanished functions: their code now lives there, in a shape nobody reviewed
        import normalize
        A_ = normalize.audit().get('functions', {})
        for m_ in lost:
            touched |= set(A_.get(m_, {}).get('callers', []))
        keep_v = []
        for full, o in violations:
            fn = (o.where or '').split(' (')[0]
            if fn in touched or fn.split('::{closure')[0] in touched:
                ctx.deferred.append('verdict %s withheld: %s was restructured (reviewed function(s) %s no longer exist; it called them or received inlined helper code)' % (full, fn, lost))
            else:
                keep_v.append((full, o))
        violations = keep_v
    if ctx.deferred and not violations:
        # nothing else is wrong and part of the check could not be carried out: fail closed, as a broken check
        for d in ctx.deferred:
            print('CHECK-BROKEN property=%s: %s' % (pid, d))
        sys.exit(2)
    for d in ctx.deferred:
        print('CHECK-PARTIAL property=%s: a rule group could not be evaluated (%s); the violations below come from the other groups' % (pid, d))
    if replay:
        want = json.load(open(replay)).get('key')
        hit = [v for v in violations if v[0] == want]
        violations = hit
    os.makedirs(os.path.join(EVID, 'replay', pid), exist_ok=True)
    for full, o, f in knowns:
        print('KNOWN-FINDING: property=%s %s -- %s' % (pid, full, f.get('what', o.detail)))
    for full, o in violations:
        rp = os.path.join(EVID, 'replay', pid, sanitize(full) + '.json')
        with open(rp, 'w') as fh:
            json.dump({'property': pid, 'key': full, 'obligation': o.j(),
                       'how_to_replay': './check %s --replay %s' % (pid, rp)}, fh, indent=1)
        print('VIOLATION property=%s replay=%s' % (pid, rp))
        print('  rule %s: %s' % (o.rule, o.detail))
        if o.where: print('  at %s%s' % (o.where, (' [config %s]' % o.cfg) if o.cfg else ''))

    n_eval = len(ctx.obs)
    distinct = len({k for k, m in merged.items() if m['ob'].nontrivial})
    samples = []
    seen_rules = set()
    for (rule, key), m in merged.items():
        if rule not in seen_rules or m['bad']:
            seen_rules.add(rule)
            samples.append(m['ob'].j() if not m['bad'] else m['bad'][0].j())
        if len(samples) >= 60:
            break
    per_rule = {}
    for (rule, key), m in merged.items():
        r = per_rule.setdefault(rule, {'instances': 0, 'violated': 0})
        r['instances'] += 1
        if m['bad']: r['violated'] += 1
    ev = {
        'property_id': pid, 'tier': tier, 'seed': seed,
        'level': getattr(module, 'LEVEL', 'other'),
        'coverage': {
            'evaluations': n_eval,
            'distinct_nontrivial': distinct,
            'obligations': len(merged),
            'discharged': len(merged) - len(violations) - len(knowns),
            'rule': 'one obligation per (rule, instance) found in the type-checked MIR / expansions of the '
                    'current /repo tree; distinct = distinct (rule, instance key) pairs that examined at least '
                    'one site or path; keys are def paths + descriptors, never line numbers',
            'explanation': getattr(module, 'EXPLANATION', ''),
            'samples': samples,
            'per_rule': per_rule,
            'configs_analysed': sorted(ctx.configs_used),
            'functions_analysed': sorted(ctx.analysed),
            'floors': getattr(module, 'FLOORS', {}),
            'normalisation': {c: {k: v for k, v in f.normalisation.items() if v} for c, f in ctx._facts.items() if any(f.normalisation.values())},
            'known_findings_matched': [k[0] for k in knowns],
            'exhaustive': False,
        },
        'assumptions': list(getattr(module, 'ASSUMPTIONS', [])) + ctx.assumptions,
        'wall_s': round(time.time() - t0, 2),
        'violations': len(violations),
    }
    if hasattr(module, 'extra_coverage'):
        ev['coverage'].update(module.extra_coverage(ctx))
    os.makedirs(EVID, exist_ok=True)
    if not replay:
        with open(os.path.join(EVID, pid + '.json'), 'w') as fh:
            json.dump(ev, fh, indent=1)
    print('property=%s tier=%s obligations=%d violated=%d known=%d configs=%s wall=%.1fs' % (
        pid, tier, len(merged), len(violations), len(knowns), ','.join(sorted(ctx.configs_used)), time.time() - t0))
    sys.exit(1 if violations else 0)
