"""Rules shared by the properties about rendered documents (C12, C13, C16): every function that walks the token list
of a Doc keeps a byte cursor into the payload; block-structured state (margins, skip counters) is pushed at BlockStart
and popped at BlockEnd."""
import re
from core import *
from dataflow import *
from cfgq import *
from absint import Walker, UNKNOWN, pkey
from parsers import short, outer

def token_loops(fs):
    """(body, token switch, header block of the loop over tokens) for every function that matches on buffer::Token"""
    out = []
    for b in sorted(fs.bodies.values(), key=lambda x: x.path):
        tsw = [s for s in switches(b) if s.kind == 'enum' and s.enum == 'buffer::Token' and s.target('Text') is not None]
        if not tsw:
            continue
        nx = [c for c in b.calls() if c.is_(r'Iterator>?::next$') and 'buffer::Token' in c.full]
        for s in tsw:
            hdr = [c for c in nx if b.dominates(c.bb, s.b) and c.bb in reachable_edges(b, s.b)]
            if hdr:
                # innermost header: the one dominated by all the others
                hdr.sort(key=lambda c: sum(1 for o in hdr if b.dominates(o.bb, c.bb)))
                out.append((b, s, hdr[-1]))
    return out

def cursor_advance(ctx, cfg, fs, rule, only=None):
    """in the Text arm of every token loop the payload cursor advances by the token's byte count exactly once on every
    path back to the loop (also on the paths that skip the text): otherwise all later text is cut at wrong offsets"""
    n = 0; nocursor = {}; withcursor = set()
    for (b, tsw, hdr) in token_loops(fs):
        if only and not re.search(only, b.path):
            continue
        adv = {}     # cursor local -> blocks where `cursor = cursor + <bytes of the token>` completes
        for i, k, st in b.stmts():
            if st['k'] != 'assign' or st['lhs'][1] or st['lhs'][0] not in b.local_names or b.local_ty(st['lhs'][0]) != 'usize':
                continue
            rs = provenance(b, st['rv']['op'], i, k, through=None) if st['rv']['k'] == 'use' else ([Root('bin', st['rv']['op'], [], (i, k), extra=st['rv'])] if st['rv']['k'] == 'bin' else [])
            for r in rs:
                if r.kind == 'bin' and r.extra['op'].startswith('Add'):
                    a = provenance(b, r.extra['a'], r.site[0], r.site[1], through=None); c_ = provenance(b, r.extra['b'], r.site[0], r.site[1])
                    def is_bytes(qs): return bool(qs) and all('bytes' in q.path and any(x.startswith('as Text') for x in q.path) for q in qs)
                    def is_self(op): return op_place(op) is not None and op_place(op)[0] == st['lhs'][0]
                    if (is_self(r.extra['a']) and is_bytes(c_)) or (is_self(r.extra['b']) and is_bytes(provenance(b, r.extra['a'], r.site[0], r.site[1]))):
                        adv.setdefault(st['lhs'][0], set()).add(i)
        text_t = tsw.target('Text')
        reach = reachable_edges(b, text_t, avoid=[hdr.bb])
        cursors = {l: {x for x in blks if x in reach} for l, blks in adv.items()}
        cursors = {l: blks for l, blks in cursors.items() if blks}
        if not cursors:
            nocursor.setdefault(b.path, []).append((b, tsw)); continue
        withcursor.add(b.path)
        for l, blks in sorted(cursors.items()):
            # at least once: neither the loop header nor a return is reachable from the arm entry around the advance
            around = reachable_edges(b, text_t, avoid=list(blks) + ([] if text_t in blks else []))
            missed = hdr.bb in around and text_t not in blks
            # at most once: after an advance no second advance before the next token
            twice = False
            for x in blks:
                for s_ in b.succ(x):
                    if blks & reachable_edges(b, s_, avoid=[hdr.bb]):
                        twice = True
            n += 1
            ctx.ob(rule, '%s:cursor:%s' % (short(b.path), b.name_of(l)), not missed and not twice,
                   '%s: every way through the Text arm advances the cursor `%s` by the token length exactly once (%d advance site(s); a way around it: %s; advanced twice: %s)' % (short(b.path), b.name_of(l), len(blks), missed, twice), where=b.where(tsw.b), cfg=cfg)
        ctx.look(b)
    for p_, lst in sorted(nocursor.items()):
        if p_ not in withcursor and any(c.is_(r'as std::ops::Index<.*>>::index$') and 'payload' in str([q.path for q in provenance(lst[0][0], c.args[0], c.bb, 'term')]) for c in lst[0][0].calls()):
            b, tsw = lst[0]
            ctx.ob(rule, '%s:cursor' % short(b.path), False, '%s slices the payload while walking the tokens but advances no cursor by the byte count of a text token in its Text arm' % short(b.path), where=b.where(tsw.b), cfg=cfg)
    if n == 0:
        raise Broken('no token loop with a payload cursor found')

def block_pairing(ctx, cfg, fs, rule, fn_rx, pairs):
    """per Block variant, the BlockStart arm performs `push` as often as the BlockEnd arm performs `pop`, on every path
    (pairs: list of (name, push regex, pop regex, receiver predicate))"""
    b = ctx.look(fs.one(fn_rx))
    loops = [(s, h) for (bb, s, h) in token_loops(fs) if bb.path == b.path]
    if not loops:
        raise Broken('%s: token loop not found' % b.path)
    # the rendering loop is the one whose BlockStart / BlockEnd arms switch on the block kind (a first pass may only measure)
    bsw = [s for s in switches(b) if s.kind == 'enum' and s.enum == 'buffer::Block']
    pick = None
    for (tsw_, hdr_) in loops:
        st_ = tsw_.target('BlockStart'); en_ = tsw_.target('BlockEnd')
        if st_ is None or en_ is None:
            continue
        ss = [s for s in bsw if only_via_edge(b, tsw_.b, st_, s.b)]; es = [s for s in bsw if only_via_edge(b, tsw_.b, en_, s.b)]
        if ss and es:
            cand = (tsw_, hdr_, st_, en_, ss, es)
            # prefer the loop that distinguishes the most block kinds (a measuring pre-pass looks at one or two)
            if pick is None or len(set(ss[0].edges.values())) > len(set(pick[4][0].edges.values())):
                pick = cand
    if pick is None:
        raise Broken('%s: Block switches of the start/end arms not found' % b.path)
    tsw, hdr, start_t, end_t, ssw, esw = pick
    def counts(sw_, entry, rx, V):
        w = Walker(b, variant_of={pkey(sw_.place): V}, max_paths=600, max_visits=2); w.stop = {hdr.bb}
        out = set()
        for p in w.run(entry, {}):
            if p.end != 'stop': continue
            out.add(sum(1 for (_, c) in p.calls if c.is_(rx)))
        return sorted(out)
    for (nm, push_rx, pop_rx) in pairs:
        for V in fs.variants('buffer::Block'):
            cs = counts(ssw[0], start_t, push_rx, V); ce = counts(esw[0], end_t, pop_rx, V)
            if cs == ce and cs in ([0], []):
                continue
            ok = len(cs) == 1 and cs == ce
            ctx.ob(rule, '%s:%s:Block::%s' % (short(b.path), nm, V), ok,
                   '%s: BlockStart(%s) pushes %s %s time(s) and BlockEnd(%s) pops it %s time(s), over all paths (must be the same single number)' % (short(b.path), V, nm, cs, V, ce), where=b.where(ssw[0].b), cfg=cfg)


# who writes the two halves of a Doc (text and token list): every Text token promises `bytes` bytes of payload, so whoever
# appends text must record exactly the number of BYTES appended
DOC_WRITERS = {
    'payload': {'buffer::Doc::write_str': 'push_str(input) + set_style(input.len())', 'buffer::Doc::write': 'write_fmt + set_style(len after - len before)',
                'buffer::Doc::doc': 'appends another Doc: payload and tokens together', 'buffer::Doc::em_doc': 'appends another Doc with emphasis: payload and tokens together',
                'buffer::Doc::first_line': 'copies the first line of each text token and its shortened token'},
    'tokens': {'buffer::Doc::set_style': 'extends the last Text token or pushes a new one', 'buffer::Doc::token': 'pushes a structural token',
               'buffer::Doc::doc': 'see payload', 'buffer::Doc::em_doc': 'see payload', 'buffer::Doc::first_line': 'see payload'},
}

def payload_writers(ctx, cfg, fs, rule):
    seen = {'payload': {}, 'tokens': {}}
    for p, b in sorted(fs.bodies.items()):
        for i, k, st in b.stmts():
            if st['k'] != 'assign':
                continue
            acc = [(pr[2], pr[4]) for pr in st['lhs'][1] if pr[0] == 'f']
            rv = st['rv']
            if rv['k'] in ('ref', 'rawptr') and rv.get('mut'):
                acc += [(pr[2], pr[4]) for pr in rv['place'][1] if pr[0] == 'f']
            for (fn, pt) in acc:
                if pt == 'buffer::Doc' and fn in seen:
                    seen[fn].setdefault(p.split('::{closure')[0], b.where(i))
    for fld, table in DOC_WRITERS.items():
        if not seen[fld]:
            raise Broken('no writer of Doc.%s found' % fld)
        for fn, where in sorted(seen[fld].items()):
            ctx.ob(rule, 'doc-writers:%s<-%s' % (fld, fn.split('::')[-1]), fs.listed(fn, table), '%s writes Doc.%s: %s' % (fn.split('::')[-1], fld, table.get(fn, 'NOT a listed writer (text and token lengths are kept in step by write_str / write only)')), where=where, cfg=cfg)
    spliced_in_step(ctx, cfg, fs, rule)
    # write_str: the length recorded is the byte length of the very string appended
    b = ctx.look(fs.one(r'^buffer::Doc::write_str$'))
    ps = [c for c in b.calls() if c.is_(r'String::push_str$')]
    ss = [c for c in b.calls() if c.is_(r'Doc::set_style$')]
    ok = len(ps) == 1 and len(ss) == 1
    if ok:
        txt = {(r.kind, str(r.what)) for r in provenance(b, ps[0].args[1], ps[0].bb, 'term')}
        ln = provenance(b, ss[0].args[1], ss[0].bb, 'term', through=None)
        ok = bool(ln) and all(r.kind == 'call' and r.call.is_(r'str::<impl str>::len$') and {(q.kind, str(q.what)) for q in provenance(b, r.call.args[0], r.call.bb, 'term')} == txt for r in ln)
    ctx.ob(rule, 'doc-writers:write_str:records-byte-length', ok, 'write_str records input.len() bytes for the input it appends: %s' % ok, where=b.where(), cfg=cfg)
    b = ctx.look(fs.one(r'^buffer::Doc::write$'))
    ss = [c for c in b.calls() if c.is_(r'Doc::set_style$')]
    ok = len(ss) == 1
    if ok:
        ln = provenance(b, ss[0].args[1], ss[0].bb, 'term', through=None)
        ok = bool(ln) and all(r.kind == 'bin' and r.extra['op'].startswith('Sub') for r in ln)
        for r in ln:
            if r.kind == 'bin':
                for o in (r.extra['a'], r.extra['b']):
                    qs = provenance(b, o, r.site[0], r.site[1], through=None)
                    ok &= bool(qs) and all(q.kind == 'call' and q.call.is_(r'String::len$') and any('payload' in z.path for z in provenance(b, q.call.args[0], q.call.bb, 'term')) for q in qs)
    ctx.ob(rule, 'doc-writers:write:records-growth', ok, 'write records the growth of the payload (len after - len before) for what it formatted: %s' % ok, where=b.where(), cfg=cfg)


def style_reset_first(ctx, cfg, fs, rule, fn_rx, style_fn_rx):
    """inline styles (<b>, <tt>, `**`, back-ticks ..) are closed BEFORE anything a block boundary writes: in the BlockStart
    and BlockEnd arms the call that resets the style (change_style(.., Styles::default())) comes before every other write
    to the output - otherwise `<b>title<div></b>` : the closing tag lands inside the block that was just opened"""
    n = 0
    for (b, tsw, hdr) in token_loops(fs):
        if not re.search(fn_rx, b.path):
            continue
        if len({tsw.target('Text'), tsw.target('BlockStart'), tsw.target('BlockEnd')}) != 3:
            continue      # a `matches!(next token, ..)` inside an arm, not the dispatch of the loop
        ctx.look(b)
        res = None
        for c in b.calls():
            if c.is_(r'^std::string::String::new$') and c.dest and not c.dest[1] and b.local_ty(c.dest[0]) == 'std::string::String' and b.dominates(c.bb, hdr.bb):
                res = c.dest[0] if res is None or b.name_of(c.dest[0]) == 'res' else res
        if res is None:
            raise Broken('%s: output String not found' % b.path)
        locs, sinks = flows_to(b, res, through=None)
        for arm in ('BlockStart', 'BlockEnd'):
            t = tsw.target(arm)
            if t is None:
                continue
            region = reachable_edges(b, t, avoid=[hdr.bb])
            resets = [c for c in b.calls() if c.bb in region and c.is_(style_fn_rx) and
                      any(q.kind == 'call' and q.call.is_(r'Default>::default$') for q in provenance(b, c.args[-1], c.bb, 'term', through=None))]
            writes = []
            for (bb, k, kind, p) in sinks:
                if kind == 'call' and bb in region:
                    c = Call(b, bb, p)
                    a0 = op_place(c.args[0]) if c.args else None
                    if a0 and a0[0] in locs and not c.is_(style_fn_rx) and not c.is_(r'String::(len|is_empty|as_str|ends_with|starts_with|capacity)$', r'Deref', r'str::<impl str>::(ends_with|starts_with|is_empty|len)$'):
                        writes.append(c)
            late = [c.where() for c in writes if not any(b.dominates(r_.bb, c.bb) for r_ in resets)]
            n += 1
            ctx.ob(rule, '%s:%s:style-closed-before-block-output' % (b.path.split('::')[-1], arm), bool(resets) and not late,
                   '%s, %s arm: the style reset precedes every write of the arm (%d reset(s), %d write(s)): %s' % (b.path.split('::')[-1], arm, len(resets), len(writes), late[:3] or 'ok'), where=b.where(t), cfg=cfg)
    if n == 0:
        raise Broken('style_reset_first: no token loop matches %s' % fn_rx)


def spliced_in_step(ctx, cfg, fs, rule):
    """Doc::doc / Doc::em_doc splice another Doc in: wherever they copy TOKENS of the other Doc they copy the PAYLOAD those tokens
    describe on the same path (a Text token promises `bytes` bytes of payload; tokens without their bytes make every renderer slice
    past the end of the text)"""
    for path in ('buffer::Doc::doc', 'buffer::Doc::em_doc'):
        b = ctx.look(fs.body(path))
        tok = []; pay = []
        for c in b.calls():
            if not c.args or len(c.args) < 2:
                continue
            dst = provenance(b, c.args[0], c.bb, 'term')
            src = provenance(b, c.args[-1], c.bb, 'term', through=DEFAULT_THROUGH + [r'Index<.*>>::index$', r'slice::<impl \[T\]>::(iter|get)$', r'str::<impl str>::get$'])
            to_self = lambda f: bool(dst) and all(r.kind == 'param' and r.what == 'self' and r.path[:1] == [f] for r in dst)
            from_buf = lambda f: bool(src) and all(r.kind == 'param' and r.what != 'self' and r.path[:1] == [f] for r in src)
            if c.is_(r'(extend|extend_from_slice|append)\b', r'Extend<') and to_self('tokens') and from_buf('tokens'):
                tok.append(c)
            if c.is_(r'String::push_str$', r'String::extend', r'String::insert_str$') and to_self('payload') and from_buf('payload'):
                pay.append(c)
        rets = b.return_blocks()
        lonely = []
        for t in tok:
            # some payload copy lies on every path through this token copy: it dominates it, or every way on from it passes one
            ok = any(b.dominates(p_.bb, t.bb) for p_ in pay) or not any(r in reachable_edges(b, t.target if t.target is not None else t.bb, avoid=[p_.bb for p_ in pay]) for r in rets)
            if not ok:
                lonely.append(b.where(t.bb))
        ctx.ob(rule, 'doc-writers:%s:tokens-with-their-payload' % path.split('::')[-1], bool(tok) and not lonely,
               '%s copies tokens of the spliced Doc at %d site(s) and its payload at %d; every token copy has a payload copy on all its paths: %s' % (path.split('::')[-1], len(tok), len(pay), lonely or 'ok'), where=b.where(), cfg=cfg)
