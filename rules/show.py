"""debug helper: python3 rules/show.py <cfg> <regex>  -- pretty-print matching bodies"""
import sys, os
sys.path.insert(0, os.path.dirname(os.path.abspath(__file__)))
from core import *

def rv_str(rv, body):
    k = rv['k']
    if k == 'use': return op_str(rv['op'], body)
    if k == 'ref': return '&%s%s' % ('mut ' if rv['mut'] else '', place_str(rv['place'], body))
    if k == 'rawptr': return '&raw %s' % place_str(rv['place'], body)
    if k == 'bin': return '%s(%s, %s)' % (rv['op'], op_str(rv['a'], body), op_str(rv['b'], body))
    if k == 'un': return '%s(%s)' % (rv['op'], op_str(rv['a'], body))
    if k == 'cast': return '%s as %s [%s]' % (op_str(rv['op'], body), rv['ty'], rv['kind'])
    if k == 'discr': return 'discriminant(%s)' % place_str(rv['place'], body)
    if k == 'agg':
        nm = rv.get('adt', rv.get('closure', rv['agg']))
        if 'variant' in rv: nm += '::' + rv['variant']
        return '%s{%s}' % (nm, ', '.join(op_str(f, body) for f in rv['fields']))
    return str(rv)

def show(b):
    print('=== %s  [%s] %s args=%d' % (b.path, b.kind, span_str(b.span), b.arg_count))
    for i, l in enumerate(b.locals):
        print('   let _%d%s: %s' % (i, ' (%s)' % b.local_names[i] if i in b.local_names else '', l['ty']))
    for i, bb in enumerate(b.blocks):
        print(' bb%d%s:' % (i, ' (cleanup)' if bb['cleanup'] else ''))
        for st in bb['stmts']:
            if st['k'] == 'assign':
                print('    %s = %s   // %d' % (place_str(st['lhs'], b), rv_str(st['rv'], b), st['span']['line']))
            elif st['k'] == 'setdiscr':
                print('    discriminant(%s) = %s' % (place_str(st['lhs'], b), st['variant']))
            else:
                print('    ', st)
        t = bb['term']; k = t['k']
        ln = t.get('span', {}).get('line')
        if k == 'call':
            c = Call(b, i, t)
            print('    %s = %s(%s) -> bb%s unwind %s   // %s%s' % (place_str(t['dest'], b), c.full if c.names else c.name, ', '.join(op_str(a, b) for a in t['args']), t['t'], t['unwind'], ln, ' [resolved %s]' % t['callee'].get('resolved') if t['callee'].get('resolved') != t['callee'].get('path') else ''))
        elif k == 'switch':
            print('    switch %s : %s -> %s otherwise bb%d   // %s' % (op_str(t['op'], b), t['ty'], ['%d:bb%d' % (v, tb) for v, tb in t['targets']], t['otherwise'], ln))
        elif k == 'assert':
            print('    assert(%s == %s, %s %s) -> bb%d   // %s' % (op_str(t['cond'], b), t['expected'], t['msg'], t['detail'], t['t'], ln))
        elif k == 'drop':
            print('    drop(%s) -> bb%d' % (place_str(t['place'], b), t['t']))
        elif k == 'goto':
            print('    goto bb%d' % t['t'])
        else:
            print('    %s' % k)

if __name__ == '__main__':
    cfg = sys.argv[1]
    fs = load([cfg])[cfg]
    for b in fs.find(sys.argv[2]):
        show(b)
