"""Reaching definitions, backward provenance, forward flow, fmt-site decoding."""
import re
from core import *

class Root:
    __slots__ = ('kind', 'what', 'path', 'site', 'call', 'extra')
    def __init__(self, kind, what, path, site=None, call=None, extra=None):
        self.kind = kind      # param | const | call | agg | bin | un | discr | cast | other | upvar
        self.what = what      # param name / const value / callee name / ...
        self.path = path      # field path applied on top of the root (outermost last)
        self.site = site; self.call = call; self.extra = extra
    def __repr__(self):
        return 'Root(%s %r path=%s)' % (self.kind, self.what, '.'.join(self.path))

def reaching_defs(body, local, bb, idx):
    """nearest definitions of `local` (whole or partial) reaching the point just before
    statement idx of block bb (idx='term' means before the terminator)."""
    out = []
    seen = set()
    def scan_block(b, upto):
        stmts = body.blocks[b]['stmts']
        rng = range(len(stmts) - 1, -1, -1) if upto is None else range(upto - 1, -1, -1)
        for k in rng:
            st = stmts[k]
            if st['k'] in ('assign', 'setdiscr') and st['lhs'][0] == local:
                return (b, k, st['k'], st)
        return None
    def visit_pred_of(b):
        if b == 0:
            out.append((0, 'entry', 'entry', None))
        for p in body.pred(b):
            if p in seen:
                continue
            seen.add(p)
            t = body.blocks[p]['term']
            if t['k'] == 'call' and t.get('dest') is not None and t['dest'][0] == local and t.get('t') == b:
                out.append((p, 'term', 'call', t))
                continue
            d = scan_block(p, None)
            if d:
                out.append(d)
            else:
                visit_pred_of(p)
    upto = len(body.blocks[bb]['stmts']) if idx == 'term' else idx
    d = scan_block(bb, upto)
    if d:
        return [d]
    import sys
    sys.setrecursionlimit(10000)
    visit_pred_of(bb)
    return out

DEFAULT_THROUGH = [
    r'as std::ops::Deref>::deref$', r'as std::ops::DerefMut>::deref_mut$',
    r'as std::convert::AsRef<.*>>::as_ref$', r'as std::borrow::Borrow<.*>>::borrow$',
    r'std::string::String::as_str$', r'std::string::String::as_mut_str$',
    r'as std::clone::Clone>::clone$', r'std::hint::must_use',
    r'as std::convert::Into<.*>>::into$', r'as std::convert::From<.*>>::from$',
    r'std::option::Option::<.*>::as_ref$', r'std::option::Option::<.*>::as_mut$',
    r'std::option::Option::<.*>::as_deref$', r'std::vec::Vec::<.*>::as_slice$',
    r'std::ffi::OsString::as_os_str$', r'std::path::PathBuf::as_path$',
    r'as std::ops::Index<.*>>::index$', r'as std::ops::IndexMut<.*>>::index_mut$',
    r'std::option::Option::<.*>::unwrap$', r'std::result::Result::<.*>::unwrap$',
]

def provenance(body, operand_or_place, bb, idx, through=DEFAULT_THROUGH, depth=40, path=None, _seen=None):
    """backward value provenance: list of Root"""
    if _seen is None:
        _seen = set()
    path = list(path or [])
    x = operand_or_place
    if isinstance(x, list) and x and x[0] in ('cp', 'mv', 'c', '?'):
        if x[0] == 'c':
            c = x[1]
            v = c.get('v', c.get('bytes_str', c.get('def', c.get('fn'))))
            return [Root('const', v, path, (bb, idx), extra=c)]
        if x[0] == '?':
            return [Root('other', str(x), path, (bb, idx))]
        place = x[1]
    else:
        place = x
    local = place[0]
    fields = place_fields(place) + path
    key = (local, bb, idx, tuple(fields))
    if key in _seen:
        return []          # already being explored on this query: its roots are reported by the first visit
    if depth <= 0:
        return [Root('other', 'depth _%d' % local, fields, (bb, idx))]
    _seen.add(key)
    defs = reaching_defs(body, local, bb, idx)
    roots = []
    if not defs:
        if 1 <= local <= body.arg_count:
            if body.kind == 'closure' and local == 1:
                return [Root('upvar', fields[0] if fields else '<env>', fields[1:], (bb, idx))]
            return [Root('param', body.name_of(local), fields, (bb, idx))]
        return [Root('other', 'undefined _%d' % local, fields, (bb, idx))]
    for (db, dk, kind, st) in defs:
        if kind == 'entry':
            if 1 <= local <= body.arg_count:
                if body.kind == 'closure' and local == 1:
                    roots.append(Root('upvar', fields[0] if fields else '<env>', fields[1:], (bb, idx)))
                else:
                    roots.append(Root('param', body.name_of(local), fields, (bb, idx)))
            continue
        if kind == 'call':
            c = Call(body, db, st)
            if st['dest'][1]:
                roots.append(Root('other', 'partial call dest', fields, (db, dk)))
                continue
            if through and c.is_(*through) and c.args:
                roots += provenance(body, c.args[0], db, 'term', through, depth - 1, fields, _seen)
            else:
                roots.append(Root('call', c.name, fields, (db, dk), call=c))
            continue
        if kind == 'setdiscr':
            roots.append(Root('other', 'setdiscr ' + st['variant'], fields, (db, dk)))
            continue
        lhs = st['lhs']; rv = st['rv']
        if lhs[1]:
            lf = place_fields(lhs)
            if fields[:len(lf)] == lf:
                sub = fields[len(lf):]
            else:
                # a write to a different part of the local: keep looking further back
                roots += [r for r in provenance(body, [local, []], db, dk, through, depth - 1, fields, _seen)]
                continue
        else:
            sub = fields
        k = rv['k']
        if k == 'use':
            roots += provenance(body, rv['op'], db, dk, through, depth - 1, sub, _seen)
        elif k in ('ref', 'rawptr'):
            roots += provenance(body, rv['place'], db, dk, through, depth - 1, sub, _seen)
        elif k == 'cast':
            roots += provenance(body, rv['op'], db, dk, through, depth - 1, sub, _seen)
        elif k == 'agg':
            names = rv.get('field_names')
            done = False
            if sub:
                f0 = sub[0]
                rest = sub[1:]
                if f0.startswith('as ') and rest:
                    # downcast then field
                    if rv.get('variant') == f0[3:]:
                        f0 = rest[0]; rest = rest[1:]
                    else:
                        done = True   # other variant: this def cannot supply the value
                if not done:
                    ix = None
                    if names and f0 in names:
                        ix = names.index(f0)
                    elif f0.isdigit() and int(f0) < len(rv['fields']):
                        ix = int(f0)
                    elif rv['agg'] == 'closure':
                        ix = None
                        clo = body.facts.bodies.get(rv.get('closure')) if getattr(body, 'facts', None) is not None else None
                        caps = clo.j.get('captures', []) if clo is not None else []
                        if f0 in caps and caps.index(f0) < len(rv['fields']):
                            ix = caps.index(f0)
                    if ix is not None:
                        roots += provenance(body, rv['fields'][ix], db, dk, through, depth - 1, rest, _seen)
                        done = True
            if not done:
                roots.append(Root('agg', rv.get('adt', rv['agg']) + ('::' + rv['variant'] if 'variant' in rv else ''),
                                  sub, (db, dk), extra=rv))
        elif k == 'bin':
            roots.append(Root('bin', rv['op'], sub, (db, dk), extra=rv))
        elif k == 'un':
            roots.append(Root('un', rv['op'], sub, (db, dk), extra=rv))
        elif k == 'discr':
            roots.append(Root('discr', place_str(rv['place'], body), sub, (db, dk), extra=rv))
        else:
            roots.append(Root('other', k, sub, (db, dk), extra=rv))
    return roots

# ------------------------------------------------------------------------------------------
# forward flow (very small): which calls / aggregates does the value of `local` reach

def uses_of(body, local):
    """(bb, idx, kind, payload) for every statement/terminator reading `local`"""
    out = []
    def in_op(op):
        return op[0] in ('cp', 'mv') and (op[1][0] == local or any(p[0] == 'i' and p[1] == local for p in op[1][1]))
    def in_place(p):
        return p[0] == local or any(pr[0] == 'i' and pr[1] == local for pr in p[1])
    for i, b in enumerate(body.blocks):
        for k, st in enumerate(b['stmts']):
            if st['k'] != 'assign':
                continue
            rv = st['rv']; kk = rv['k']; hit = False
            if kk in ('use', 'cast', 'repeat'): hit = in_op(rv['op'])
            elif kk in ('ref', 'rawptr', 'discr'): hit = in_place(rv['place'])
            elif kk == 'bin': hit = in_op(rv['a']) or in_op(rv['b'])
            elif kk == 'un': hit = in_op(rv['a'])
            elif kk == 'agg': hit = any(in_op(f) for f in rv['fields'])
            # a projected write through the local (e.g. (*_1).f = ..) is a use of the pointer too
            if not hit and st['lhs'][0] == local and st['lhs'][1]:
                out.append((i, k, 'write_through', st))
            if hit:
                out.append((i, k, 'assign', st))
        t = b['term']
        if t['k'] in ('call', 'tailcall'):
            if any(in_op(a) for a in t['args']):
                out.append((i, 'term', 'call', t))
            if t.get('dest') and t['dest'][0] == local and t['dest'][1]:
                out.append((i, 'term', 'write_through', t))
        elif t['k'] == 'switch':
            if in_op(t['op']):
                out.append((i, 'term', 'switch', t))
        elif t['k'] == 'assert':
            if in_op(t['cond']) or any(in_op(o) for o in t.get('ops', [])):
                out.append((i, 'term', 'assert', t))
        elif t['k'] == 'drop':
            if t['place'][0] == local:
                out.append((i, 'term', 'drop', t))
    return out

def flows_to(body, local, through=DEFAULT_THROUGH, limit=200):
    """forward closure of locals that receive (a copy / reference / transparent-call result of)
    the value; returns (set of locals, list of terminal uses (bb, idx, kind, payload))"""
    seen = {local}; work = [local]; sinks = []
    while work and len(seen) < limit:
        l = work.pop()
        for (b, k, kind, p) in uses_of(body, l):
            if kind == 'assign':
                rv = p['rv']
                if rv['k'] in ('use', 'ref', 'rawptr', 'cast') and not p['lhs'][1]:
                    nl = p['lhs'][0]
                    if nl not in seen:
                        seen.add(nl); work.append(nl)
                else:
                    sinks.append((b, k, kind, p))
                    if rv['k'] == 'agg' and not p['lhs'][1]:
                        pass
            elif kind == 'call':
                c = Call(body, b, p)
                if through and c.is_(*through) and p.get('dest') and not p['dest'][1]:
                    nl = p['dest'][0]
                    if nl not in seen:
                        seen.add(nl); work.append(nl)
                else:
                    sinks.append((b, k, kind, p))
            else:
                sinks.append((b, k, kind, p))
    return seen, sinks

# ------------------------------------------------------------------------------------------
# format_args! decoding

def decode_template(bs):
    """bytes of a fmt::Arguments template -> list of ('lit', text) / ('arg', index_or_None, flags, width, precision)"""
    out = []; i = 0; n = len(bs); nxt = 0
    while i < n:
        b = bs[i]
        if b == 0:
            break
        if b == 0x80:
            ln = bs[i + 1] | (bs[i + 2] << 8)
            out.append(('lit', bytes(bs[i + 3:i + 3 + ln]).decode('utf-8', 'replace')))
            i += 3 + ln
        elif b < 0x80:
            out.append(('lit', bytes(bs[i + 1:i + 1 + b]).decode('utf-8', 'replace')))
            i += 1 + b
        elif b & 0xC0 == 0xC0:
            i += 1
            flags = None; ai = None
            if b & 1:
                flags = int.from_bytes(bytes(bs[i:i + 4]), 'little'); i += 4
            width = prec = None
            if b & 2:
                width = int.from_bytes(bytes(bs[i:i + 2]), 'little'); i += 2
            if b & 4:
                prec = int.from_bytes(bytes(bs[i:i + 2]), 'little'); i += 2
            if b & 8:
                ai = int.from_bytes(bytes(bs[i:i + 2]), 'little'); i += 2
            if ai is None:
                ai = nxt
            nxt = ai + 1
            # width / precision are present when given in the template (`{:24}`, `{:.24}`); `{:.*}` only sets flag bit 28
            out.append(('arg', ai, flags, width, prec if prec is not None else ('dyn' if flags is not None and flags & (1 << 28) else None)))
        else:
            raise Broken('cannot decode fmt template byte %#x' % b)
    return out

class FmtSite:
    """one format_args! expansion: template pieces, typed arguments, consumer"""
    def __init__(self):
        self.body = None; self.bb = None; self.pieces = []; self.args = []  # args: (method, T, operand, bb)
        self.consumer = None   # Call consuming the Arguments value (write_fmt / format / _print ..)
        self.span = None; self.dest = None
    def literal(self):
        return ''.join(p[1] for p in self.pieces if p[0] == 'lit')
    def text(self):
        return ''.join(p[1] if p[0] == 'lit' else '{}' for p in self.pieces)
    def where(self):
        return '%s (%s)' % (self.body.path, span_str(self.span))

def fmt_sites(body):
    sites = []
    for c in body.calls():
        if c.is_(r'^std::fmt::Arguments::<\'_>::new::<', r'^std::fmt::Arguments::<\'a>::new$') and len(c.args) == 2:
            s = FmtSite(); s.body = body; s.bb = c.bb; s.span = c.span; s.dest = c.dest
            tr = provenance(body, c.args[0], c.bb, 'term')
            if len(tr) != 1 or tr[0].kind != 'const' or 'bytes' not in (tr[0].extra or {}):
                raise Broken('fmt template of %s is not a decodable constant: %s' % (c.where(), tr))
            s.pieces = decode_template(tr[0].extra['bytes'])
            ar = provenance(body, c.args[1], c.bb, 'term')
            if len(ar) != 1 or ar[0].kind != 'agg':
                raise Broken('fmt args of %s are not an array aggregate: %s' % (c.where(), ar))
            (ab, ak) = ar[0].site
            for f in ar[0].extra['fields']:
                rs = provenance(body, f, ab, ak, through=None)
                if len(rs) != 1 or rs[0].kind != 'call' or not rs[0].call.is_(r'core::fmt::rt::Argument::<\'_>::new_'):
                    raise Broken('fmt argument of %s is not an Argument::new_* call: %s' % (c.where(), rs))
                ac = rs[0].call
                meth = re.search(r'::(new_[a-z_]+)', ac.full).group(1)
                T = ac.callee['gargs'][-1] if ac.callee.get('gargs') else '?'
                s.args.append((meth, T, ac.args[0], ac.bb))
            sites.append(s)
        elif c.is_(r'^std::fmt::Arguments::<\'_>::from_str$', r'^std::fmt::Arguments::<\'a>::from_str$'):
            s = FmtSite(); s.body = body; s.bb = c.bb; s.span = c.span; s.dest = c.dest
            tr = provenance(body, c.args[0], c.bb, 'term')
            if len(tr) != 1 or tr[0].kind != 'const' or not isinstance(tr[0].what, str):
                raise Broken('fmt from_str literal of %s is not a constant: %s' % (c.where(), tr))
            s.pieces = [('lit', tr[0].what)]
            sites.append(s)
    # consumers
    for s in sites:
        if s.dest is None:
            continue
        _, sinks = flows_to(body, s.dest[0], through=None)
        for (b, k, kind, p) in sinks:
            if kind == 'call':
                s.consumer = Call(body, b, p)
                break
    return sites


def callee_bodies(fs, call):
    """crate-local bodies a call resolves to (by resolved/declared path)"""
    return [fs.bodies[n] for n in call.names if n in fs.bodies]

def lift_roots(caller, call, callee, roots, through=DEFAULT_THROUGH):
    """roots computed inside `callee` re-expressed in the frame of `caller` at the site `call`: a root that is a
    parameter of the callee is replaced by the provenance of the matching argument, with the callee's field
    path applied on top; every other root is kept as it is (its .call still belongs to the callee)."""
    names = {callee.name_of(i + 1): i for i in range(callee.arg_count)}
    out = []
    for r in roots:
        if r.kind == 'param' and r.what in names and names[r.what] < len(call.args):
            for q in provenance(caller, call.args[names[r.what]], call.bb, 'term', through=through):
                out.append(Root(q.kind, q.what, list(q.path) + list(r.path), q.site, q.call, q.extra))
        else:
            out.append(r)
    return out

def sites_through_helpers(fs, body, rx, depth=1):
    """call sites of functions matching rx that `body` performs itself or through a crate helper it calls directly:
    yields (site_call, via) where via is None or (call in body, helper body).  Used so that extracting a helper
    around an anchored call does not hide the call from a rule."""
    out = []
    for c in body.calls():
        if c.is_(rx):
            out.append((c, None))
        elif depth > 0:
            for h in callee_bodies(fs, c):
                if h.path == body.path:
                    continue
                for hc in h.calls():
                    if hc.is_(rx):
                        out.append((hc, (c, h)))
    return out

def roots_at(fs, body, site, via, op, through=DEFAULT_THROUGH):
    """provenance of operand `op` used at `site` (terminator position), expressed in `body`'s frame"""
    rs = provenance(site.body, op, site.bb, 'term', through=through)
    if via is not None:
        rs = lift_roots(body, via[0], via[1], rs, through=through)
    return rs


def resolve_upvar(parent, closure, name, through=DEFAULT_THROUGH):
    """roots (in `parent`) of the value a closure captured under `name`: looks up the statement of `parent` that builds the
    closure and follows the matching captured field"""
    caps = closure.j.get('captures', [])
    if name not in caps:
        return []
    out = []
    for i, k, st in parent.stmts():
        if st['k'] == 'assign' and st['rv']['k'] == 'agg' and st['rv'].get('closure') == closure.path:
            ix = caps.index(name)
            if ix < len(st['rv']['fields']):
                out += provenance(parent, st['rv']['fields'][ix], i, k, through=through)
    return out


def value_sites(body, variant, copies=True):
    """blocks that may give the return place a value of `variant` (Some / Ok / None / Err): aggregates of that variant
    written to `_0`, and definitions of `_0` whose variant is not visible here - a call returning straight into `_0`
    (`self.items.get(ix)` instead of `Some(self.items.get(ix)?)`) or a copy of another local - except the residual
    conversion of `?`, which can only produce None / Err"""
    out = []
    for i, k, st in body.stmts():
        if st['k'] == 'assign' and st['lhs'] == [0, []]:
            rv = st['rv']
            if rv['k'] == 'agg':
                if rv.get('variant') == variant:
                    out.append(i)
            elif copies and rv['k'] == 'use' and rv['op'][0] in ('cp', 'mv'):
                rs = provenance(body, rv['op'], i, k, through=None)
                if not rs or any(not (r.kind == 'agg' and r.extra.get('variant') not in (None, variant)) and
                                 not (r.kind == 'call' and r.call.is_(r'from_residual$') and variant in ('Some', 'Ok')) for r in rs):
                    out.append(i)
    for c in body.calls():
        if c.dest == [0, []]:
            if c.is_(r'from_residual$'):
                if variant in ('None', 'Err'): out.append(c.bb)
            else:
                out.append(c.bb)
    return sorted(set(out))
