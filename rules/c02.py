"""C02 - equivalent spellings mean the same thing; values arrive byte-exact (structural clauses).

Decides:
 R registry     the short-name registry used to split `-abc` is complete: collect_shorts visits every child-bearing Meta
                variant (Strict excepted, see census) and commands, feeds flags/args to the right accumulator and passes
                them straight down; run_inner adds the help and version short names and hands (flags, args) to the
                tokenizer in that order.
 V value slot   take_arg accepts exactly Word|ArgWord at key+1; matches_arg honours the `adjacent` restriction through the
                attached-value bit; the tokenizer sets that bit exactly when it pushes the attached value next.
 L lossless     no lossy or normalising call (to_string_lossy, from_utf8_lossy, trim*, to_*case, replace) sits on the way
                from the command line / environment to parse_os_str; to_string_lossy is used only by the listed diagnostic
                functions; parse_os_str passes OsString and PathBuf targets through without to_str.
 D cluster table  decision table of disambiguate_short over (declared short flag, declared short argument).
 B boundaries   offsets used to cut a cluster are byte offsets of character boundaries (char_indices + len_utf8; in
                split_os_argument the width of the first character), never a constant or a character count
                (found and fixed: `-ñ=v`); the width helper itself is evaluated as a TABLE over lead bytes (UTF-8: 1/2/3/4).
 E equals value  once split_os_argument has seen `=` every result carries a value part (the empty one for `--name=`); a result without a
                value part is built only where the input ended before any `=` (so `--name=` never takes the NEXT item as its value).
 N name lists    short()/long() and their method forms put the name into the list of its own kind; command names likewise (wiring table).
 L conversion arms  parse_os_str special-cases exactly OsString and PathBuf; a lossy rendering exists only on the failure edge of to_str()
                (never in a closure that could feed a value).
 D context free  while the item list is built it is only appended to / measured / rolled back: the meaning of a word never depends on the items
                produced for its neighbours (no last()/first_mut()/indexing in State::construct / disambiguate_short).
 L value cut      the value half of `-nVALUE=..` / `--name=VALUE` is cut out of the raw elements of the word (os_from_vec), never out of a decoded String.
Does not decide: that split_os_argument as a whole is a correct transducer for every byte string."""
import re
from core import *
from dataflow import *
from cfgq import *
from absint import *
from parsers import *
import consumers, c12, c04, walkers

LEVEL = 'other'
EXPLANATION = __doc__
ASSUMPTIONS = ['FromStr implementations of the target types are the user\'s']
FLOORS = {'R.registry': 17, 'V.value-slot': 9, 'L.lossless': 10, 'D.cluster-table': 4, 'B.boundaries': 6, 'N.name-lists': 8}

LOSSY = [r'to_string_lossy$', r'from_utf8_lossy$', r'str::<impl str>::(trim\w*|to_lowercase|to_uppercase|to_ascii_lowercase|to_ascii_uppercase|replace|replacen)$', r'make_ascii_(lower|upper)case$']
LOSSY_OK = {
    'from_os_str::parse_os_str': 'only to quote a value that is NOT valid UTF-8 in the error message',
    'meta_help::write_help_item': 'shows the current value of an env variable in --help',
    'error::textual_part': 'quotes the offending item in an error message',
    'error::Message::render': 'quotes the offending item in an error message',
    '<arg::Arg as std::fmt::Display>::fmt': 'Display of an item for messages',
    'complete_gen::<impl args::inner::State>::check_complete': 'completion works on UTF-8 text only',
    'complete_gen::pair_to_os_string': 'completion works on UTF-8 text only',
}

def run(ctx):
    cfgs = ['none', 'all'] if ctx.tier == 'quick' else ['none', 'all', 'ac']
    ctx.preload(cfgs)
    for cfg in cfgs:
        fs = ctx.facts(cfg)
        ctx.guard(registry, ctx, cfg, fs)
        ctx.guard(value_slot, ctx, cfg, fs)
        ctx.guard(name_search, ctx, cfg, fs)
        ctx.guard(lossless, ctx, cfg, fs)
        ctx.guard(conversion_arms, ctx, cfg, fs)
        import c05
        ctx.guard(c05.tokenizer_context_free, ctx, cfg, fs, 'D.cluster-table')
        ctx.guard(cluster_table, ctx, cfg, fs)
        ctx.guard(boundaries, ctx, cfg, fs)
        import wiring
        ctx.guard(wiring.builders, ctx, cfg, fs, 'N.name-lists', r'^(short|long|params::NamedArg::(short|long|help|env)|params::ParseCommand::<P>::(short|long|help|adjacent)|command|params::<impl info::OptionParser<T>>::command|params::ParseArgument::<T>::(adjacent|help)|params::ParseFlag::<T>::help|params::build_argument|params::build_flag_parser|params::NamedArg::(argument|switch|flag|req_flag))$')

def registry(ctx, cfg, fs):
    c12.walker_rules(ctx, cfg, fs, 'R.registry', {'collect_shorts': c12.WALKERS['collect_shorts']})
    b = ctx.look(fs.one(r'^info::OptionParser::<T>::run_inner$'))
    cs = [c for c in b.calls() if c.is_(r'collect_shorts$')]
    cons = [c for c in b.calls() if c.is_(r'State::construct$')]
    ok = len(cs) == 1 and len(cons) == 1
    ctx.ob('R.registry', 'run_inner:anchors', ok, 'run_inner calls collect_shorts %d time(s) and the tokenizer %d time(s)' % (len(cs), len(cons)), where=b.where(), cfg=cfg)
    if not ok:
        return
    def var(op, bb):
        for r in provenance(b, op, bb, 'term'):
            if r.kind == 'call' and r.call.is_(r'Vec::<char>::new$') and r.call.dest:
                return b.name_of(r.call.dest[0]), r.call.dest[0]
        return None, None
    f1, fl = var(cs[0].args[1], cs[0].bb); a1, al = var(cs[0].args[2], cs[0].bb)
    f2, _ = var(cons[0].args[1], cons[0].bb); a2, _ = var(cons[0].args[2], cons[0].bb)
    ctx.ob('R.registry', 'run_inner:same-accumulators', f1 is not None and a1 is not None and f1 == f2 and a1 == a2 and f1 != a1,
           'collect_shorts fills (%s, %s) and the tokenizer receives (%s, %s) as (flags, arguments)' % (f1, a1, f2, a2), where=cons[0].where(), cfg=cfg)
    ext = [c for c in b.calls() if c.is_(r'Extend<.*>>::extend')]
    srcs = set()
    for c in ext:
        tgt, _ = var(c.args[0], c.bb)
        for r in provenance(b, c.args[1], c.bb, 'term'):
            if r.kind == 'param':
                srcs.add((tgt, '.'.join(r.path)))
    want = {(f1, 'info.help_arg.short'), (f1, 'info.version_arg.short')}
    ctx.ob('R.registry', 'run_inner:help-version-shorts', srcs == want, 'the short names of the help and version flags join the flag registry: %s' % sorted(srcs), where=b.where(), cfg=cfg)
    ctx.ob('R.registry', 'run_inner:registry-before-tokenizer', all(b.dominates(c.bb, cons[0].bb) for c in cs + ext), 'the registry is complete before tokenising', where=b.where(), cfg=cfg)
    # the registry is computed from the same meta the parser is evaluated with
    ms = provenance(b, cs[0].args[0], cs[0].bb, 'term', through=None)
    ok = bool(ms) and all(r.kind == 'call' and r.call.is_(r'::meta$') and all(q.kind == 'param' and q.path == ['inner'] for q in provenance(b, r.call.args[0], r.call.bb, 'term')) for r in ms)
    ctx.ob('R.registry', 'run_inner:registry-from-own-meta', ok, 'the registry is collected from self.inner.meta(): %s' % ok, where=cs[0].where(), cfg=cfg)

def value_slot(ctx, cfg, fs):
    consumers.accept_sets(ctx, cfg, fs, 'V.value-slot')
    # tokenizer: is_adj bit true exactly where the attached value is pushed next
    for fn in ('args::inner::State::construct', 'args::disambiguate_short'):
        b = ctx.look(fs.body(fn))
        pushes = [c for c in b.calls() if c.is_(r'Vec::<arg::Arg>::push$')]
        for c in pushes:
            rs = provenance(b, c.args[1], c.bb, 'term', through=None)
            for r in rs:
                if r.kind == 'agg' and r.what in ('arg::Arg::Short', 'arg::Arg::Long'):
                    flag = r.extra['fields'][1]
                    fv = provenance(b, flag, r.site[0], r.site[1], through=None)
                    desc = sorted({('const:%s' % q.what) if q.kind == 'const' else ('%s:%s' % (q.kind, q.what if q.kind != 'call' else short(q.call.name))) for q in fv})
                    # what is pushed next (on every path from this push to the next push / loop header)?
                    nxt = next_pushes(b, c)
                    kinds = set()
                    for n in nxt:
                        for q in provenance(b, n.args[1], n.bb, 'term', through=None):
                            kinds.add(q.what.split('::')[-1] if q.kind == 'agg' else ('value:%s' % (q.what if q.kind != 'call' else short(q.call.name))))
                    if all(q.kind == 'const' and q.what is True for q in fv):
                        ok = bool(nxt) and kinds <= {'ArgWord', 'Word', 'value:arg::split_os_argument', 'value:split_os_argument'} and must_push_next(b, c, nxt)
                        why = 'attached-value bit is set: the value item %s is pushed right after on every path' % sorted(kinds)
                    elif all(q.kind == 'const' and q.what is False for q in fv):
                        ok = True; why = 'no attached value'
                    else:
                        # computed bit: must be the very condition under which the value is pushed
                        ok = True; why = 'bit computed from %s' % desc
                        issome = [q for q in fv if q.kind == 'call' and q.call.is_(r'Option::<.*>::is_some$')]
                        if issome and len(issome) == len(fv):
                            subj = {(z.kind, str(z.what), tuple(z.path)) for q in issome for z in provenance(b, q.call.args[0], q.call.bb, 'term')}
                            ok = False
                            for sw in switches(b):
                                if sw.kind == 'enum' and sw.target('Some') is not None:
                                    pr = {(z.kind, str(z.what), tuple(z.path)) for z in provenance(b, sw.place, sw.discr_site[0], sw.discr_site[1])}
                                    if pr == subj and b.reaches(c.bb, [sw.b]):
                                        vals = [n for n in nxt if only_via_edge(b, sw.b, sw.target('Some'), n.bb)]
                                        ok = len(vals) == len(nxt) and bool(nxt)
                                        why += '; the value is pushed exactly on the Some edge of the same option: %s' % ok
                        for sw in ([] if issome else switches(b)):
                            if sw.kind == 'bool' and {(q.kind, str(q.what)) for q in sw.roots} == {(q.kind, str(q.what)) for q in fv}:
                                t = sw.target(True); f_ = sw.target(False)
                                pt = [n for n in nxt if n.bb in reachable_edges(b, t, avoid=[f_])]
                                ok = bool(pt) and not [n for n in nxt if only_via_edge(b, sw.b, f_, n.bb)]
                                why += '; the value is pushed exactly on the true edge of the same condition: %s' % ok
                    ctx.ob('V.value-slot', '%s:push-%s:%s' % (short(fn), r.what.split('::')[-1], '+'.join(desc)[:60]), ok, '%s pushes %s with attached-value bit %s: %s' % (short(fn), r.what.split('::')[-1], desc, why), where=c.where(), cfg=cfg)

def name_search(ctx, cfg, fs):
    """take_arg / take_flag: the search predicate is matches_arg(item, adjacent) with the caller's own `adjacent` restriction
    handed through (take_flag: false), so an adjacent-restricted argument takes the FIRST occurrence that carries its value
    rather than giving up when the first occurrence of the name does not; and the item description used for the registry
    lists ALL short names of the NamedArg (aliases included)."""
    for nm, want in (('take_arg', 'param'), ('take_flag', 'false')):
        b = ctx.look(fs.body(consumers.CONSUMERS[nm][0]))
        calls = [(x, c) for x in fs.family(b) for c in x.calls() if c.is_(r'^params::NamedArg::matches_arg$')]
        got = set()
        for x, c in calls:
            rs_ = provenance(x, c.args[2], c.bb, 'term', through=None)
            # a captured value: look at what the enclosing function put into the closure
            rs_ = [q for r in rs_ for q in (resolve_upvar(b, x, r.what) or [r] if (r.kind == 'upvar' and x is not b) else [r])]
            for r in rs_:
                if r.kind == 'const': got.add('const %s' % r.what)
                elif r.kind in ('param', 'upvar') and r.what == 'adjacent' or (r.kind in ('param', 'upvar') and 'bool' in str(r.what)): got.add('param')
                elif r.kind in ('param', 'upvar'): got.add('param')
                else: got.add('%s:%s' % (r.kind, r.what))
        ok = len(calls) >= 1 and got == ({'param'} if want == 'param' else {'const False'})
        ctx.ob('V.value-slot', '%s:search-predicate' % nm, ok, '%s searches with matches_arg(item, %s) (%d call(s)): the restriction is part of the search, not a test applied to the first name match afterwards' % (nm, sorted(got), len(calls)), where=b.where(), cfg=cfg)
    # Item::Flag / Item::Argument list every short name
    n = 0
    for b in fs.bodies.values():
        if re.search(r'as std::clone::Clone>::clone$', b.path):
            continue
        for i, k, st in b.stmts():
            if st['k'] == 'assign' and st['rv']['k'] == 'agg' and st['rv'].get('adt') == 'item::Item' and st['rv'].get('variant') in ('Flag', 'Argument'):
                names = st['rv'].get('field_names') or []
                if 'shorts' not in names: continue
                rs = provenance(b, st['rv']['fields'][names.index('shorts')], i, k)
                ok = bool(rs) and all(r.kind in ('param', 'upvar') and r.path[-1:] == ['short'] for r in rs)
                n += 1
                ctx.ob('R.registry', '%s:Item::%s:shorts' % (short(outer(b.path)), st['rv']['variant']), ok,
                       '%s builds Item::%s with shorts = %s (must be the whole `short` list of the NamedArg: aliases feed the cluster registry too)' % (
                           short(b.path), st['rv']['variant'], sorted('%s:%s.%s' % (r.kind, r.what if r.kind != 'call' else short(r.call.name), '.'.join(r.path)) for r in rs)), where=b.where(i), cfg=cfg)
    if n == 0:
        raise Broken('no construction of Item::Flag / Item::Argument with a shorts field found')

def next_pushes(b, c):
    out = []; seen = set(); st = [c.target] if c.target is not None else []
    while st:
        x = st.pop()
        if x in seen: continue
        seen.add(x)
        n = b.call_at(x)
        if n and n.is_(r'Vec::<arg::Arg>::push$'):
            out.append(n); continue
        if n and n.is_(r'Iterator>?::next$') and ('OsString' in n.full or 'CharIndices' in n.full):
            continue
        st += b.succ(x)
    return out

def must_push_next(b, c, nxt):
    """no path from the push to a return / next loop iteration avoids the following push"""
    stop = {n.bb for n in nxt}
    reach = reachable_edges(b, c.target, avoid=stop)
    for x in reach:
        n = b.call_at(x)
        if b.term(x)['k'] == 'return':
            return False
        if n and n.is_(r'Iterator>?::next$') and ('OsString' in n.full or 'CharIndices' in n.full):
            return False
    return True

def lossless(ctx, cfg, fs):
    for b in fs.bodies.values():
        for c in b.calls():
            if c.is_(*LOSSY):
                o = outer(b.path)
                if re.search(r'^(buffer|meta_help::<impl buffer::Doc>|meta_youmean|complete_shell|complete_gen::(Comp|arg_matches|preferred|Complete)|doc::|info::|structs::)', o) and not c.is_(r'to_string_lossy$', r'from_utf8_lossy$'):
                    continue   # text formatting of help/docs, not on the value path
                ok = o in LOSSY_OK
                ctx.ob('L.lossless', 'lossy:%s:%s' % (short(o), c.name.split('::')[-1]), ok, '%s calls %s: %s' % (short(b.path), c.name.split('::')[-1], LOSSY_OK.get(o, 'NOT a listed diagnostic use: a value could be altered on its way to the program')), where=c.where(), cfg=cfg)
                ctx.look(b)
    # value path functions contain no lossy call at all
    for rx in (r'State>::take_arg$', r'State>::take_positional_word$', r'^params::parse_pos_word$', r'ParseArgument::<T>::take_argument$', r'^<params::ParseArgument<T> as Parser<T>>::eval$', r'^<params::ParsePositional<T> as Parser<T>>::eval$', r'^args::inner::State::construct$', r'^args::disambiguate_short$', r'^arg::split_os_argument$'):
        b = ctx.look(fs.host(rx, r'State>::take_positional_word$') if 'parse_pos_word' in rx else fs.one(rx))
        bad = [c.name for x in fs.family(b) for c in x.calls() if c.is_(*LOSSY)]
        ctx.ob('L.lossless', 'value-path:%s' % short(b.path), not bad, '%s (on the path of values) performs no lossy or normalising conversion: %s' % (short(b.path), bad or 'none'), where=b.where(), cfg=cfg)
    # the value half of `-nVALUE=..` / `--name=VALUE` is cut out of the raw elements of the word: it never goes through a text decoding
    # (which is fallible - a value whose bytes are not utf8 would stop the word from being recognised as name + value at all)
    sp = ctx.look(fs.one(r'^arg::split_os_argument$'))
    srcs = []
    for x in fs.family(sp):
        for i, k, st in x.stmts():
            if st['k'] == 'assign' and st['rv']['k'] == 'agg' and st['rv'].get('variant') == 'ArgWord' and st['rv'].get('adt', '').endswith('arg::Arg'):
                for r in provenance(x, st['rv']['fields'][0], i, k, through=DEFAULT_THROUGH):
                    srcs.append(short(r.call.name) if r.kind == 'call' else '%s:%s' % (r.kind, r.what))
    decoded = [s_ for s_ in srcs if re.search(r'String|str_from_vec|to_str|from_utf8|split_off|to_owned|to_string', s_)]
    ctx.ob('L.lossless', 'split_os_argument:value-cut-from-raw-elements', bool(srcs) and not decoded,
           'the ArgWord payloads built by split_os_argument come from %s (a decoded String among them: %s)' % (sorted(set(srcs)), decoded or 'no'), where=sp.where(), cfg=cfg)
    # take_arg returns a clone of the payload
    b = fs.body(consumers.CONSUMERS['take_arg'][0])
    good = False
    for i, k, st in b.stmts():
        if st['k'] == 'assign' and st['lhs'] == [0, []] and st['rv']['k'] == 'agg' and st['rv'].get('variant') == 'Ok':
            rs = provenance(b, st['rv']['fields'][0], i, k, through=None)
            for r in rs:
                if r.kind == 'agg' and r.extra.get('variant') == 'Some':
                    inner = provenance(b, r.extra['fields'][0], r.site[0], r.site[1], through=None)
                    if inner and all(q.kind == 'call' and q.call.is_(r'OsString as std::clone::Clone>::clone$') for q in inner):
                        src = [z for q in inner for z in provenance(b, q.call.args[0], q.call.bb, 'term')]
                        good = bool(src) and all(z.kind == 'call' and z.call.is_(r'State::get$') for z in src)
    ctx.ob('L.lossless', 'take_arg:returns-payload-clone', good, 'take_arg returns an exact clone of the value item found at key+1: %s' % good, where=b.where(), cfg=cfg)
    # parse_os_str: OsString / PathBuf arms bypass to_str
    p = ctx.look(fs.one(r'^from_os_str::parse_os_str$'))
    tid = {}
    for c in p.calls():
        m = re.search(r'TypeId::of::<(.*)>$', c.full)
        if m and m.group(1) != 'T':
            tid[m.group(1)] = c
    ts = [c for c in p.calls() if c.is_(r'OsStr::to_str$')]
    for ty in ('std::ffi::OsString', 'std::path::PathBuf'):
        ok = False
        if ty in tid and ts:
            # the eq() comparing with this TypeId
            for e in p.calls():
                if e.is_(r'TypeId as std::cmp::PartialEq>::eq$') and any(r.kind == 'call' and r.call.bb == tid[ty].bb for a in e.args for r in provenance(p, a, e.bb, 'term', through=None)):
                    sw = switch_on_call(p, e)
                    if sw is not None and sw.kind == 'bool':
                        reach = reachable_edges(p, sw.target(True))
                        ok = not any(t.bb in reach for t in ts) and any(x in reach for x in ok_return_blocks(p))
        ctx.ob('L.lossless', 'parse_os_str:%s-passthrough' % ty.split('::')[-1], ok, 'parse_os_str hands an %s target the original OS string without going through to_str (non-UTF-8 bytes survive): %s' % (ty.split('::')[-1], ok), where=p.where(), cfg=cfg)
    # everything else: to_str then FromStr, error text carries the reason
    fr = [c for c in p.calls() if c.is_(r'FromStr>::from_str$')]
    ok = len(fr) == 1 and len(ts) == 1 and p.dominates(ts[0].bb, fr[0].bb)
    if ok:
        rs = provenance(p, fr[0].args[0], fr[0].bb, 'term', through=None)
        ok = all(r.kind == 'call' and r.call.bb == ts[0].bb and r.path == ['as Some', '0'] for r in rs) and bool(rs)
    ctx.ob('L.lossless', 'parse_os_str:from_str-on-exact-text', ok, 'other targets get FromStr::from_str of exactly the to_str() view of the OS string: %s' % ok, where=p.where(), cfg=cfg)

def conversion_arms(ctx, cfg, fs, rule='L.lossless'):
    """parse_os_str has exactly the documented arms: OsString and PathBuf take the OS string as it is, every other target goes
    through to_str() + FromStr and FAILS ("not valid utf8") when the bytes are not UTF-8.  A lossy rendering of the OS string
    exists only to be quoted in that failure: it sits on the None edge of to_str() and never inside a closure that could feed a
    value (`into_string().unwrap_or_else(|os| os.to_string_lossy()..)` would turn invalid input into a successful, altered value)"""
    p = ctx.look(fs.one(r'^from_os_str::parse_os_str$'))
    ts = [c for c in p.calls() if c.is_(r'OsStr::to_str$')]
    sw = switch_on_call(p, ts[0]) if len(ts) == 1 else None
    bad = []
    for x in fs.family(p):
        for c in x.calls():
            if c.is_(r'to_string_lossy$', r'from_utf8_lossy$', r'into_string$'):
                if x is not p:
                    bad.append('%s inside a closure' % c.name.split('::')[-1])
                elif sw is None or sw.target('None') is None or not only_via_edge(p, sw.b, sw.target('None'), c.bb):
                    bad.append('%s outside the failure arm of to_str()' % c.name.split('::')[-1])
    # the TypeId special cases are the two documented ones
    tids = sorted({m.group(1) for c in p.calls() for m in [re.search(r'TypeId::of::<(.*)>$', c.full)] if m and m.group(1) != 'T'})
    ctx.ob(rule, 'parse_os_str:lossy-only-in-the-error', len(ts) == 1 and not bad, 'parse_os_str renders the OS string lossily only to quote it in the "not valid utf8" failure: %s' % (bad or 'ok'), where=p.where(), cfg=cfg)
    ctx.ob(rule, 'parse_os_str:special-cased-targets', tids == ['std::ffi::OsString', 'std::path::PathBuf'], 'parse_os_str bypasses FromStr exactly for %s (expected OsString and PathBuf: every other type is converted - and validated - by its FromStr)' % tids, where=p.where(), cfg=cfg)

def cluster_table(ctx, cfg, fs):
    b = ctx.look(fs.body('args::disambiguate_short'))
    P = {b.name_of(i): i for i in range(1, b.arg_count + 1)}
    want = {
        (True, False): 'flag',
        (False, True): 'argument',
        (False, False): 'word',
        (True, True): 'ambiguity',
    }
    for (isf, isa), name in want.items():
        def cm(w, c, store, isf=isf, isa=isa):
            if c.is_(r'slice::<impl \[T\]>::contains'):
                for r in provenance(b, c.args[0], c.bb, 'term'):
                    if r.kind == 'param' and r.what == 'short_flags': return ('c', isf)
                    if r.kind == 'param' and r.what == 'short_args': return ('c', isa)
            return ('callres', c.name, c.bb)
        cm.first = True
        w = Walker(b, call_model=cm, max_visits=1, max_paths=2000)
        paths = w.run()
        outs = set()
        for p in paths:
            # ignore the single-character shortcut taken before the table is consulted
            if not any(c.is_(r'slice::<impl \[T\]>::contains') for (_, c) in p.calls):
                continue
            pushes = []
            for (blk, c) in p.calls:
                if c.is_(r'Vec::<arg::Arg>::push$'):
                    for r in provenance(b, c.args[1], c.bb, 'term', through=None):
                        if r.kind == 'agg':
                            v = r.what.split('::')[-1]
                            if v in ('Short', 'Long'):
                                fv = provenance(b, r.extra['fields'][1], r.site[0], r.site[1], through=None)
                                bit = 'adj=%s' % ('|'.join(sorted({str(q.what) if q.kind == 'const' else 'computed' for q in fv})))
                                pushes.append('%s(%s)' % (v, bit))
                            else:
                                pushes.append(v)
            trunc = bool(p.called(r'Vec::<.*>::truncate$'))
            if p.end == 'return':
                end = 'return ' + show(p.ret)
            elif p.end == 'loop':
                end = 'next character'
            else:
                end = p.end
            outs.add((tuple(pushes), trunc, re.sub(r"\(.*", '', end) if end.startswith('return Some') else end))
        if name == 'flag':
            ok = outs == {(('Short(adj=False)',), False, 'next character'), (('Short(adj=False)',), False, 'return None')} or outs == {(('Short(adj=False)',), False, 'next character')}
        elif name == 'argument':
            ok = outs <= {(('Short(adj=computed)', 'Word'), False, 'return None'), (('Short(adj=computed)',), False, 'return None')} and len(outs) == 2
        elif name == 'word':
            ok = outs == {(('Word',), True, 'return None')}
        else:
            ok = outs == {(('Word',), False, 'return Some')}
        ctx.ob('D.cluster-table', 'disambiguate_short:flag=%s:arg=%s' % (isf, isa), ok,
               'disambiguate_short for a character that is %sa declared short flag and %sa declared short argument: %s' % ('' if isf else 'not ', '' if isa else 'not ', sorted(outs)), where=b.where(), cfg=cfg)

def equals_value(ctx, cfg, fs):
    """`--name=` and `-n=` carry an attached value - the EMPTY one.  Once the scan of split_os_argument has seen the `=` every
    result has a value part; a result without one is produced only where the input ended before any `=`.  (Deciding on the
    length of what follows the `=` would turn `--name=` into the bare `--name`, which then takes the NEXT item as its
    value: the two spellings `--name ""` and `--name=` stop agreeing.)"""
    b = ctx.look(fs.one(r'^arg::split_os_argument$'))
    eq_edges = []
    for sw in switches(b):
        if sw.kind == 'int' and 61 in sw.edges and any(r.kind == 'call' and r.call.is_(r'Iterator>?::next$') for r in sw.roots):
            eq_edges.append((sw.b, sw.edges[61]))
    if not eq_edges:
        # written as a comparison: `x == EQUALS`
        for sw in switches(b):
            if sw.kind == 'bool':
                for r in sw.roots:
                    if r.kind == 'bin' and r.extra['op'] in ('Eq', 'Ne'):
                        ks = [q.what for o in (r.extra['a'], r.extra['b']) for q in provenance(b, o, r.site[0], r.site[1], through=None) if q.kind == 'const']
                        if 61 in ks:
                            eq_edges.append((sw.b, sw.target(r.extra['op'] == 'Eq')))
    if not eq_edges:
        raise Broken('split_os_argument: the test for `=` was not found')
    after = set()
    for (a_, t_) in eq_edges:
        after |= reachable_edges(b, t_)
    nones = [i for i, k, st in b.stmts() if st['k'] == 'assign' and st['rv']['k'] == 'agg' and st['rv'].get('variant') == 'None'
             and re.match(r'std::option::Option<arg::Arg>$', b.local_ty(st['lhs'][0]) or '') and not st['lhs'][1]]
    somes = [i for i, k, st in b.stmts() if st['k'] == 'assign' and st['rv']['k'] == 'agg' and st['rv'].get('variant') == 'Some'
             and re.match(r'std::option::Option<arg::Arg>$', b.local_ty(st['lhs'][0]) or '') and not st['lhs'][1]]
    bad = [b.where(i) for i in nones if i in after]
    ctx.ob('B.boundaries', 'split_os_argument:value-iff-equals', bool(nones) and bool(somes) and not bad and all(i in after for i in somes),
           'split_os_argument: a result without a value part is built only where no `=` was seen (%d site(s)), one with a value part only after the `=` (%d site(s)): %s' % (len(nones), len(somes), bad or 'ok'),
           where=b.where(), cfg=cfg)

def boundaries(ctx, cfg, fs):
    equals_value(ctx, cfg, fs)
    before = len(ctx.obs)
    c04.str_index(ctx, cfg, fs)
    keep = [o for o in ctx.obs[before:] if 'disambiguate_short' in o.key or 'split_os_argument' in o.key]
    for o in keep: o.rule = 'B.boundaries'
    ctx.obs = ctx.obs[:before] + keep
    b = ctx.look(fs.one(r'^arg::split_os_argument$'))
    for c in b.calls():
        if c.is_(r'Vec::<.*>::drain', r'Vec::<.*>::truncate$', r'Vec::<.*>::split_off$'):
            rs = provenance(b, c.args[1], c.bb, 'term', through=None)
            bad = []
            def consts(rs_, depth=0):
                for r in rs_:
                    if r.kind == 'const' and r.what not in (0,):
                        bad.append('constant %r' % (r.what,))
                    elif r.kind == 'agg' and depth < 3:
                        for f in r.extra['fields']:
                            consts(provenance(b, f, r.site[0], r.site[1], through=None), depth + 1)
            consts(rs)
            ctx.ob('B.boundaries', 'split_os_argument:%s' % c.name.split('::')[-1], not bad,
                   'split_os_argument cuts the encoded name with %s at %s (a constant element offset is not a character boundary for a non-ASCII short name)' % (c.name.split('::')[-1], bad or 'a computed character width'), where=c.where(), cfg=cfg)
    # the width function itself, as a table over the first element (unix: UTF-8 lead byte -> number of bytes)
    wfn = set()
    for c in b.calls():
        if c.is_(r'Vec::<.*>::drain', r'Vec::<.*>::truncate$'):
            def width_calls(rs_, depth=0):
                for r in rs_:
                    if r.kind == 'call':
                        for h in callee_bodies(fs, r.call):
                            wfn.add(h.path)
                    elif r.kind == 'agg' and depth < 3:
                        for f in r.extra['fields']:
                            width_calls(provenance(b, f, r.site[0], r.site[1], through=None), depth + 1)
            width_calls(provenance(b, c.args[1], c.bb, 'term', through=None))
    if len(wfn) != 1:
        raise Broken('split_os_argument: the character-width helper behind drain/truncate was not identified (%s)' % sorted(wfn))
    wb = ctx.look(fs.bodies[list(wfn)[0]])
    if wb.local_ty(1).endswith('[u8]'):
        want = {0x41: 1, 0x7f: 1, 0xc3: 2, 0xdf: 2, 0xe0: 3, 0xef: 3, 0xf0: 4, 0xf4: 4}
    else:
        want = {0x41: 1, 0xd7ff: 1, 0xd800: 2, 0xdbff: 2, 0xe000: 1}
    got = {}
    for v in want:
        def cm(w, c, store, v=v):
            if c.is_(r'slice::<impl \[.*\]>::first$'):
                return ('agg', 'std::option::Option', 'Some', [('c', v)])
            if c.is_(r'Range<.*>::contains', r'RangeInclusive<.*>::contains'):
                return None
            return None
        cm.first = True
        w = Walker(wb, call_model=cm, max_paths=200)
        vals = set()
        for pth in w.run():
            named = [(blk, l, val) for (blk, l, val) in pth.assigns if val is not UNKNOWN and val[0] == 'c' and isinstance(val[1], int) and wb.local_ty(l) == 'usize']
            vals.add(named[-1][2][1] if named else None)
        got[v] = sorted(vals, key=str)
    ok = all(got[v] == [want[v]] for v in want)
    ctx.ob('B.boundaries', 'split_os_argument:width-table', ok, 'the width helper %s maps a first element to the length of the character it starts: %s (expected %s)' % (
        short(wb.path), {hex(k): v for k, v in got.items()}, {hex(k): v for k, v in want.items()}), where=wb.where(), cfg=cfg)
    # "is this a single character?" must never be asked of a length in BYTES: no comparison (or match) of the byte length of
    # a str / String / OsStr with the constants 1 or 2 anywhere in the tokenizer and its consumers
    LEN = [r'str::<impl str>::len$', r'String::len$', r'OsStr::len$', r'OsString::len$']
    hits = []
    for x in fs.bodies.values():
        if not re.search(r'^(args|arg|params|info)::|^<(args|arg|params)::', outer(x.path)):
            continue
        for i, k, st in x.stmts():
            if st['k'] == 'assign' and st['rv']['k'] == 'bin' and st['rv']['op'] in ('Eq', 'Ne', 'Gt', 'Lt', 'Ge', 'Le'):
                for (u, v_) in ((st['rv']['a'], st['rv']['b']), (st['rv']['b'], st['rv']['a'])):
                    kc = op_const(v_)
                    if kc and kc.get('v') in (1, 2):
                        rs = provenance(x, u, i, k, through=None)
                        if rs and all(r.kind == 'call' and r.call.is_(*LEN) for r in rs):
                            hits.append(x.where(i))
        for sw in switches(x):
            if sw.kind == 'int' and any(v_ in (1, 2) for v_ in sw.edges if isinstance(v_, int)):
                rs = provenance(x, x.term(sw.b)['op'], sw.b, 'term', through=None)
                if rs and all(r.kind == 'call' and r.call.is_(*LEN) for r in rs):
                    hits.append(x.where(sw.b))
    ctx.ob('B.boundaries', 'tokenizer:no-byte-length-as-character-count', not hits,
           'no test in args/arg/params compares the BYTE length of a string with 1 or 2 (a one-character name such as `-ñ` is two bytes): %s' % (hits or 'none found'), cfg=cfg)
    # the multi-character test compares with the same computed width
    cmp_ok = False
    for sw in switches(b):
        for r in sw.roots:
            if r.kind == 'bin' and r.extra['op'] in ('Gt', 'Lt', 'Ge', 'Le'):
                a = provenance(b, r.extra['a'], r.site[0], r.site[1], through=None); c_ = provenance(b, r.extra['b'], r.site[0], r.site[1], through=None)
                if any(x.kind == 'call' and x.call.is_(r'Vec::<.*>::len$') for x in a + c_):
                    other = [x for x in a + c_ if not (x.kind == 'call' and x.call.is_(r'Vec::<.*>::len$'))]
                    cmp_ok = bool(other) and not any(x.kind == 'const' for x in other)
    ctx.ob('B.boundaries', 'split_os_argument:cluster-test', cmp_ok, 'the "more than one character" test of a short cluster compares the element count with the width of the first character, not with a constant: %s' % cmp_ok, where=b.where(), cfg=cfg)
