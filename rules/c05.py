"""C05 - every command-line item is used exactly once or the run fails.

Decides:
 L ledger encapsulation   State.item_state / remaining / scope are written only by the listed primitives, are
                          private to args::inner, State::remove is crate-private (third-party Parser impls cannot
                          consume), ItemState::Parsed is produced only by remove and for the `--` marker.
 P primitives             remove / get / ArgsIter::next act only on in-scope, present items; remove pairs
                          `remaining -= 1` with the Parsed mark; set_scope recounts the present items.
 C read => remove         each primitive consumer returns success only after remove() of every index whose
                          payload it read (key and value for take_arg); indexes come from the scope-filtered
                          iterator (or key+1), never from direct indexing.
 O leftover check         run_subparser returns Ok only on the edge where nothing is left in scope.
 E error discipline       the Err->Ok conversion sites are exactly the listed ones (shared with C06.K4).
 S snapshot / restore     at each conversion site the failing attempt ran on a clone that is not adopted, or a
                          clone taken before the attempt is swapped back on every Err->Ok path.
 R scope restore          symbolic tracking of set_scope/clone/swap/scope along all paths of ParseAdjacent::eval
                          and ParseCommand::eval: every Ok return leaves the caller's state with the scope it had
                          before the adjacent narrowing (the subcommand's own narrowing is kept: it is closed by
                          the leftover check inside run_subparser).
 T tokenizer append-only  the vector of items built from argv is only appended to; the single rollback (a cluster that is
                          neither flags nor an argument) truncates to a length saved before anything was pushed; the only item
                          marked consumed up front is `--` itself, at the position it was tokenized into (shared with C09).
 A accept sets            which kinds of item each consumer may claim: the value half of `--name=value` (ArgWord) is claimed only as the
                          value of the name in front of it, never by a positional or a command - a stray one is left over and fails the run.
 X alternatives           ParseOrElse adopts exactly one fork (see C07).
 L ledger callers        only the listed functions call State::remove / State::get / State::set_scope (who-may-call registry).
 K marker only           the tokenizer drops an item exactly when ArgScanner::check_next says so: check_next returns true only for
                          `--bpaf-complete-rev=N` (table: an ordinary item, also one that merely starts with `--bpaf-complete-`, gives false).
 L forkers               only the listed functions clone the State (who-may-fork registry); a pass-through wrapper works on the state it was given.
 T context free          the tokenizer only appends to / measures / rolls back the list under construction.
 A equals value          `--name=` carries the empty value: no item vanishes between argv and the ledger (shared with C02).
 R retry outcome         a failed adjacent command reports the failure of its FIRST run (never the outcome of the retry: an empty narrowed block
                          with fallback_to_usage would turn a stray item into usage on stdout) - shared with C08.
 T ambiguity     the tokenizer's "cannot split this cluster" error leaves run_inner as the failure in every build configuration; only a
                        completion request (known right after tokenizing) proceeds without it (shared with C10).
 T one registry   collect_shorts passes its two accumulators straight through every level: one global table, so a letter that is a flag here and an
                        argument there is reported as ambiguous instead of being split (shared with C02).
Does not decide: that no combination of shapes double-delivers an item through scope arithmetic."""
import re
from core import *
from dataflow import *
from cfgq import *
from parsers import *
import consumers, scopes, c06

LEVEL = 'other'
EXPLANATION = __doc__
ASSUMPTIONS = ['user closures are pure; third-party Parser impls can only call the public API']
FLOORS = {'L.ledger': 16, 'P.primitives': 13, 'C.read-remove': 22, 'O.leftover': 2, 'E.discipline': 9, 'S.snapshot': 10, 'R.scope-restore': 4, 'T.tokenizer': 4, 'A.accept-sets': 8, 'K.marker-only': 2}

def run(ctx):
    cfgs = ['none', 'all'] if ctx.tier == 'quick' else ['none', 'all', 'ac', 'doc', 'dull', 'bat']
    ctx.preload(cfgs)
    for cfg in cfgs:
        fs = ctx.facts(cfg)
        import c08, c09, c11, c02
        ctx.guard(consumers.ledger, ctx, cfg, fs, 'L.ledger')
        ctx.guard(consumers.ledger_callers, ctx, cfg, fs, 'L.ledger')
        ctx.guard(consumers.forkers, ctx, cfg, fs, 'L.ledger')
        ctx.guard(consumers.primitives, ctx, cfg, fs, 'P.primitives')
        ctx.guard(consumers.itemstate, ctx, cfg, fs, 'P.primitives')
        ctx.guard(consumers.consumers, ctx, cfg, fs, 'C.read-remove')
        ctx.guard(consumers.leftover, ctx, cfg, fs, 'O.leftover')
        ctx.guard(discipline, ctx, cfg, fs)
        ctx.guard(snapshot, ctx, cfg, fs)
        ctx.guard(scope_restore, ctx, cfg, fs)
        ctx.guard(tokenizer_append_only, ctx, cfg, fs)
        ctx.guard(tokenizer_context_free, ctx, cfg, fs)
        ctx.guard(c08.keep_only, ctx, lambda: c08.matched(ctx, cfg, fs), lambda o: 'failure-is-first-outcome' in o.key or 'inner-failure-is-final' in o.key, 'R.scope-restore')
        ctx.guard(consumers.accept_sets, ctx, cfg, fs, 'A.accept-sets')
        import c12
        # one global short-name registry: a letter that is a flag in one command and an argument in another is reported, not split (shared with C02)
        ctx.guard(c12.walker_rules, ctx, cfg, fs, 'T.tokenizer', {'collect_shorts': c12.WALKERS['collect_shorts']})
        import c10
        # a word the tokenizer could not split is not claimed by anybody: its error leaves run_inner in every build configuration
        ctx.guard(c08.keep_only, ctx, lambda: c10.ambiguity(ctx, cfg, fs), lambda o: True, 'T.tokenizer')
        ctx.guard(c08.keep_only, ctx, lambda: c02.equals_value(ctx, cfg, fs), lambda o: True, 'A.accept-sets')
        if fs.find(r'complete_run::.*ArgScanner.*check_next$', required=False):
            ctx.guard(c08.keep_only, ctx, lambda: c11.completion_marker(ctx, cfg, fs), lambda o: True, 'K.marker-only')
        ctx.guard(c08.keep_only, ctx, lambda: c09.tokenizer(ctx, cfg, fs), lambda o: 'marker-' in o.key, 'T.tokenizer')

def tokenizer_append_only(ctx, cfg, fs):
    """every call that can shrink a Vec<Arg> (the item list under construction): allowed is truncate(len saved at entry)"""
    n = 0
    for b in fs.bodies.values():
        for c in b.calls():
            if not c.is_(r'^std::vec::Vec::<arg::Arg>::(truncate|pop|remove|swap_remove|drain|clear|retain|split_off|dedup\w*)$', r'^std::vec::Vec::<arg::Arg, A>::(truncate|pop|remove|swap_remove|drain|clear|retain|split_off)$'):
                continue
            n += 1
            ok = False; why = 'removes items that were already tokenized'
            if c.is_(r'::truncate$'):
                rs = provenance(b, c.args[1], c.bb, 'term', through=None)
                saved = bool(rs) and all(r.kind == 'call' and r.call.is_(r'Vec::<arg::Arg.*>::len$') and not r.path for r in rs)
                # the saved length was taken before any push in this function
                early = saved and all(not any(x.is_(r'Vec::<arg::Arg.*>::push$') and b.reaches(x.bb, [r.call.bb]) and x.bb != r.call.bb for x in b.calls()) for r in rs)
                ok = saved and early
                why = 'rolls back to the length saved before anything was pushed' if ok else 'truncates to %s' % sorted('%s:%s' % (r.kind, r.what if r.kind != 'call' else short(r.call.name)) for r in rs)
            ctx.ob('T.tokenizer', '%s:%s' % (short(outer(b.path)), c.name.split('::')[-1]), ok, '%s: %s on the item list under construction %s' % (short(b.path), c.name.split('::')[-1], why), where=c.where(), cfg=cfg)
    cons = ctx.look(fs.one(r'^args::inner::State::construct$'))
    pushes = [c for x in [cons] + [fs.bodies[n_] for c_ in cons.calls() for n_ in c_.names if n_ in fs.bodies] for c in x.calls() if c.is_(r'Vec::<arg::Arg.*>::push$')]
    ctx.ob('T.tokenizer', 'construct:pushes', len(pushes) >= 5 and n >= 1, 'State::construct and its helpers build the item list with %d push sites and %d shrinking site(s)' % (len(pushes), n), where=cons.where(), cfg=cfg)

def tokenizer_context_free(ctx, cfg, fs, rule='T.tokenizer'):
    """what an argv word is tokenized into depends on the word, on the declared short names and on whether `--` has been seen -
    never on the items produced for OTHER words: while the list is being built it is only appended to (push), measured (len)
    and rolled back (truncate).  Reading an element back (last(), first_mut(), indexing, iteration) makes the meaning of a word
    depend on its neighbours, i.e. on where the user happened to write it."""
    ALLOWED = r'^std::vec::Vec::<.*>::(push|len|truncate|with_capacity|new|is_empty|reserve|capacity)$'
    n = 0
    for path in ('args::inner::State::construct', 'args::disambiguate_short'):
        b = ctx.look(fs.body(path))
        reads = []
        for x in fs.family(b):
            for c in x.calls():
                if 'arg::Arg' not in c.full or not c.args:
                    continue
                if not c.is_(r'^std::vec::Vec::<', r'^core::slice::<impl \[T\]>::', r'Index<', r'IndexMut<', r'Vec<.*> as std::ops::Deref', r'IntoIterator'):
                    continue
                if not re.search(r'Vec<arg::Arg>|\[arg::Arg\]', ' '.join(str(x.local_ty((op_place(a) or [0])[0])) for a in c.args[:1])):
                    continue
                n += 1
                if not c.is_(ALLOWED):
                    reads.append('%s at %s' % (c.name.split('::')[-1], x.where(c.bb)))
        ctx.ob(rule, '%s:items-never-read-back' % short(path), not reads, '%s only appends to / measures / rolls back the item list under construction: %s' % (short(path), reads or 'ok'), where=b.where(), cfg=cfg)
    if n < 6:
        raise Broken('tokenizer_context_free: only %d operations on the item list found' % n)

def discipline(ctx, cfg, fs):
    for (b, c, cls, d) in conversion_sites(fs):
        o = outer(b.path)
        if cls == 'escapes' and o == 'info::OptionParser::<T>::run':
            continue
        ok = o in c06.CONVERSION_SITES
        ctx.look(b)
        ctx.ob('E.discipline', '%s:%s:%s' % (short(o), short(c.name), cls), ok,
               '%s: result of %s is %s: %s' % (short(b.path), short(c.name), cls, c06.CONVERSION_SITES.get(o, 'NOT a listed Err->Ok conversion site (items consumed by the failed attempt could be lost)')),
               where=c.where(), cfg=cfg)

def state_arg_identity(body, call):
    """identity of the State a parser call is evaluated on"""
    for a in call.args:
        sid = scopes.state_id(body, a, call.bb)
        if sid is not None:
            return sid
    return None

def clone_of_param_before(body, local, call):
    """is State local `local` a clone of the parameter state taken at a point dominating `call`"""
    for c in body.calls():
        if c.is_(r'^<args::inner::State as std::clone::Clone>::clone$') and c.dest == [local, []]:
            src = scopes.state_id(body, c.args[0], c.bb)
            if isinstance(src, str) and body.dominates(c.bb, call.bb):
                return c
    return None

def snapshot(ctx, cfg, fs):
    # generic part: for every conversion site evaluated directly on the caller's state, a restoring swap
    # must lie on every path from the Err edge to an Ok return
    sites = [(b, c, cls) for (b, c, cls, d) in conversion_sites(fs) if cls in ('converted', 'ignored')]
    for (b, c, cls) in sites:
        o = outer(b.path)
        if o in ('info::OptionParser::<T>::run_subparser', '<info::Info as Parser<info::ExtraParams>>::eval', 'batteries::get_usage'):
            ctx.ob('S.snapshot', '%s:%s:terminal' % (short(o), short(c.name)), True,
                   '%s is a terminal consumer of the error (its Ok is help/version output or the leftover-checked value), no state is handed on' % short(o),
                   where=c.where(), cfg=cfg, nontrivial=False)
            continue
        sid = state_arg_identity(b, c)
        if sid is None:
            ctx.ob('S.snapshot', '%s:%s:state-unknown' % (short(o), short(c.name)), False, 'cannot identify the State %s is evaluated on' % short(c.name), where=c.where(), cfg=cfg)
            continue
        swaps = [x for x in b.calls() if x.is_(r'^std::mem::swap::<args::inner::State>$')]
        fl = classify_result(b, c)
        oks = ok_return_blocks(b)
        if isinstance(sid, str):
            # evaluated on the caller's state: need clone-before + swap-back on every Err->Ok path
            restoring = []
            for s in swaps:
                ids = [scopes.state_id(b, a, s.bb) for a in s.args]
                if sid in ids:
                    other = [i for i in ids if i != sid]
                    if other and isinstance(other[0], tuple) and clone_of_param_before(b, other[0][1], c):
                        restoring.append(s.bb)
            good = bool(fl.err_edges) and bool(restoring)
            for (sb, tb) in fl.err_edges:
                reach_wo = reachable_edges(b, tb, avoid=restoring)
                if any(ok_ in reach_wo for ok_ in oks):
                    good = False
            ctx.ob('S.snapshot', '%s:%s:restore-on-caught-failure' % (short(o), short(c.name)), good,
                   '%s evaluates %s on the caller\'s state; every path from its Err edge to an Ok return passes a swap with a clone taken before the attempt: %s' % (short(o), short(c.name), good),
                   where=c.where(), cfg=cfg)
        else:
            # evaluated on a local clone: on Err->Ok paths the clone must not be adopted, unless it is
            # re-initialised first (loops) - adoption sites must be dominated by an Ok edge of an eval on it
            adopt = []
            for s in swaps:
                ids = [scopes.state_id(b, a, s.bb) for a in s.args]
                if sid in ids and any(isinstance(i, str) for i in ids):
                    adopt.append(s)
            good = True; why = []
            for s in adopt:
                # adoption must be dominated by the Ok edge of some parser call evaluated on this clone
                dom_ok = False
                for c2 in result_calls(b):
                    if state_arg_identity(b, c2) == sid:
                        f2 = classify_result(b, c2)
                        if any(only_via_edge(b, sb, tb, s.bb) for (sb, tb) in f2.ok_edges):
                            dom_ok = True
                # or it hands back the best-effort state on the failure path (Err return only)
                to_ok = any(ok_ in reachable_edges(b, s.bb) for ok_ in oks)
                if not dom_ok and to_ok:
                    good = False; why.append(b.where(s.bb))
            ctx.ob('S.snapshot', '%s:%s:clone-adopted-only-on-success' % (short(o), short(c.name)), good,
                   '%s evaluates %s on a local clone (%s); the clone is swapped into the caller\'s state only after a successful evaluation on it (or on a path that returns Err)%s' % (
                       short(o), short(c.name), b.name_of(sid[1]), '' if good else ': adopted without success at %s' % why),
                   where=c.where(), cfg=cfg)

def scope_restore(ctx, cfg, fs):
    # ParseAdjacent: every Ok return leaves the caller's scope as it was at entry
    b = ctx.look(fs.one(r'^<structs::ParseAdjacent<P> as Parser<T>>::eval$'))
    w, ps = scopes.track(b)
    if not ps:
        raise Broken('ParseAdjacent::eval: no Ok path found')
    finals = {}
    for p in ps:
        finals.setdefault(repr(p.store.get(('sc', 'args'))), []).append(p)
    for k, v in sorted(finals.items()):
        ctx.ob('R.scope-restore', 'ParseAdjacent::eval:ok-scope:%s' % k, k == repr(('entry',)),
               'ParseAdjacent::eval: %d Ok path(s) return with the caller\'s scope = %s (must be the scope at entry)' % (len(v), k),
               where=b.where(v[0].blocks[-1]), cfg=cfg)
    # the inner parser is never evaluated on the caller's state
    for c in result_calls(b):
        sid = state_arg_identity(b, c)
        ctx.ob('R.scope-restore', 'ParseAdjacent::eval:eval-on:%s' % (b.name_of(sid[1]) if isinstance(sid, tuple) else sid), isinstance(sid, tuple),
               'ParseAdjacent::eval runs the inner parser on %s' % ('the local clone ' + b.name_of(sid[1]) if isinstance(sid, tuple) else 'the caller\'s state'), where=c.where(), cfg=cfg)
    # ParseCommand
    b = ctx.look(fs.one(r'^<params::ParseCommand<T> as Parser<T>>::eval$'))
    w, ps = scopes.track(b)
    if not ps:
        raise Broken('ParseCommand::eval: no Ok aggregate path found (adjacent branch)')
    finals = {}
    for p in ps:
        finals.setdefault(repr(p.store.get(('sc', 'args'))), []).append(p)
    allowed = {repr(('entry',)), repr(('narrow', 'range', ('entry',)))}
    for k, v in sorted(finals.items()):
        blocks = sorted({p.blocks[-1] for p in v})
        ok_site = sorted({([x for x in p.blocks if x in ok_return_blocks(b)] or [p.blocks[-1]])[-1] for p in v})
        ctx.ob('R.scope-restore', 'ParseCommand::eval:adjacent-ok-scope:%s' % k, k in allowed,
               'ParseCommand::eval (adjacent): %d Ok path(s) return with the caller\'s scope = %s; allowed: the scope at entry or the command\'s own `cur..end` narrowing - an adjacency narrowing left in place hides the items to the right of the block from the leftover check' % (len(v), k),
               where=b.where(ok_site[0]), cfg=cfg)
    # non-adjacent branch: Ok flows only from run_subparser (whose leftover check closes the narrowed scope)
    # (`run.map_err(wrap)` returned as it is, or `Ok(v)` with v the Ok payload of a run)
    good = True; n_src = 0
    for c in b.calls():
        if c.dest == [0, []] and not c.is_(r'from_residual$'):
            rs = provenance(b, c.args[0], c.bb, 'term', through=None) if c.is_(r'Result::<.*>::map_err') and c.args else []
            good &= bool(rs) and all(r.kind == 'call' and r.call.is_(r'OptionParser::<T>::run_subparser$') for r in rs)
            n_src += 1
    for i, k, st in b.stmts():
        if st['k'] == 'assign' and st['lhs'] == [0, []] and st['rv']['k'] == 'agg' and st['rv'].get('variant') == 'Ok':
            rs = provenance(b, st['rv']['fields'][0], i, k, through=[r'Result::<.*>::map_err'])
            good &= bool(rs) and all(r.kind == 'call' and r.call.is_(r'OptionParser::<T>::run_subparser$') and r.path[-2:] == ['as Ok', '0'] for r in rs)
            n_src += 1
    good &= n_src > 0
    ctx.ob('R.scope-restore', 'ParseCommand::eval:plain-ok-from-run_subparser', good,
           'the plain subcommand branch returns exactly the outcome of run_subparser (narrowed scope closed by its leftover check): %s' % good, where=b.where(), cfg=cfg)
