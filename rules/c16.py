"""C16 - generated documentation is complete and well-formed (structural clauses; docgen builds).

Decides:
 T html taint       the only non-constant text Doc::render_html appends is a splitter chunk that went through BOTH
                    replace('<', "&lt;") and replace('>', "&gt;").
 G html tags        per Block variant, the tags opened by the BlockStart arm are the tags closed by the BlockEnd arm (the
                    ItemBody dd/li choice tests the same stack slot on both sides); change_style closes i, b, tt and opens
                    tt, b, i (reverse nesting), each guarded by its own flag; stack discipline of all 64 transitions (abstract walk).
 P token pairing    every function that emits BlockStart(b) emits BlockEnd(b) on every path to its return (listed exception:
                    the GroupStart / GroupEnd and AnywhereStart / AnywhereStop arm pairs of write_help_item, whose effects are
                    complementary); per function the multisets of started and ended blocks agree.
 E roff escaper     escape::escape: the Spaces rule replaces both ' ' and '\\n' (a control-line argument can never start a new
                    line); in the Special rules the test `at_line_start and c in {'.', '\\''}` writes `\\&` before the byte is
                    written; at_line_start starts true and is recomputed from c == '\\n' after every byte.
 U unescaped census every Escape::Unescaped / UnescapedAtNewline payload is a constant, or a `name` / `arg` parameter of
                    Roff::control* / Roff::escape whose every call site passes constants (interprocedural); text of the
                    document reaches the roff monoid only through plaintext (Special*) or control arguments (Spaces).
 C capture pairing  render_roff: every block kind that turns the header-capture flag on turns it off again, writes the request
                    and empties the buffer on EVERY path of its end arm (walker table per Block variant); no other kind
                    touches the flag.
 S sections         extract_sections records the level itself, walks the item list produced by append_meta directly (every
                    HelpItem::Command, no type-filtered view) and recurses with the command's own meta/info;
                    collect_html and render_manpage both build their documents from extract_sections + the --help pipeline.
 H style reset     in the BlockStart / BlockEnd arms of render_html and render_markdown the style reset precedes every other write of the
                    arm (inline tags are closed before a block tag opens: `<b>title</b><div>`, never `<b>title<div></b>`).
 K doc writers     see C12.
 E2b request args   the Spaces rule (arguments of requests, e.g. `.SS <group title>`) never copies a backslash (found and fixed 8661d4e: it did).
 G text arm        while text is rendered the only structural tag written is `<br>`.
 K splitter cuts / S front type   the splitter cuts at character boundaries (shared with C04); peek_front_ty looks through Or and past hidden members, so
                    a group whose first member is hidden still yields its commands' sections (shared with C12).
 S listing         render_manpage runs both append_meta calls and write_help_item_groups on every pass of the section loop; append_meta only ever appends
                   to the list of help items (GroupStart / GroupEnd stay paired; shared with C04).
 P raw pushes      token pairing also covers `self.tokens.push(Token::..)` inside Doc, with "every BlockEnd only after its BlockStart";
 S info            Item::Command carries a clone of the subparser's own Info (texts and configured help / version flags).
Does not decide: that the byte loop is a complete roff escaper for every input; markdown well-formedness."""
import re
from core import *
from dataflow import *
from cfgq import *
from absint import Walker, UNKNOWN, show, pkey
from parsers import *

LEVEL = 'other'
EXPLANATION = __doc__
ASSUMPTIONS = ['roff treats a line as a request only if it starts with `.` or `\'`; HTML text needs only < and > escaped outside attributes']
FLOORS = {'T.html-taint': 2, 'G.html-tags': 15, 'P.token-pairing': 15, 'E.roff-escaper': 6, 'U.unescaped': 12, 'S.sections': 10, 'C.capture': 4, 'K.cursor': 3, 'K.skip-pairing': 1}

def run(ctx):
    cfgs = ['doc', 'all'] if ctx.tier == 'quick' else ['doc', 'all', 'autocomplete,docgen', 'docgen,dull-color']
    ctx.preload(cfgs)
    for cfg in cfgs:
        fs = ctx.facts(cfg)
        ctx.guard(html_taint, ctx, cfg, fs)
        ctx.guard(html_tags, ctx, cfg, fs)
        ctx.guard(text_arm_tags, ctx, cfg, fs)
        ctx.guard(pairing, ctx, cfg, fs)
        ctx.guard(escaper, ctx, cfg, fs)
        ctx.guard(unescaped, ctx, cfg, fs)
        ctx.guard(capture_pairing, ctx, cfg, fs)
        ctx.guard(sections, ctx, cfg, fs)
        import c12 as c12_
        ctx.guard(c12_.walker_rules, ctx, cfg, fs, 'S.sections', {'peek_front_ty': c12_.WALKERS['peek_front_ty']})
        import docwalk
        ctx.guard(docwalk.cursor_advance, ctx, cfg, fs, 'K.cursor', r'render_html$|render_markdown$|render_roff$')
        ctx.guard(docwalk.payload_writers, ctx, cfg, fs, 'K.cursor')
        import c04 as c04_, c08 as c08_
        # GroupStart/GroupEnd (and the blocks they open and close in every renderer) stay paired because append_meta emits them in pairs and never takes one back
        ctx.guard(c08_.keep_only, ctx, lambda: c04_.group_flag(ctx, cfg, fs), lambda o: True, 'P.token-pairing')
        ctx.guard(c08_.keep_only, ctx, lambda: c04_.str_index(ctx, cfg, fs), lambda o: 'Splitter' in o.key, 'K.cursor')
        ctx.guard(c08_.keep_only, ctx, lambda: c04_.str_cut(ctx, cfg, fs), lambda o: 'Splitter' in o.key, 'K.cursor')
        ctx.guard(docwalk.style_reset_first, ctx, cfg, fs, 'H.html-tags', r'render_html$|render_markdown$', r'buffer::html::change_(to_markdown_)?style$')
        ctx.guard(docwalk.block_pairing, ctx, cfg, fs, 'K.skip-pairing', r'impl buffer::Doc>::render_html$', [('skip', r'buffer::Skip::push$', r'buffer::Skip::pop$')])

def out_string(b):
    for c in b.calls():
        if c.is_(r'^std::string::String::new$') and c.dest and not c.dest[1]:
            # the one that is returned
            for i, k, st in b.stmts():
                if st['k'] == 'assign' and st['lhs'] == [0, []] and st['rv']['k'] == 'use' and op_place(st['rv']['op']) and op_place(st['rv']['op'])[0] == c.dest[0]:
                    return c.dest[0]
    raise Broken('%s: output String not found' % b.path)

def html_taint(ctx, cfg, fs):
    b = ctx.look(fs.one(r'buffer::html::<impl buffer::Doc>::render_html$'))
    res = out_string(b)
    pushes = [c for c in b.calls() if c.is_(r'^std::string::String::(push_str|push|insert_str|insert)$') and
              all(r.kind == 'call' and r.call.dest == [res, []] for r in provenance(b, c.args[0], c.bb, 'term', through=None))]
    dyn = []
    for c in pushes:
        rs = provenance(b, c.args[1], c.bb, 'term', through=None)
        if all(r.kind == 'const' for r in rs):
            continue
        dyn.append(c)
    ok = len(dyn) == 1
    ctx.ob('T.html-taint', 'render_html:one-dynamic-push', ok, 'render_html appends non-constant text at %d site(s)' % len(dyn), where=b.where(), cfg=cfg)
    for c in dyn:
        # follow the chain of replace calls
        seen = []; cur = c.args[1]; bb = c.bb; good = False; src = None
        for _ in range(6):
            rs = provenance(b, cur, bb, 'term', through=[r'as std::ops::Deref>::deref$', r'String::as_str$'])
            if len(rs) != 1 or rs[0].kind != 'call':
                src = rs; break
            cc = rs[0].call
            if cc.is_(r'str::<impl str>::replace'):
                pat = [q.what for q in provenance(b, cc.args[1], cc.bb, 'term') if q.kind == 'const']
                rep = [q.what for q in provenance(b, cc.args[2], cc.bb, 'term') if q.kind == 'const']
                seen.append((pat[0] if pat else None, rep[0] if rep else None))
                cur = cc.args[0]; bb = cc.bb
                continue
            src = rs; break
        chunk = src is not None and len(src) >= 1 and all(r.kind == 'call' and r.call.is_(r'Splitter.*next$') for r in src)
        good = ('<', '&lt;') in seen and ('>', '&gt;') in seen and chunk
        ctx.ob('T.html-taint', 'render_html:escaped-chunk', good, 'the text appended is a splitter chunk passed through %s' % seen, where=c.where(), cfg=cfg)

STYLE_TAGS = {'b', 'i', 'tt'}

def tags_of(s, structural=False):
    ts = re.findall(r'<(/?)([a-zA-Z]+)', s)
    return [t for t in ts if not (structural and t[1] in STYLE_TAGS)]

def arm_consts(b, sw, variant, res_pushes):
    blocks = arm_blocks(b, sw, variant)
    out = []
    for c in res_pushes:
        if c.bb in blocks:
            for r in provenance(b, c.args[1], c.bb, 'term'):
                if r.kind == 'const' and isinstance(r.what, str):
                    out.append((c, r.what))
    return out

def text_arm_tags(ctx, cfg, fs):
    """block structure comes from the block tokens only: while TEXT is rendered (the Text arm of render_html) the only structural
    tag ever written is the void `<br>` - a paragraph break inside a help text must not close or open `<p>`, `<dd>`, `<div>` ..,
    because what is open at that moment is whatever block the text happens to sit in (an item body inside a list inside a block)"""
    b = ctx.look(fs.one(r'buffer::html::<impl buffer::Doc>::render_html$'))
    res = out_string(b)
    tsw = [s for s in switches(b) if s.kind == 'enum' and s.enum == 'buffer::Token' and len({s.target('Text'), s.target('BlockStart'), s.target('BlockEnd')}) == 3]
    nx = [c for c in b.calls() if c.is_(r'Iterator>?::next$') and 'buffer::Token' in c.full]
    if not tsw or not nx:
        raise Broken('render_html: token dispatch not found')
    region = reachable_edges(b, tsw[0].target('Text'), avoid=[nx[0].bb])
    locs, sinks = flows_to(b, res, through=None)
    bad = []; n = 0
    for (bb, k, kind, p) in sinks:
        if kind != 'call' or bb not in region:
            continue
        c = Call(b, bb, p)
        if not c.is_(r'^std::string::String::(push_str|push|insert_str)$'):
            continue
        for r in provenance(b, c.args[1], c.bb, 'term'):
            if r.kind == 'const' and isinstance(r.what, str):
                n += 1
                for (close, tag) in tags_of(r.what):
                    if tag.lower() != 'br':
                        bad.append('%s%s at %s' % ('/' if close else '', tag, b.where(bb)))
    ctx.ob('G.html-tags', 'render_html:text-arm-writes-no-block-tags', n > 0 and not bad, 'the Text arm of render_html writes %d constant(s), structural tags among them: %s' % (n, bad or 'only <br>'), where=b.where(tsw[0].target('Text')), cfg=cfg)

def html_tags(ctx, cfg, fs):
    b = ctx.look(fs.one(r'buffer::html::<impl buffer::Doc>::render_html$'))
    res = out_string(b)
    pushes = [c for c in b.calls() if c.is_(r'^std::string::String::push_str$') and all(r.kind == 'call' and r.call.dest == [res, []] for r in provenance(b, c.args[0], c.bb, 'term', through=None))]
    bsw = [s for s in switches(b) if s.kind == 'enum' and s.enum == 'buffer::Block']
    tsw = [s for s in switches(b) if s.kind == 'enum' and s.enum == 'buffer::Token']
    if len(bsw) < 2 or not tsw:
        raise Broken('render_html: Block switches not found')
    start_t = tsw[0].target('BlockStart'); end_t = tsw[0].target('BlockEnd')
    ssw = [s for s in bsw if only_via_edge(b, tsw[0].b, start_t, s.b)]
    esw = [s for s in bsw if only_via_edge(b, tsw[0].b, end_t, s.b)]
    if not ssw or not esw:
        raise Broken('render_html: start/end arms not found')
    ssw = ssw[0]; esw = esw[0]
    # The BlockStart / BlockEnd arms as a table: for every Block variant x what is on top of the stack (a definition
    # list, something else, nothing) the abstract walker yields the constant strings appended to the output.
    disc = {v['name']: v['discr'] for v in fs.adt('buffer::Block')['variants']}
    names = {d: n for n, d in disc.items()}
    tok_next = [c for c in b.calls() if c.is_(r'Iterator>?::next$') and 'buffer::Token' in c.full]
    if len(tok_next) != 1:
        raise Broken('render_html: token loop not found')
    def is_stack(op, bb):
        rs = provenance(b, op, bb, 'term', through=DEFAULT_THROUGH + [r'Vec::<.*>::as_slice$'])
        return bool(rs) and all(r.kind == 'call' and r.call.is_(r'Vec::<buffer::Block>::new$') for r in rs)
    def mk_model(top):
        def cm(w, c, store):
            if c.is_(r'slice::<impl \[.*\]>::last$') and is_stack(c.args[0], c.bb):
                if top is None:
                    return ('agg', 'std::option::Option', 'None', [])
                return ('agg', 'std::option::Option', 'Some', [('agg', 'buffer::Block', top, [])])
            if c.is_(r'Option<.*> as std::cmp::PartialEq>::eq$') and 'buffer::Block' in c.full:
                vals = []
                for a_ in c.args:
                    v = w.opval(a_, store)
                    if v is not UNKNOWN and v[0] == 'agg':
                        vals.append(v[3][0][2] if v[2] == 'Some' and v[3] and v[3][0] is not UNKNOWN else v[2])
                    else:
                        for r in provenance(b, a_, c.bb, 'term', through=None):
                            if r.kind == 'const' and isinstance(r.extra, dict) and r.extra.get('bytes') and len(r.extra['bytes']) == 1:
                                vals.append(names.get(r.extra['bytes'][0], 'None'))
                if len(vals) == 2:
                    return ('c', vals[0] == vals[1])
            return None
        cm.first = True
        return cm
    push_bbs = {c.bb for c in pushes}
    def arm_table(sw_, entry):
        tab = {}; disc_ok = True
        for V in disc:
            for top in ('DefinitionList', 'Block', None):
                w = Walker(b, call_model=mk_model(top), variant_of={pkey(sw_.place): V}, max_paths=300, max_visits=2)
                w.stop = {tok_next[0].bb}
                rows = set()
                for pth in w.run(entry, {}):
                    if pth.end != 'stop':
                        rows.add(('<%s>' % pth.end,)); continue
                    out = []; order = []
                    for (blk, c), vals in zip(pth.calls, pth.callvals):
                        if c.bb in push_bbs:
                            rs = provenance(b, c.args[1], c.bb, 'term')
                            txt = None
                            if len(vals) > 1 and vals[1] is not UNKNOWN and vals[1][0] == 'c' and isinstance(vals[1][1], str):
                                txt = vals[1][1]       # the value on this very path
                            elif rs and all(r.kind == 'const' and isinstance(r.what, str) for r in rs) and len({r.what for r in rs}) == 1:
                                txt = rs[0].what
                            if txt is not None:
                                out += ['%s%s' % ('/' if sl else '', n) for (sl, n) in tags_of(txt, structural=True) if n != 'br']
                            else:
                                out.append('<dyn>')
                        if c.is_(r'Vec::<buffer::Block>::(push|pop)$'): order.append(c.name.split('::')[-1])
                        if c.is_(r'slice::<impl \[.*\]>::last$') and is_stack(c.args[0], c.bb): order.append('last')
                    rows.add(tuple(out) + ('|' + ','.join(order),))
                tab[(V, top)] = rows
        return tab
    st_tab = arm_table(ssw, start_t); en_tab = arm_table(esw, end_t)
    for V in disc:
        ok = True; desc = []
        for top in ('DefinitionList', 'Block', None):
            so = st_tab[(V, top)]; eo = en_tab[(V, top)]
            opened = sorted(sorted(t for t in r[:-1]) for r in so if r[-1].startswith('|')); closed = sorted(sorted(t.lstrip('/') for t in r[:-1]) for r in eo if r[-1].startswith('|'))
            stray = [t for r in so for t in r[:-1] if t.startswith('/') or t == '<dyn>'] + [t for r in eo for t in r[:-1] if not t.startswith('/')]
            ok &= opened == closed and not stray and len(opened) <= 1
            desc.append('%s: opens %s closes %s' % (top or 'empty stack', opened, closed))
        some = any(len(r) > 1 for top in ('DefinitionList', 'Block', None) for r in st_tab[(V, top)])
        ctx.ob('G.html-tags', 'render_html:Block::%s' % V, ok, 'Block::%s, by what is on top of the stack -- %s' % (V, '; '.join(desc)), where=b.where(ssw.b), cfg=cfg, nontrivial=some)
    n_tagged = sum(1 for V in disc if any(len(r) > 1 for top in ('DefinitionList', 'Block', None) for r in st_tab[(V, top)]))
    if n_tagged < 5:
        raise Broken('render_html: only %d Block variants open a tag in the table (the walk lost the output pushes)' % n_tagged)
    # stack discipline that makes "same top of stack at opening and closing" true: BlockStart looks before it pushes
    # (exactly once), BlockEnd pops (exactly once) before it looks
    so = {r[-1] for rs in st_tab.values() for r in rs if r[-1].startswith('|')}; eo = {r[-1] for rs in en_tab.values() for r in rs if r[-1].startswith('|')}
    ok = so <= {'|push', '|last,push'} and eo <= {'|pop', '|pop,last'} and bool(so) and bool(eo)
    ctx.ob('G.html-tags', 'render_html:itembody-same-test', ok, 'BlockStart reads the top of the stack before its single push (%s); BlockEnd reads it after its single pop (%s): the dd/li choice sees the same enclosing block both times' % (sorted(so), sorted(eo)), where=b.where(), cfg=cfg)
    # change_style
    # the style-transition function: whichever function of the html module pushes both </tt> and <tt> (it may have been
    # renamed, turned into a method, or - being new to the audit - inlined into its callers, where its own body is kept aside)
    def pushes_tt(x):
        vals = {r.what for c in x.calls() if c.is_(r'^std::string::String::push_str$') for r in provenance(x, c.args[1], c.bb, 'term') if r.kind == 'const'}
        return '</tt>' in vals and '<tt>' in vals
    cands = [x for x in list(fs.inlined_bodies.values()) + list(fs.bodies.values()) if x.kind != 'closure' and re.search(r'buffer::html::', x.path) and not re.search(r'render_(html|markdown)$', x.path) and pushes_tt(x)]
    if len(cands) != 1:
        raise Broken('html: expected one style-transition function pushing </tt> and <tt>, found %s' % [x.path for x in cands])
    cs = ctx.look(cands[0])
    ps = [c for c in cs.calls() if c.is_(r'^std::string::String::push_str$')]
    import functools
    ps = sorted(ps, key=functools.cmp_to_key(lambda x, y: -1 if cs.reaches(x.bb, [y.bb]) and x.bb != y.bb else (1 if cs.reaches(y.bb, [x.bb]) and x.bb != y.bb else 0)))
    seq = []
    for c in ps:
        for r in provenance(cs, c.args[1], c.bb, 'term'):
            if r.kind == 'const': seq.append(r.what)
    closes = [s for s in seq if s.startswith('</')]; opens = [s for s in seq if not s.startswith('</')]
    ok = [s[2:-1] for s in closes] == list(reversed([s[1:-1] for s in opens])) and len(closes) == 3 and seq == closes + opens
    ctx.ob('G.html-tags', 'change_style:nesting-order', ok, 'change_style closes %s and then opens %s (reverse nesting order)' % (closes, opens), where=cs.where(), cfg=cfg)
    # each guarded by its own flag: closing tags by the flags of ONE parameter (the style in force), opening tags by the flags
    # of ANOTHER one (the style wanted), the flag named after the tag
    good = True; guards = {'close': set(), 'open': set()}
    for c in ps:
        tag = [r.what for r in provenance(cs, c.args[1], c.bb, 'term') if r.kind == 'const'][0]
        name = {'i': 'italic', 'b': 'bold', 'tt': 'mono'}[tag.strip('</>')]
        g = False
        for sw in switches(cs):
            if sw.kind == 'bool' and only_via_edge(cs, sw.b, sw.target(True), c.bb):
                for r in sw.roots:
                    if r.kind == 'param' and r.path[-1:] == [name]:
                        g = True; guards['close' if tag.startswith('</') else 'open'].add(r.what)
        good &= g
    good &= len(guards['close']) == 1 and len(guards['open']) == 1 and guards['close'] != guards['open']
    ctx.ob('G.html-tags', 'change_style:guards', good, 'every closing tag is guarded by the flag of the same name of the style in force (%s) and every opening tag by that of the style wanted (%s): %s' % (sorted(guards['close']), sorted(guards['open']), good), where=cs.where(), cfg=cfg)

    # stack discipline: for every pair (style in force, style wanted) - 8 x 8 flag combinations, walked abstractly with the flags of
    # both parameters known - the tags written are well nested against the tags the style in force left open (tt > b > i), and leave
    # exactly the tags of the style wanted open: a tag kept open across the transition is fine, closing an outer tag under an open inner one is not
    import itertools
    params = {cs.name_of(i): i for i in range(1, cs.arg_count + 1)}
    pc = [params.get(x) for x in sorted(guards['close'])]; po = [params.get(x) for x in sorted(guards['open'])]
    if good and len(pc) == 1 and len(po) == 1 and pc[0] and po[0]:
        order = ['tt', 'b', 'i']
        bad = []; n = 0
        for cf in itertools.product([False, True], repeat=3):
            for nf in itertools.product([False, True], repeat=3):
                store = {pc[0]: ('agg', 'buffer::html::Styles', None, [('c', x) for x in cf]), po[0]: ('agg', 'buffer::html::Styles', None, [('c', x) for x in nf])}
                w = Walker(cs, call_model=lambda w, c, st: ('callres', c.name, c.bb), max_paths=64, max_visits=1)
                for pth in w.run(store=store):
                    if pth.end != 'return':
                        continue
                    n += 1
                    stack = [t for t, f in zip(order, cf) if f]; fine = True
                    for (_, c) in pth.calls:
                        if not c.is_(r'^std::string::String::push_str$'): continue
                        tags = [r.what for r in provenance(cs, c.args[1], c.bb, 'term') if r.kind == 'const']
                        if len(tags) != 1: fine = False; break
                        t = tags[0]
                        if t.startswith('</'):
                            if not stack or stack[-1] != t[2:-1]: fine = False; break
                            stack.pop()
                        else:
                            stack.append(t[1:-1])
                    if fine and stack != [t for t, f in zip(order, nf) if f]: fine = False
                    if not fine: bad.append('%s->%s' % (''.join('mbi'[i] for i in range(3) if cf[i]) or '-', ''.join('mbi'[i] for i in range(3) if nf[i]) or '-'))
        if n < 64:
            raise Broken('change_style: abstract walk decided %d of 64 transitions' % n)
        ctx.ob('G.html-tags', 'change_style:stack-discipline', not bad, 'over %d walked transitions (flags of both styles known) the tags written are well nested against the open tags tt > b > i and leave the wanted style open; offending transitions: %s' % (n, sorted(set(bad)) or 'none'), where=cs.where(), cfg=cfg)

PAIR_EXCEPTIONS = {'meta_help::write_help_item': 'GroupStart opens Block+DefinitionList that GroupEnd closes; the arms are emitted in matched pairs by append_meta (G.group-flag in C04)'}

def block_tokens(b):
    out = []
    for c in b.calls():
        # buf.token(Token::..) and the raw form used inside Doc itself: self.tokens.push(Token::..)
        if c.is_(r'^buffer::Doc::token$') or (c.is_(r'Vec::<.*>::push$') and 'buffer::Token' in c.full):
            for r in provenance(b, c.args[1], c.bb, 'term', through=None):
                if r.kind == 'agg' and r.what in ('buffer::Token::BlockStart', 'buffer::Token::BlockEnd'):
                    for q in provenance(b, r.extra['fields'][0], r.site[0], r.site[1], through=None):
                        if q.kind == 'agg' and q.what.startswith('buffer::Block::'):
                            out.append((c, r.what.split('::')[-1], q.what.split('::')[-1]))
                        else:
                            out.append((c, r.what.split('::')[-1], 'dynamic'))
    return out

def pairing(ctx, cfg, fs):
    for b in sorted(fs.bodies.values(), key=lambda x: x.path):
        toks = block_tokens(b)
        if not toks:
            continue
        ctx.look(b)
        o = outer(b.path)
        starts = sorted(k for (c, se, k) in toks if se == 'BlockStart'); ends = sorted(k for (c, se, k) in toks if se == 'BlockEnd')
        if o in PAIR_EXCEPTIONS:
            ctx.ob('P.token-pairing', '%s:multiset' % short(o), starts == ends, '%s starts %s and ends %s over all arms (%s)' % (short(o), starts, ends, PAIR_EXCEPTIONS[o]), where=b.where(), cfg=cfg)
            continue
        ctx.ob('P.token-pairing', '%s:multiset' % short(b.path), starts == ends, '%s emits BlockStart for %s and BlockEnd for %s' % (short(b.path), starts, ends), where=b.where(), cfg=cfg)
        bad = []
        for (c, se, k) in toks:
            if se != 'BlockStart': continue
            closers = [x.bb for (x, se2, k2) in toks if se2 == 'BlockEnd' and k2 == k]
            reach = reachable_edges(b, c.target, avoid=closers) if c.target is not None else set()
            if any(r in reach for r in b.return_blocks()):
                bad.append(k)
        # ... and no BlockEnd without its BlockStart before it (a guard on the opener must cover the closer too)
        bad2 = []
        for (c, se, k) in toks:
            if se != 'BlockEnd': continue
            openers = [x.bb for (x, se2, k2) in toks if se2 == 'BlockStart' and k2 == k]
            if c.bb in reachable_edges(b, 0, avoid=openers) and c.bb not in openers:
                bad2.append(k)
        ctx.ob('P.token-pairing', '%s:opened-before-closed' % short(b.path), not bad2, '%s: every BlockEnd is reached only after its BlockStart: %s' % (short(b.path), bad2 or 'ok'), where=b.where(), cfg=cfg)
        ctx.ob('P.token-pairing', '%s:closed-on-all-paths' % short(b.path), not bad, '%s: every BlockStart is followed by its BlockEnd on every path to the return: %s' % (short(b.path), bad or 'ok'), where=b.where(), cfg=cfg)

def escaper(ctx, cfg, fs):
    """The byte loop of escape() as a transducer table: for every escaping rule x byte class x line-start flag the
    abstract walker (constants propagated, the unknown `ap` forked) yields the bytes appended for ONE input byte and
    the new value of the line-start flag.  The obligations are read off that table, so they do not depend on how
    the tests are spelled (==, matches!, match) or on the order of the arms."""
    b = ctx.look(fs.one(r'^buffer::manpage::escape::escape$'))
    enum = fs.adt('buffer::manpage::escape::Escape')
    disc = {v['name']: v['discr'] for v in enum['variants']}
    esw = [s_ for s_ in switches(b) if s_.kind == 'enum' and s_.enum and s_.enum.endswith('escape::Escape')]
    if not esw:
        raise Broken('escape::escape: no switch on Escape')
    sw = max(esw, key=lambda s_: len(set(s_.edges.values())))
    nx = [c for c in b.calls() if c.is_(r'Iterator>?::next$') and re.search(r'slice::Iter<.*u8>', c.full)]
    outer_nx = [c for c in b.calls() if c.is_(r'Iterator>?::next$') and c not in nx]
    if len(nx) != 1 or len(outer_nx) != 1:
        raise Broken('escape::escape: expected one loop over items and one over bytes, found %d/%d next() calls' % (len(outer_nx), len(nx)))
    def is_byte(op, bb, ix):
        rs = provenance(b, op, bb, ix, through=None)
        return bool(rs) and all(r.kind == 'call' and r.call.bb == nx[0].bb for r in rs)
    byte_locals = set()
    for l in range(len(b.locals)):
        if b.local_ty(l) == 'u8':
            ds = b.whole_defs(l)
            if ds and all(d[2] == 'assign' and d[3]['rv']['k'] == 'use' and is_byte(d[3]['rv']['op'], d[0], d[1]) for d in ds):
                byte_locals.add(l)
    als = set()
    for i, k, st in b.stmts():
        if st['k'] == 'assign' and not st['lhs'][1] and st['rv']['k'] == 'bin' and st['rv']['op'] == 'Eq' and b.local_ty(st['lhs'][0]) == 'bool' and st['lhs'][0] in b.local_names:
            ops = (st['rv']['a'], st['rv']['b'])
            if any((op_const(o) or {}).get('v') == 10 for o in ops) and any(is_byte(o, i, k) for o in ops if not op_const(o)):
                als.add(st['lhs'][0])
    if len(als) != 1 or not byte_locals:
        raise Broken('escape::escape: line-start flag (a bool recomputed as byte == 10) or the byte variable not identified: %s / %s' % (als, byte_locals))
    L = list(als)[0]
    rule_local = sw.place[0] if isinstance(sw.place, list) else None
    def mk_model(V):
        def cm(w, c, store):
            if c.is_(r'escape::Escape as std::cmp::PartialEq>::(eq|ne)$'):
                ks = []
                for a in c.args:
                    for r in provenance(b, a, c.bb, 'term', through=None):
                        if r.kind == 'const' and isinstance(r.extra, dict) and r.extra.get('bytes') and len(r.extra['bytes']) == 1:
                            ks.append(r.extra['bytes'][0])
                if len(ks) == 1 and V is not None:
                    return ('c', (disc[V] == ks[0]) != c.is_(r'::ne$'))
            return None
        cm.first = True
        return cm
    def tokens(path):
        out = []
        for (blk, c) in path.calls:
            if c.is_(r'Vec::<u8>::push$'):
                rs = provenance(b, c.args[1], c.bb, 'term', through=None)
                if rs and all(r.kind == 'const' for r in rs) and len({r.what for r in rs}) == 1:
                    out.append(rs[0].what)
                elif is_byte(c.args[1], c.bb, 'term'):
                    out.append('raw')
                else:
                    out.append('dyn')
            elif c.is_(r'Vec::<u8>::extend_from_slice$', r'Extend<.*>>::extend'):
                rs = provenance(b, c.args[1], c.bb, 'term', through=[r'str::<impl str>::as_bytes$', r'String::as_bytes$'])
                if len(rs) == 1 and rs[0].kind == 'const' and isinstance(rs[0].extra, dict) and rs[0].extra.get('bytes') is not None:
                    out += list(rs[0].extra['bytes'])
                elif len(rs) == 1 and rs[0].kind == 'const' and isinstance(rs[0].what, str):
                    out += list(rs[0].what.encode())
                else:
                    out.append('dyn')
            elif c.is_(r'Vec::<u8>::') and not c.is_(r'Vec::<u8>::(len|is_empty|capacity|as_slice)$'):
                out.append('dyn')
        return tuple(out)
    CLASSES = {32: 'space', 10: 'newline', 46: 'dot', 39: 'apostrophe', 92: 'backslash', 45: 'dash', 65: 'other', 0xC3: 'utf8 lead byte', 0xA0: 'utf8 continuation a0', 0x85: 'utf8 continuation 85'}
    table = {}
    for V in disc:
        for v in CLASSES:
            for flag in (True, False):
                w = Walker(b, call_model=mk_model(V), max_paths=400, max_visits=2)
                w.stop = {nx[0].bb}
                store = {l: ('c', v) for l in byte_locals}; store[L] = ('c', flag)
                paths = w.run(sw.target(V), store)
                rows = set()
                for pth in paths:
                    after = pth.store.get(L, UNKNOWN) if pth.end == 'stop' else ('end', pth.end)
                    rows.add((tokens(pth), show(after) if pth.end == 'stop' else 'leaves the loop: %s' % pth.end))
                table[(V, v, flag)] = rows
    def rows(V, v, flag=None):
        out = set()
        for f in ((True, False) if flag is None else (flag,)):
            out |= table[(V, v, f)]
        return out
    def fmt(rs):
        return sorted('%s -> line-start %s' % (''.join(chr(t) if isinstance(t, int) else '<%s>' % t for t in toks).replace('\n', '\\n'), a) for toks, a in rs)
    # E1: Unescaped rules copy the byte
    for V in ('Unescaped', 'UnescapedAtNewline'):
        ok = all({t for t, a in rows(V, v)} == {('raw',)} for v in CLASSES)
        ctx.ob('E.roff-escaper', 'escape:%s-verbatim' % V, ok, 'the %s rule appends exactly the byte itself for every byte class: %s' % (V, fmt(rows(V, 65))), where=b.where(), cfg=cfg)
    # E1b: the escaper works on bytes: the bytes of a multi-byte character (>= 0x80) are copied by every rule - treating 0xA0 / 0x85 as
    # the Latin-1 characters NBSP / NEL would replace half a character and the promised UTF-8 of the output would not hold
    hi = all({t for t, a in rows(V, v)} == {('raw',)} for V in disc for v in (0xC3, 0xA0, 0x85))
    ctx.ob('E.roff-escaper', 'escape:non-ascii-bytes-verbatim', hi, 'every rule copies the bytes of non-ASCII characters unchanged: %s' % hi, where=b.where(), cfg=cfg)
    # E2: Spaces
    ok = all({t for t, a in rows('Spaces', v)} == {(92, 32)} for v in (32, 10)) and all({t for t, a in rows('Spaces', v)} == {('raw',)} for v in CLASSES if v not in (32, 10, 92))
    ctx.ob('E.roff-escaper', 'escape:Spaces-replaces-space-and-newline', ok,
           "the Spaces rule appends `\\ ` for ' ' and '\\n' (never the byte itself) and the byte for ordinary bytes: space %s, newline %s, other %s" % (fmt(rows('Spaces', 32)), fmt(rows('Spaces', 10)), fmt(rows('Spaces', 65))), where=b.where(), cfg=cfg)
    # E2b: the arguments of a request are user text too (section titles of group_help end up in `.SS <title>`): a backslash in them must
    # not reach roff as the start of an escape.  Request arguments are read in copy mode, where `\\\\` collapses to one live backslash:
    # only a constant escape that does not copy the byte (`\\e`, `\\(rs`) is neutral.
    bs = rows('Spaces', 92)
    ok = bool(bs) and all('raw' not in t and 'dyn' not in t and len(t) >= 2 and t[0] == 92 and t[1] != 92 for t, a in bs)
    ctx.ob('E.roff-escaper', 'escape:Spaces-neutralises-backslash', ok,
           "the Spaces rule (arguments of requests: `.SS <group title>`) never copies a backslash: %s" % fmt(bs), where=b.where(), cfg=cfg)
    for V in ('Special', 'SpecialNoNewline'):
        # E3: control characters at the start of a line are defused first
        ok = all(all(t[:2] == (92, 38) for t, a in rows(V, v, True)) and bool(rows(V, v, True)) for v in (46, 39))
        ctx.ob('E.roff-escaper', 'escape:%s-line-start-guard' % V, ok,
               "the %s rule appends `\\&` before a '.' or '\'' that starts a line: dot %s, apostrophe %s" % (V, fmt(rows(V, 46, True)), fmt(rows(V, 39, True))), where=b.where(), cfg=cfg)
        # E4: backslash and dash are escaped
        good = True
        for v in (92, 45):
            for t, a in rows(V, v):
                good &= 'raw' in t and t.index('raw') > 0 and t[t.index('raw') - 1] == 92
        ctx.ob('E.roff-escaper', 'escape:%s-backslash-dash' % V, good, "the %s rule writes a backslash immediately before a '\\' or '-' byte: backslash %s, dash %s" % (V, fmt(rows(V, 92)), fmt(rows(V, 45))), where=b.where(), cfg=cfg)
    # E5: SpecialNoNewline turns a newline into a space and the line does not start afresh
    r5 = rows('SpecialNoNewline', 10)
    ok = bool(r5) and all('raw' not in t and 10 not in t and a == 'False' for t, a in r5)
    ctx.ob('E.roff-escaper', 'escape:SpecialNoNewline-strips-newline', ok, 'the SpecialNoNewline rule never appends a newline byte and leaves line-start false: %s' % fmt(r5), where=b.where(), cfg=cfg)
    # E6/E7: nothing dynamic, no byte dropped, line-start flag recomputed as byte == newline
    nodyn = True; nodrop = True; track = True; n = 0
    for (V, v, flag), rs in table.items():
        for t, a in rs:
            n += 1
            nodyn &= 'dyn' not in t
            nodrop &= len(t) > 0
            if not (V == 'SpecialNoNewline' and v == 10):
                track &= a == repr(v == 10)
    ctx.ob('E.roff-escaper', 'escape:table-closed', nodyn and nodrop, 'every row of the table (%d rule x byte-class x line-start x path combinations) appends only the byte itself or constant bytes, and appends something: %s' % (n, nodyn and nodrop), where=b.where(), cfg=cfg)
    ctx.ob('E.roff-escaper', 'escape:at_line_start-tracking', track, 'after each byte the line-start flag equals (byte == newline), on every row: %s' % track, where=b.where(), cfg=cfg)
    # E8: the flag starts true, and an UnescapedAtNewline fragment first moves to a fresh line
    init = [(i, k, st) for i, k, st in b.stmts() if st['k'] == 'assign' and st['lhs'] == [L, []] and b.dominates(i, outer_nx[0].bb) and not b.reaches(outer_nx[0].bb, [i])]
    init_true = len(init) == 1 and init[0][2]['rv']['k'] == 'use' and (op_const(init[0][2]['rv']['op']) or {}).get('v') is True
    osw = switch_on_call(b, outer_nx[0])
    good = osw is not None and osw.target('Some') is not None
    pre = {}
    if good:
        for V in disc:
            for flag in (True, False):
                w = Walker(b, call_model=mk_model(V), max_paths=200, max_visits=2)
                w.stop = {nx[0].bb}
                paths = w.run(osw.target('Some'), {L: ('c', flag)})
                pre[(V, flag)] = {(tokens(p_), show(p_.store.get(L, UNKNOWN)) if p_.end == 'stop' else p_.end) for p_ in paths}
        for (V, flag), rs in pre.items():
            want = {((10,), 'True')} if (V == 'UnescapedAtNewline' and not flag) else {((), repr(flag))}
            good &= rs == want
    ctx.ob('E.roff-escaper', 'escape:fresh-line-for-requests', init_true and good,
           'the line-start flag starts true (%s); before a fragment is copied, a newline is appended exactly when the rule is UnescapedAtNewline and the output is not at a line start, and the flag is then true: %s' % (
               init_true, {('%s,%s' % k): sorted(map(str, v)) for k, v in pre.items() if k[0] == 'UnescapedAtNewline'}), where=b.where(), cfg=cfg)

def nonliteral_callers(fs, b, pname, seen):
    """call sites of the Roff method `b` whose argument for parameter `pname` is not roff source written by bpaf"""
    if (b.path, pname) in seen:
        return []
    seen.add((b.path, pname))
    idx = [i for i in range(1, b.arg_count + 1) if b.name_of(i) == pname]
    if not idx:
        return ['%s has no parameter `%s`' % (short(b.path), pname)]
    idx = idx[0] - 1
    bad = []; n = 0
    for cal in sorted(fs.callers().get(b.path, ())):
        cb = fs.bodies.get(cal)
        if cb is None: continue
        for cc in cb.calls():
            if b.path not in cc.names:
                continue
            n += 1
            ar = provenance(cb, cc.args[idx], cc.bb, 'term')
            if not ar:
                bad.append('%s passes an untraceable value for `%s`' % (short(cal), pname))
            for q in ar:
                if q.kind == 'const' or (q.kind == 'call' and q.call.is_(r'roff::Font::escape$', r'Section.*as_str$')):
                    continue
                if q.kind == 'param' and outer(cb.path).startswith('buffer::manpage::roff::Roff::') and not q.path:
                    bad += nonliteral_callers(fs, cb, q.what, seen)
                    continue
                bad.append('%s passes %s:%s for `%s`' % (short(cal), q.kind, q.what if q.kind != 'call' else short(q.call.name), pname))
    if n == 0 and not b.path.startswith('buffer::manpage::roff::Roff::'):
        bad.append('%s: no call sites found' % short(b.path))
    return bad

def unescaped(ctx, cfg, fs):
    # every FreeMonoid::push_str(Escape::X, text) call in the crate
    sites = []
    for b in fs.bodies.values():
        for c in b.calls():
            if c.is_(r'monoid::FreeMonoid::<.*>::push_str$', r'FreeMonoid<T>>::push_str$', r'FreeMonoid.*push_str$'):
                esc = set()
                for r in provenance(b, c.args[1], c.bb, 'term', through=None):
                    if r.kind == 'agg' and 'Escape' in r.what:
                        esc.add(r.what.split('::')[-1])
                    else:
                        esc.add('dynamic:%s' % r.kind)
                sites.append((b, c, esc))
    if len(sites) < 8:
        raise Broken('only %d roff payload push sites found' % len(sites))
    callers = fs.callers()
    plumbing = [x for x in sites if outer(x[0].path).startswith('<buffer::manpage::monoid::FreeMonoid')]
    for (pb, pc, pesc) in plumbing:
        users = sorted(u for u in callers.get(pb.path, ()) if 'manpage::monoid' not in u)
        ctx.ob('U.unescaped', '%s:plumbing-unused-outside' % short(pb.path), not users, 'the label-agnostic helper %s is not used outside the monoid module: %s' % (short(pb.path), users or 'no users'), where=pb.where(), cfg=cfg)
    sites = [x for x in sites if x not in plumbing]
    for (b, c, esc) in sites:
        txt = provenance(b, c.args[2], c.bb, 'term')
        if esc <= {'Special', 'SpecialNoNewline', 'Spaces'}:
            ctx.ob('U.unescaped', '%s:%s' % (short(b.path), '+'.join(sorted(esc))), True, '%s pushes text under %s (escaped)' % (short(b.path), sorted(esc)), where=c.where(), cfg=cfg, nontrivial=False)
            continue
        ok = True; why = []
        for r in txt:
            if r.kind == 'const':
                why.append('constant %r' % (r.what,))
            elif r.kind == 'param' and outer(b.path).startswith('buffer::manpage::roff::Roff::'):
                # interprocedural: every call site of this Roff method passes a constant (or, from another Roff
                # method, a parameter that is itself constant at all of ITS call sites) for that parameter
                bad = nonliteral_callers(fs, b, r.what, set())
                if bad:
                    ok = False; why += bad
                else:
                    why.append('parameter `%s`, constant at every call site' % r.what)
            else:
                ok = False; why.append('%s:%s' % (r.kind, r.what if r.kind != 'call' else short(r.call.name)))
        ctx.ob('U.unescaped', '%s:%s' % (short(b.path), '+'.join(sorted(esc))), ok, '%s pushes unescaped roff source: %s' % (short(b.path), why), where=c.where(), cfg=cfg)
    # Font::escape returns constants
    fe = fs.one(r'roff::Font::escape$')
    vals = [st['rv'] for i, k, st in fe.stmts() if st['k'] == 'assign' and st['lhs'] == [0, []]]
    ctx.ob('U.unescaped', 'Font::escape:constants', bool(vals) and all(v['k'] == 'use' and v['op'][0] == 'c' for v in vals), 'Font::escape returns only constant font switches', where=fe.where(), cfg=cfg)

def capture_pairing(ctx, cfg, fs):
    """render_roff diverts the text of headers into a capture buffer (flag set at BlockStart) and turns it into the
    argument of .SH/.SS at BlockEnd.  While the flag is set ALL text is diverted, so every block kind that sets it
    must clear it again on EVERY path of its BlockEnd arm, and flush the buffer there; otherwise item names and
    help text that follow vanish from the page and surface later inside a request argument."""
    b = ctx.look(fs.one(r'buffer::manpage::<impl buffer::Doc>::render_roff$'))
    bsw = [s_ for s_ in switches(b) if s_.kind == 'enum' and s_.enum == 'buffer::Block']
    tsw = [s_ for s_ in switches(b) if s_.kind == 'enum' and s_.enum == 'buffer::Token']
    nx = [c for c in b.calls() if c.is_(r'Iterator>?::next$') and 'buffer::Token' in c.full]
    if len(bsw) < 2 or not tsw or len(nx) != 1:
        raise Broken('render_roff: token loop / Block switches not found')
    start_t = tsw[0].target('BlockStart'); end_t = tsw[0].target('BlockEnd')
    ssw = [s_ for s_ in bsw if only_via_edge(b, tsw[0].b, start_t, s_.b)]; esw = [s_ for s_ in bsw if only_via_edge(b, tsw[0].b, end_t, s_.b)]
    if not ssw or not esw:
        raise Broken('render_roff: start/end arms not found')
    # bool locals that are set to a constant inside the token loop and read by the Text arm: candidates for the flag
    loop_blocks = reachable_edges(b, nx[0].target) if nx[0].target is not None else set()
    flag_locals = set()
    for i, k, st in b.stmts():
        if i in loop_blocks and st['k'] == 'assign' and not st['lhs'][1] and st['lhs'][0] in b.local_names and b.local_ty(st['lhs'][0]) == 'bool' \
                and st['rv']['k'] == 'use' and isinstance((op_const(st['rv']['op']) or {}).get('v'), bool):
            l = st['lhs'][0]
            # declared outside the loop (its first definition dominates the loop header)
            if any(d[0] not in loop_blocks for d in b.whole_defs(l)):
                flag_locals.add(l)
    def table(sw_, entry):
        tab = {}
        for V in fs.variants('buffer::Block'):
            w = Walker(b, variant_of={pkey(sw_.place): V}, max_paths=300); w.stop = {nx[0].bb}
            rows = []
            for pth in w.run(entry, {}):
                if pth.end != 'stop':
                    continue
                # the capture flag is a bool that lives across tokens: a field of a local or a bool local of its own
                ev = [(blk, pl, v) for (blk, pl, v) in pth.writes if v is not UNKNOWN and v[0] == 'c' and isinstance(v[1], bool)]
                ev += [(blk, b.name_of(l), v) for (blk, l, v) in pth.assigns if v is not UNKNOWN and v[0] == 'c' and isinstance(v[1], bool) and b.local_ty(l) == 'bool' and l in flag_locals]
                ev.sort(key=lambda e: pth.blocks.index(e[0]) if e[0] in pth.blocks else 0)
                flag = [v for (_, pl, v) in ev]
                places = {pl for (_, pl, v) in ev}
                rows.append((flag[-1][1] if flag else None, tuple(sorted(places)), tuple(c.name.split('::')[-1] for (_, c) in pth.calls if c.is_(r'roff::Roff::control$', r'String::clear$'))))
            tab[V] = rows
        return tab
    st = table(ssw[0], start_t); en = table(esw[0], end_t)
    openers = sorted(V for V, rows in st.items() if any(r[0] is True for r in rows))
    if not openers:
        raise Broken('render_roff: no block kind turns the capture flag on')
    for V in openers:
        rows = en[V]
        ok = bool(rows) and all(r[0] is False and 'control' in r[2] and 'clear' in r[2] for r in rows) and all(r[0] is True for r in st[V])
        ctx.ob('C.capture', 'render_roff:Block::%s' % V, ok,
               'Block::%s turns text capture on at its start (%s); its end turns it off, writes the request and empties the buffer on every path: %s' % (
                   V, sorted({r[0] for r in st[V]}), sorted({(r[0], r[2]) for r in rows}, key=str)), where=b.where(esw[0].b), cfg=cfg)
    others = sorted(V for V in st if V not in openers and any(r[0] is not None for r in en[V] + st[V]))
    ctx.ob('C.capture', 'render_roff:only-headers-capture', not others, 'no other block kind touches the capture flag: %s' % (others or 'none'), where=b.where(), cfg=cfg)

def sections(ctx, cfg, fs):
    b = ctx.look(fs.one(r'^buffer::extract_sections$'))
    am = [c for c in b.calls() if c.is_(r'append_meta$')]
    rec = [c for c in b.calls() if c.names and c.names[0] == b.path]
    push = [c for c in b.calls() if c.is_(r'Vec::<buffer::DocSection<.*>>::push$', r'Vec::<.*DocSection.*>::push$')]
    ok = len(am) == 1 and len(rec) == 1 and len(push) == 1
    ctx.ob('S.sections', 'extract_sections:anchors', ok, 'extract_sections: %d append_meta, %d recursive call, %d section push' % (len(am), len(rec), len(push)), where=b.where(), cfg=cfg)
    if not ok: return
    ctx.ob('S.sections', 'extract_sections:records-own-level', all(b.dominates(push[0].bb, r) for r in b.return_blocks()) and not b.reaches(rec[0].bb, [push[0].bb]), 'the level itself is recorded unconditionally, before descending', where=push[0].where(), cfg=cfg)
    # the loop iterates hi.items directly
    nx = [c for c in b.calls() if c.is_(r'Iterator>?::next$') and rec[0].bb in reachable_edges(b, c.target or 0)]
    direct = False; via = []
    for c in nx:
        rs = provenance(b, c.args[0], c.bb, 'term', through=DEFAULT_THROUGH + [r'IntoIterator>?::into_iter$', r'slice::<impl \[T\]>::iter$'])
        for r in rs:
            if r.kind == 'call' and r.call.is_(r'HelpItems.*default$', r'Default>::default$') and r.path[:1] == ['items']:
                direct = True
            elif r.kind == 'call':
                via.append(short(r.call.name))
    ctx.ob('S.sections', 'extract_sections:walks-all-items', direct and not via, 'extract_sections iterates the raw item list built by append_meta (no filtered/grouped view: %s)' % (via or 'direct'), where=b.where(), cfg=cfg)
    # recursion only under HelpItem::Command, with that command's meta / info
    hsw = [s for s in switches(b) if s.kind == 'enum' and s.enum == 'meta_help::HelpItem']
    ok = bool(hsw) and only_via_edge(b, hsw[0].b, hsw[0].target('Command'), rec[0].bb)
    if ok:
        m = provenance(b, rec[0].args[0], rec[0].bb, 'term'); inf = provenance(b, rec[0].args[1], rec[0].bb, 'term')
        ok = all('meta' in r.path and 'as Command' in r.path for r in m) and all('info' in r.path and 'as Command' in r.path for r in inf) and bool(m) and bool(inf)
    ctx.ob('S.sections', 'extract_sections:recurses-into-every-command', ok, 'every HelpItem::Command of the level is descended into with its own meta and info: %s' % ok, where=rec[0].where(), cfg=cfg)
    # no other condition guards the recursion
    tcd = b.transitive_control_deps(rec[0].bb)
    other = []
    for (a, s_) in tcd:
        sw = Switch(b, a)
        if sw.kind == 'enum' and sw.enum in ('meta_help::HelpItem',): continue
        if sw.kind == 'enum' and sw.enum and 'Option' in sw.enum and any(r.kind == 'call' and r.call.is_(r'Iterator>?::next$') for r in provenance(b, sw.place, sw.discr_site[0], sw.discr_site[1], through=None)): continue
        other.append(b.where(a))
    ctx.ob('S.sections', 'extract_sections:no-extra-filter', not other, 'nothing but "is a command" decides whether a level is documented: %s' % (other or 'ok'), where=b.where(), cfg=cfg)
    # what the generators know about a subcommand is the copy of its Info kept in Item::Command: it is the subparser's OWN Info, cloned
    # whole (texts AND the configured help / version flags), not a selection of fields over defaults
    ci = fs.find(r'^params::ParseCommand::<T>::item$', required=False)
    if ci:
        x = ctx.look(ci[0])
        srcs = []
        for i, k, st in x.stmts():
            if st['k'] == 'assign' and st['rv']['k'] == 'agg' and st['rv'].get('variant') == 'Command' and 'info' in (st['rv'].get('field_names') or []):
                names = st['rv']['field_names']
                for r in provenance(x, st['rv']['fields'][names.index('info')], i, k, through=DEFAULT_THROUGH + [r'Box::<.*>::new$']):
                    if r.kind == 'param' and r.path[-2:] == ['subparser', 'info']:
                        srcs.append('clone of self.subparser.info')
                    else:
                        srcs.append('%s:%s' % (r.kind, r.what if r.kind != 'call' else short(r.call.name)))
        ctx.ob('S.sections', 'Item::Command:info-is-the-subparsers-own', bool(srcs) and all(s_ == 'clone of self.subparser.info' for s_ in srcs),
               'the Info recorded for a subcommand is %s' % sorted(set(srcs)), where=x.where(), cfg=cfg)
    for rx, nm in ((r'^buffer::html::collect_html$', 'collect_html'), (r'OptionParser<T>>::render_manpage$', 'render_manpage')):
        x = ctx.look(fs.one(rx))
        es = [c for c in x.calls() if c.is_(r'^buffer::extract_sections$')]
        pipe = [c for c in x.calls() if c.is_(r'^meta_help::render_help$', r'write_help_item_groups$')]
        am2 = [c for c in x.calls() if c.is_(r'append_meta$')]
        ok = len(es) == 1 and bool(pipe) and (nm == 'collect_html' or len(am2) == 2)
        ctx.ob('S.sections', '%s:pipeline' % nm, ok, '%s documents the sections found by extract_sections with the --help pipeline (%s)' % (nm, sorted({short(c.name) for c in pipe + am2})), where=x.where(), cfg=cfg)
        if nm == 'render_manpage':
            # ... each of them with its item listing: whether the --help pipeline runs for a section depends on nothing but "there is a
            # next section" (a level without items of its own still has -h/--help and -V/--version to list)
            wg = [c for c in x.calls() if c.is_(r'write_help_item_groups$')]
            heads = [c for c in x.calls() if c.is_(r'Iterator>?::next$') and 'DocSection' in c.full and wg and x.dominates(c.bb, wg[0].bb)]
            skip = []
            for h in heads[-1:]:
                sw = switch_on_call(x, h)
                body_ = sw.target('Some') if sw is not None else None
                for c in wg + am2:
                    if body_ is None or h.bb in reachable_edges(x, body_, avoid=[c.bb]):
                        skip.append('%s can be skipped (%s)' % (short(c.name), x.where(c.bb)))
            ctx.ob('S.sections', '%s:listing-for-every-section' % nm, bool(wg) and bool(heads) and not skip, '%s lists the items of every section, its help/version flags included: %s' % (nm, sorted(set(skip)) or 'every pass of the section loop reaches both append_meta calls and write_help_item_groups'), where=x.where(), cfg=cfg)
        # every section found is documented: nothing removes, filters or de-duplicates the list of sections
        fam = fs.family(x)
        shrink = sorted({re.sub(r'::<.*$', '', c.name.split('>::')[-1]) for y in fam for c in y.calls() if 'DocSection' in c.full and c.is_(r'Vec::<.*>::(retain|retain_mut|dedup\w*|truncate|remove|swap_remove|drain|pop|clear|split_off)\b')})
        filt = []
        for y in fam:
            for c in y.calls():
                if c.is_(r'Iterator>?::(filter|filter_map|skip|skip_while|take|take_while|step_by)$') and 'DocSection' in c.full:
                    filt.append(c.name.split('::')[-1])
        ctx.ob('S.sections', '%s:every-section-kept' % nm, not shrink and not filt, '%s keeps every section extract_sections found (shrinking calls: %s, filtering adaptors: %s)' % (nm, shrink or 'none', filt or 'none'), where=x.where(), cfg=cfg)
        # each section is rendered with ITS OWN help/version flags (section.info), not those of the top level
        hm = []
        for y in fam:
            for c in y.calls():
                if c.is_(r'info::Info as Parser.*::meta$', r'^info::Info::meta$'):
                    rs = provenance(y, c.args[0], c.bb, 'term', through=DEFAULT_THROUGH + [r'Iterator>?::next$', r'slice::<impl \[T\]>::iter$', r'IntoIterator>?::into_iter$'])
                    hm.append(sorted({'section' if any('info' == p_ for p_ in r.path) and not (r.kind == 'param' and r.what == 'self') else ('self' if (r.kind in ('param', 'upvar') and r.what == 'self') else '%s:%s' % (r.kind, r.what)) for r in rs}))
        if nm == 'render_manpage':
            ok_h = bool(hm) and all(h == ['section'] for h in hm)
            ctx.ob('S.sections', '%s:own-help-flags' % nm, ok_h, '%s takes the help/version flags shown with a section from %s (must be the section\'s own Info)' % (nm, hm), where=x.where(), cfg=cfg)
