"""C16 - generated documentation is complete and well-formed (structural clauses; docgen builds).

Decides:
 T html taint       the only non-constant text Doc::render_html appends is a splitter chunk that went through BOTH
                    replace('<', "&lt;") and replace('>', "&gt;").
 G html tags        per Block variant, the tags opened by the BlockStart arm are the tags closed by the BlockEnd arm (the
                    ItemBody dd/li choice tests the same stack slot on both sides); change_style closes i, b, tt and opens
                    tt, b, i (reverse nesting), each guarded by its own flag.
 P token pairing    every function that emits BlockStart(b) emits BlockEnd(b) on every path to its return (listed exception:
                    the GroupStart / GroupEnd and AnywhereStart / AnywhereStop arm pairs of write_help_item, whose effects are
                    complementary); per function the multisets of started and ended blocks agree.
 E roff escaper     escape::escape: the Spaces rule replaces both ' ' and '\\n' (a control-line argument can never start a new
                    line); in the Special rules the test `at_line_start and c in {'.', '\\''}` writes `\\&` before the byte is
                    written; at_line_start starts true and is recomputed from c == '\\n' after every byte.
 U unescaped census every Escape::Unescaped / UnescapedAtNewline payload is a constant, or a `name` / `arg` parameter of
                    Roff::control* / Roff::escape whose every call site passes constants (interprocedural); text of the
                    document reaches the roff monoid only through plaintext (Special*) or control arguments (Spaces).
 S sections         extract_sections records the level itself, walks the item list produced by append_meta directly (every
                    HelpItem::Command, no type-filtered view) and recurses with the command's own meta/info;
                    collect_html and render_manpage both build their documents from extract_sections + the --help pipeline.
Does not decide: that the byte loop is a complete roff escaper for every input; markdown well-formedness."""
import re
from core import *
from dataflow import *
from cfgq import *
from parsers import *

LEVEL = 'other'
EXPLANATION = __doc__
ASSUMPTIONS = ['roff treats a line as a request only if it starts with `.` or `\'`; HTML text needs only < and > escaped outside attributes']
FLOORS = {'T.html-taint': 2, 'G.html-tags': 14, 'P.token-pairing': 15, 'E.roff-escaper': 6, 'U.unescaped': 12, 'S.sections': 7}

def run(ctx):
    cfgs = ['doc', 'all'] if ctx.tier == 'quick' else ['doc', 'all', 'autocomplete,docgen', 'docgen,dull-color']
    ctx.preload(cfgs)
    for cfg in cfgs:
        fs = ctx.facts(cfg)
        html_taint(ctx, cfg, fs)
        html_tags(ctx, cfg, fs)
        pairing(ctx, cfg, fs)
        escaper(ctx, cfg, fs)
        unescaped(ctx, cfg, fs)
        sections(ctx, cfg, fs)

def out_string(b):
    for c in b.calls():
        if c.is_(r'^std::string::String::new$') and c.dest and not c.dest[1]:
            # the one that is returned
            for i, k, st in b.stmts():
                if st['k'] == 'assign' and st['lhs'] == [0, []] and st['rv']['k'] == 'use' and op_place(st['rv']['op']) and op_place(st['rv']['op'])[0] == c.dest[0]:
                    return c.dest[0]
    raise Broken('%s: output String not found' % b.path)

def html_taint(ctx, cfg, fs):
    b = ctx.look(fs.one(r'buffer::html::<impl buffer::Doc>::render_html$'))
    res = out_string(b)
    pushes = [c for c in b.calls() if c.is_(r'^std::string::String::(push_str|push|insert_str|insert)$') and
              all(r.kind == 'call' and r.call.dest == [res, []] for r in provenance(b, c.args[0], c.bb, 'term', through=None))]
    dyn = []
    for c in pushes:
        rs = provenance(b, c.args[1], c.bb, 'term', through=None)
        if all(r.kind == 'const' for r in rs):
            continue
        dyn.append(c)
    ok = len(dyn) == 1
    ctx.ob('T.html-taint', 'render_html:one-dynamic-push', ok, 'render_html appends non-constant text at %d site(s)' % len(dyn), where=b.where(), cfg=cfg)
    for c in dyn:
        # follow the chain of replace calls
        seen = []; cur = c.args[1]; bb = c.bb; good = False; src = None
        for _ in range(6):
            rs = provenance(b, cur, bb, 'term', through=[r'as std::ops::Deref>::deref$', r'String::as_str$'])
            if len(rs) != 1 or rs[0].kind != 'call':
                src = rs; break
            cc = rs[0].call
            if cc.is_(r'str::<impl str>::replace'):
                pat = [q.what for q in provenance(b, cc.args[1], cc.bb, 'term') if q.kind == 'const']
                rep = [q.what for q in provenance(b, cc.args[2], cc.bb, 'term') if q.kind == 'const']
                seen.append((pat[0] if pat else None, rep[0] if rep else None))
                cur = cc.args[0]; bb = cc.bb
                continue
            src = rs; break
        chunk = src is not None and len(src) >= 1 and all(r.kind == 'call' and r.call.is_(r'Splitter.*next$') for r in src)
        good = ('<', '&lt;') in seen and ('>', '&gt;') in seen and chunk
        ctx.ob('T.html-taint', 'render_html:escaped-chunk', good, 'the text appended is a splitter chunk passed through %s' % seen, where=c.where(), cfg=cfg)

def tags_of(s):
    return re.findall(r'<(/?)([a-zA-Z]+)', s)

def arm_consts(b, sw, variant, res_pushes):
    blocks = arm_blocks(b, sw, variant)
    out = []
    for c in res_pushes:
        if c.bb in blocks:
            for r in provenance(b, c.args[1], c.bb, 'term'):
                if r.kind == 'const' and isinstance(r.what, str):
                    out.append((c, r.what))
    return out

def html_tags(ctx, cfg, fs):
    b = ctx.look(fs.one(r'buffer::html::<impl buffer::Doc>::render_html$'))
    res = out_string(b)
    pushes = [c for c in b.calls() if c.is_(r'^std::string::String::push_str$') and all(r.kind == 'call' and r.call.dest == [res, []] for r in provenance(b, c.args[0], c.bb, 'term', through=None))]
    bsw = [s for s in switches(b) if s.kind == 'enum' and s.enum == 'buffer::Block']
    tsw = [s for s in switches(b) if s.kind == 'enum' and s.enum == 'buffer::Token']
    if len(bsw) < 2 or not tsw:
        raise Broken('render_html: Block switches not found')
    start_t = tsw[0].target('BlockStart'); end_t = tsw[0].target('BlockEnd')
    ssw = [s for s in bsw if only_via_edge(b, tsw[0].b, start_t, s.b)]
    esw = [s for s in bsw if only_via_edge(b, tsw[0].b, end_t, s.b)]
    if not ssw or not esw:
        raise Broken('render_html: start/end arms not found')
    ssw = ssw[0]; esw = esw[0]
    for v in fs.variants('buffer::Block'):
        so = [tg for (c, s) in arm_consts(b, ssw, v, pushes) for tg in tags_of(s)]
        eo = [tg for (c, s) in arm_consts(b, esw, v, pushes) for tg in tags_of(s)]
        opened = sorted(n for (sl, n) in so if not sl and n != 'br'); closed = sorted(n for (sl, n) in eo if sl)
        stray = [n for (sl, n) in so if sl] + [n for (sl, n) in eo if not sl and n != 'br']
        ok = opened == closed and not stray
        ctx.ob('G.html-tags', 'render_html:Block::%s' % v, ok, 'Block::%s opens %s and closes %s%s' % (v, opened, closed, '' if not stray else ' (stray: %s)' % stray), where=b.where(ssw.b), cfg=cfg, nontrivial=bool(opened))
    # dd/li choice: both sides test stack.last() against Some(DefinitionList)
    tests = []
    for c in b.calls():
        if c.is_(r'Option<buffer::Block> as std::cmp::PartialEq>::eq$', r'Option<T> as std::cmp::PartialEq>::eq$') and 'buffer::Block' in c.full:
            a = [provenance(b, x, c.bb, 'term', through=[r'Option::<.*>::copied$', r'as std::ops::Deref>::deref$']) for x in c.args]
            flat = [q for rs in a for q in rs]
            last = any(q.kind == 'call' and q.call.is_(r'slice::<impl \[T\]>::last$') for q in flat)
            consts = tuple(sorted(repr(q.extra.get('bytes', q.what)) for q in flat if q.kind == 'const'))
            if last and consts:
                tests.append((c.bb, consts))
    same_const = len({cst for (_, cst) in tests}) == 1
    tests = [t for (t, _) in tests] if same_const else []
    in_start = [t for t in tests if t in arm_blocks(b, ssw, 'ItemBody')]; in_end = [t for t in tests if t in arm_blocks(b, esw, 'ItemBody')]
    ctx.ob('G.html-tags', 'render_html:itembody-same-test', len(in_start) == 1 and len(in_end) == 1, 'the dd/li choice compares stack.last() with the same constant when opening (%d) and when closing (%d)' % (len(in_start), len(in_end)), where=b.where(), cfg=cfg)
    # change_style
    cs = ctx.look(fs.one(r'^buffer::html::change_style$'))
    ps = [c for c in cs.calls() if c.is_(r'^std::string::String::push_str$')]
    import functools
    ps = sorted(ps, key=functools.cmp_to_key(lambda x, y: -1 if cs.reaches(x.bb, [y.bb]) and x.bb != y.bb else (1 if cs.reaches(y.bb, [x.bb]) and x.bb != y.bb else 0)))
    seq = []
    for c in ps:
        for r in provenance(cs, c.args[1], c.bb, 'term'):
            if r.kind == 'const': seq.append(r.what)
    closes = [s for s in seq if s.startswith('</')]; opens = [s for s in seq if not s.startswith('</')]
    ok = [s[2:-1] for s in closes] == list(reversed([s[1:-1] for s in opens])) and len(closes) == 3 and seq == closes + opens
    ctx.ob('G.html-tags', 'change_style:nesting-order', ok, 'change_style closes %s and then opens %s (reverse nesting order)' % (closes, opens), where=cs.where(), cfg=cfg)
    # each guarded by its own flag
    good = True
    for c in ps:
        tag = [r.what for r in provenance(cs, c.args[1], c.bb, 'term') if r.kind == 'const'][0]
        name = {'i': 'italic', 'b': 'bold', 'tt': 'mono'}[tag.strip('</>')]
        who = 'cur' if tag.startswith('</') else 'new'
        g = False
        for sw in switches(cs):
            if sw.kind == 'bool' and only_via_edge(cs, sw.b, sw.target(True), c.bb):
                if any(r.kind == 'param' and r.what == who and r.path[-1:] == [name] for r in sw.roots):
                    g = True
        good &= g
    ctx.ob('G.html-tags', 'change_style:guards', good, 'every closing tag is guarded by the current style flag and every opening tag by the new style flag of the same name: %s' % good, where=cs.where(), cfg=cfg)

PAIR_EXCEPTIONS = {'meta_help::write_help_item': 'GroupStart opens Block+DefinitionList that GroupEnd closes; the arms are emitted in matched pairs by append_meta (G.group-flag in C04)'}

def block_tokens(b):
    out = []
    for c in b.calls():
        if c.is_(r'^buffer::Doc::token$'):
            for r in provenance(b, c.args[1], c.bb, 'term', through=None):
                if r.kind == 'agg' and r.what in ('buffer::Token::BlockStart', 'buffer::Token::BlockEnd'):
                    for q in provenance(b, r.extra['fields'][0], r.site[0], r.site[1], through=None):
                        if q.kind == 'agg' and q.what.startswith('buffer::Block::'):
                            out.append((c, r.what.split('::')[-1], q.what.split('::')[-1]))
                        else:
                            out.append((c, r.what.split('::')[-1], 'dynamic'))
    return out

def pairing(ctx, cfg, fs):
    for b in sorted(fs.bodies.values(), key=lambda x: x.path):
        toks = block_tokens(b)
        if not toks:
            continue
        ctx.look(b)
        o = outer(b.path)
        starts = sorted(k for (c, se, k) in toks if se == 'BlockStart'); ends = sorted(k for (c, se, k) in toks if se == 'BlockEnd')
        if o in PAIR_EXCEPTIONS:
            ctx.ob('P.token-pairing', '%s:multiset' % short(o), starts == ends, '%s starts %s and ends %s over all arms (%s)' % (short(o), starts, ends, PAIR_EXCEPTIONS[o]), where=b.where(), cfg=cfg)
            continue
        ctx.ob('P.token-pairing', '%s:multiset' % short(b.path), starts == ends, '%s emits BlockStart for %s and BlockEnd for %s' % (short(b.path), starts, ends), where=b.where(), cfg=cfg)
        bad = []
        for (c, se, k) in toks:
            if se != 'BlockStart': continue
            closers = [x.bb for (x, se2, k2) in toks if se2 == 'BlockEnd' and k2 == k]
            reach = reachable_edges(b, c.target, avoid=closers) if c.target is not None else set()
            if any(r in reach for r in b.return_blocks()):
                bad.append(k)
        ctx.ob('P.token-pairing', '%s:closed-on-all-paths' % short(b.path), not bad, '%s: every BlockStart is followed by its BlockEnd on every path to the return: %s' % (short(b.path), bad or 'ok'), where=b.where(), cfg=cfg)

def escaper(ctx, cfg, fs):
    b = ctx.look(fs.one(r'^buffer::manpage::escape::escape$'))
    esw = [s for s in switches(b) if s.kind == 'enum' and s.enum and s.enum.endswith('escape::Escape')]
    if not esw:
        raise Broken('escape::escape: no switch on Escape')
    # the switch inside the byte loop: the one with most distinct targets
    sw = max(esw, key=lambda s: len(set(s.edges.values())))
    def arm(v):
        return arm_blocks(b, sw, v)
    def byte_tests(blocks):
        out = {}
        for x in blocks:
            t = b.term(x)
            if t['k'] == 'switch':
                s_ = Switch(b, x)
                for r in s_.roots:
                    if r.kind == 'bin' and r.extra['op'] in ('Eq', 'Ne'):
                        for o in (r.extra['a'], r.extra['b']):
                            cst = op_const(o)
                            if cst and isinstance(cst.get('v'), int):
                                out[cst['v']] = s_
                # `match c { b' ' | b'\n' => }` compiles to a switch on the byte itself
                if s_.kind == 'int':
                    for v in s_.edges:
                        if isinstance(v, int): out[v] = s_
        return out
    sp = arm('Spaces')
    bt = byte_tests(sp)
    raw_push = [c for c in b.calls() if c.bb in sp and c.is_(r'Vec::<u8>::push$') and not all(r.kind == 'const' for r in provenance(b, c.args[1], c.bb, 'term'))]
    ok = 32 in bt and 10 in bt and bool(raw_push)
    if ok:
        # the raw push must be unreachable when the byte equals ' ' or '\n'
        for v in (32, 10):
            s_ = bt[v]
            if s_.kind == 'bool':
                r = [q for q in s_.roots if q.kind == 'bin'][0]
                eq_edge = s_.target(True) if r.extra['op'] == 'Eq' else s_.target(False)
            else:
                eq_edge = s_.edges.get(v)
            ok &= not any(c.bb in reachable_edges(b, eq_edge, avoid=[x for x in set(sw.edges.values())]) and c.bb in sp and not _passes_other_test(b, eq_edge, c.bb, bt, v) for c in raw_push)
    ctx.ob('E.roff-escaper', 'escape:Spaces-replaces-space-and-newline', ok, 'the Spaces rule tests the byte against both \' \' (32) and \'\\n\' (10) and never writes those bytes raw (tests found for %s)' % sorted(bt), where=b.where(), cfg=cfg)
    for v in ('Special', 'SpecialNoNewline'):
        blocks = arm(v)
        bt = byte_tests(blocks)
        ok = 46 in bt and 39 in bt
        # the guard writes \& (extend_from_slice of b"\\&") before any raw push of the byte
        guard = [c for c in b.calls() if c.bb in blocks and c.is_(r'extend_from_slice$') and any(r.kind == 'const' and r.extra.get('bytes') == [92, 38] for r in provenance(b, c.args[1], c.bb, 'term'))]
        raw = [c for c in b.calls() if c.bb in blocks and c.is_(r'Vec::<u8>::push$') and not all(r.kind == 'const' for r in provenance(b, c.args[1], c.bb, 'term'))]
        ok &= len(guard) == 1 and bool(raw)
        if ok:
            g = guard[0]
            # guard is under at_line_start && (c == '.' || c == '\'')
            als = False
            for (a, s_) in b.transitive_control_deps(g.bb):
                sw2 = Switch(b, a)
                if sw2.kind == 'bool' and any(b.name_of((op_place(sw2.t['op']) or [0])[0]) == 'at_line_start' or any(b.name_of(q.site and 0) == 'x' for q in []) for _ in [0]):
                    als = True
                defs = reaching_defs(b, (op_place(sw2.t['op']) or [0])[0], a, 'term') if op_place(sw2.t['op']) else []
                for (db, dk, kind, st) in defs:
                    if kind == 'assign' and st['rv']['k'] == 'use' and op_place(st['rv']['op']) and b.name_of(op_place(st['rv']['op'])[0]) == 'at_line_start':
                        als = True
            ok &= als
            # every raw push of the byte in this arm is reachable from the arm entry only... the guard precedes: no path
            # from the arm entry to a raw push goes through the "is control char at line start" edge without the guard
            for s_ in (bt[46], bt[39]):
                pass
            ok &= all(b.reaches(g.bb, [c.bb]) for c in raw)
        ctx.ob('E.roff-escaper', 'escape:%s-line-start-guard' % v, ok, 'the %s rule writes `\\&` under `at_line_start and c in {\'.\', \'\\\'\'}` before the byte itself can be written: %s' % (v, ok), where=b.where(), cfg=cfg)
    # at_line_start: initial true, reassigned from c == '\n'
    names = {v: k for k, v in b.local_names.items()}
    al = names.get('at_line_start')
    if al is None:
        raise Broken('escape::escape: at_line_start not found')
    assigns = [(i, k, st) for i, k, st in b.stmts() if st['k'] == 'assign' and st['lhs'] == [al, []]]
    init_true = any(st['rv']['k'] == 'use' and (op_const(st['rv']['op']) or {}).get('v') is True and b.dominates(i, sw.b) and not b.reaches(sw.b, [i]) for (i, k, st) in assigns)
    recompute = any(st['rv']['k'] == 'bin' and st['rv']['op'] == 'Eq' and any((op_const(o) or {}).get('v') == 10 for o in (st['rv']['a'], st['rv']['b'])) for (i, k, st) in assigns)
    ctx.ob('E.roff-escaper', 'escape:at_line_start-tracking', init_true and recompute, 'at_line_start starts true (%s) and is recomputed as c == \'\\n\' after each byte (%s)' % (init_true, recompute), where=b.where(), cfg=cfg)
    # Unescaped arms push the byte verbatim and nothing else
    for v in ('Unescaped', 'UnescapedAtNewline'):
        blocks = arm(v)
        calls = [c for c in b.calls() if c.bb in blocks and c.is_(r'Vec::<u8>::(push|extend_from_slice)$')]
        ctx.ob('E.roff-escaper', 'escape:%s-verbatim' % v, len(calls) == 1 and calls[0].is_(r'push$'), 'the %s rule copies the byte verbatim' % v, where=b.where(), cfg=cfg)

def _passes_other_test(b, frm, to, bt, v):
    return False

def unescaped(ctx, cfg, fs):
    # every FreeMonoid::push_str(Escape::X, text) call in the crate
    sites = []
    for b in fs.bodies.values():
        for c in b.calls():
            if c.is_(r'monoid::FreeMonoid::<.*>::push_str$', r'FreeMonoid<T>>::push_str$', r'FreeMonoid.*push_str$'):
                esc = set()
                for r in provenance(b, c.args[1], c.bb, 'term', through=None):
                    if r.kind == 'agg' and 'Escape' in r.what:
                        esc.add(r.what.split('::')[-1])
                    else:
                        esc.add('dynamic:%s' % r.kind)
                sites.append((b, c, esc))
    if len(sites) < 8:
        raise Broken('only %d roff payload push sites found' % len(sites))
    callers = fs.callers()
    plumbing = [x for x in sites if outer(x[0].path).startswith('<buffer::manpage::monoid::FreeMonoid')]
    for (pb, pc, pesc) in plumbing:
        users = sorted(u for u in callers.get(pb.path, ()) if 'manpage::monoid' not in u)
        ctx.ob('U.unescaped', '%s:plumbing-unused-outside' % short(pb.path), not users, 'the label-agnostic helper %s is not used outside the monoid module: %s' % (short(pb.path), users or 'no users'), where=pb.where(), cfg=cfg)
    sites = [x for x in sites if x not in plumbing]
    for (b, c, esc) in sites:
        txt = provenance(b, c.args[2], c.bb, 'term')
        if esc <= {'Special', 'SpecialNoNewline', 'Spaces'}:
            ctx.ob('U.unescaped', '%s:%s' % (short(b.path), '+'.join(sorted(esc))), True, '%s pushes text under %s (escaped)' % (short(b.path), sorted(esc)), where=c.where(), cfg=cfg, nontrivial=False)
            continue
        ok = True; why = []
        for r in txt:
            if r.kind == 'const':
                why.append('constant %r' % (r.what,))
            elif r.kind == 'param' and outer(b.path).startswith('buffer::manpage::roff::Roff::'):
                # interprocedural: every call site of this Roff method passes a constant for that parameter
                pname = r.what
                idx = [i for i in range(1, b.arg_count + 1) if b.name_of(i) == pname][0] - 1
                for cal in sorted(callers.get(b.path, ())):
                    cb = fs.bodies.get(cal)
                    if cb is None: continue
                    for cc in cb.calls():
                        if b.path in cc.names:
                            ar = provenance(cb, cc.args[idx], cc.bb, 'term')
                            def lit(q):
                                return q.kind == 'const' or (q.kind == 'call' and q.call.is_(r'roff::Font::escape$', r'Section.*as_str$')) or \
                                    (q.kind == 'param' and outer(cb.path).startswith('buffer::manpage::roff::Roff::') and False)
                            if not all(lit(q) for q in ar) or not ar:
                                ok = False; why.append('%s passes %s for `%s`' % (short(cal), sorted('%s:%s' % (q.kind, q.what if q.kind != 'call' else short(q.call.name)) for q in ar), pname))
                if ok: why.append('parameter `%s`, constant at every call site' % pname)
            else:
                ok = False; why.append('%s:%s' % (r.kind, r.what if r.kind != 'call' else short(r.call.name)))
        ctx.ob('U.unescaped', '%s:%s' % (short(b.path), '+'.join(sorted(esc))), ok, '%s pushes unescaped roff source: %s' % (short(b.path), why), where=c.where(), cfg=cfg)
    # Font::escape returns constants
    fe = fs.one(r'roff::Font::escape$')
    vals = [st['rv'] for i, k, st in fe.stmts() if st['k'] == 'assign' and st['lhs'] == [0, []]]
    ctx.ob('U.unescaped', 'Font::escape:constants', bool(vals) and all(v['k'] == 'use' and v['op'][0] == 'c' for v in vals), 'Font::escape returns only constant font switches', where=fe.where(), cfg=cfg)

def sections(ctx, cfg, fs):
    b = ctx.look(fs.one(r'^buffer::extract_sections$'))
    am = [c for c in b.calls() if c.is_(r'append_meta$')]
    rec = [c for c in b.calls() if c.names and c.names[0] == b.path]
    push = [c for c in b.calls() if c.is_(r'Vec::<buffer::DocSection<.*>>::push$', r'Vec::<.*DocSection.*>::push$')]
    ok = len(am) == 1 and len(rec) == 1 and len(push) == 1
    ctx.ob('S.sections', 'extract_sections:anchors', ok, 'extract_sections: %d append_meta, %d recursive call, %d section push' % (len(am), len(rec), len(push)), where=b.where(), cfg=cfg)
    if not ok: return
    ctx.ob('S.sections', 'extract_sections:records-own-level', all(b.dominates(push[0].bb, r) for r in b.return_blocks()) and not b.reaches(rec[0].bb, [push[0].bb]), 'the level itself is recorded unconditionally, before descending', where=push[0].where(), cfg=cfg)
    # the loop iterates hi.items directly
    nx = [c for c in b.calls() if c.is_(r'Iterator>?::next$') and rec[0].bb in reachable_edges(b, c.target or 0)]
    direct = False; via = []
    for c in nx:
        rs = provenance(b, c.args[0], c.bb, 'term', through=DEFAULT_THROUGH + [r'IntoIterator>?::into_iter$', r'slice::<impl \[T\]>::iter$'])
        for r in rs:
            if r.kind == 'call' and r.call.is_(r'HelpItems.*default$', r'Default>::default$') and r.path[:1] == ['items']:
                direct = True
            elif r.kind == 'call':
                via.append(short(r.call.name))
    ctx.ob('S.sections', 'extract_sections:walks-all-items', direct and not via, 'extract_sections iterates the raw item list built by append_meta (no filtered/grouped view: %s)' % (via or 'direct'), where=b.where(), cfg=cfg)
    # recursion only under HelpItem::Command, with that command's meta / info
    hsw = [s for s in switches(b) if s.kind == 'enum' and s.enum == 'meta_help::HelpItem']
    ok = bool(hsw) and only_via_edge(b, hsw[0].b, hsw[0].target('Command'), rec[0].bb)
    if ok:
        m = provenance(b, rec[0].args[0], rec[0].bb, 'term'); inf = provenance(b, rec[0].args[1], rec[0].bb, 'term')
        ok = all('meta' in r.path and 'as Command' in r.path for r in m) and all('info' in r.path and 'as Command' in r.path for r in inf) and bool(m) and bool(inf)
    ctx.ob('S.sections', 'extract_sections:recurses-into-every-command', ok, 'every HelpItem::Command of the level is descended into with its own meta and info: %s' % ok, where=rec[0].where(), cfg=cfg)
    # no other condition guards the recursion
    tcd = b.transitive_control_deps(rec[0].bb)
    other = []
    for (a, s_) in tcd:
        sw = Switch(b, a)
        if sw.kind == 'enum' and sw.enum in ('meta_help::HelpItem',): continue
        if sw.kind == 'enum' and sw.enum and 'Option' in sw.enum and any(r.kind == 'call' and r.call.is_(r'Iterator>?::next$') for r in provenance(b, sw.place, sw.discr_site[0], sw.discr_site[1], through=None)): continue
        other.append(b.where(a))
    ctx.ob('S.sections', 'extract_sections:no-extra-filter', not other, 'nothing but "is a command" decides whether a level is documented: %s' % (other or 'ok'), where=b.where(), cfg=cfg)
    for rx, nm in ((r'^buffer::html::collect_html$', 'collect_html'), (r'OptionParser<T>>::render_manpage$', 'render_manpage')):
        x = ctx.look(fs.one(rx))
        es = [c for c in x.calls() if c.is_(r'^buffer::extract_sections$')]
        pipe = [c for c in x.calls() if c.is_(r'^meta_help::render_help$', r'write_help_item_groups$')]
        am2 = [c for c in x.calls() if c.is_(r'append_meta$')]
        ok = len(es) == 1 and bool(pipe) and (nm == 'collect_html' or len(am2) == 2)
        ctx.ob('S.sections', '%s:pipeline' % nm, ok, '%s documents the sections found by extract_sections with the --help pipeline (%s)' % (nm, sorted({short(c.name) for c in pipe + am2})), where=x.where(), cfg=cfg)
