"""C15 - completion scripts for real shells are well-formed and inert.

Decides (static, on type-checked MIR of every autocomplete configuration):
 T1 typed quoting      every fmt argument written by render_zsh / render_bash has the quoting newtype
                       `Shell<'_>` as its resolved Display type (exceptions: integer types, constants,
                       developer-supplied ShellComp::Raw fields); no raw String append on the accumulator.
 T2 one per line       every format template of render_{zsh,bash,fish,simple} ends in a newline.
 T3 accumulator kept   every `Ok(..)` returned after the first write to the accumulator returns it.
 T4 input coverage     every normal return of a renderer has either iterated `ops` / `items`, or is
                       control dependent on a test of that input's size (sibling agreement across renderers).
 T5 escaper            Shell: Display as a transducer TABLE (abstract walk of the per-character unit, loop body or closure):
                       a quote becomes the four characters quote-backslash-quote-quote, every other character itself; every Ok
                       path starts and ends by writing a quote; string cuts in complete_shell use byte offsets.
 T6 dispatch           check_complete: revision 0/1/7/8/9 -> test/simple/zsh/bash/fish.
 T6b every arm answers  once the word being completed is in hand every arm of the dispatch returns Some(rendered output): no
                       renderer is skipped because of something unrelated (e.g. a missing application name) - shared with C14.
 T7 stubs agree        revision constants printed by the dump_*_completer stubs agree with T6; the
                       --bpaf-complete-style-X strings select dump_X_completer.
 T8 line protocol      fish / elvish renderers (one candidate per line) cut a description at its first line break
                       (found and fixed for render_fish, 1f8621c).
 T9 once             a renderer that answers a special case from a single element of `items` does not also run the general loop over
                       `items` afterwards (each candidate once).
 T7b compdef         the zsh stub starts with the `#compdef` tag (compinit reads only the first line).
 T10 completers     Dir is never rendered like File (per mask case, table); the typed word is echoed as the only candidate only when neither an item
                       nor a completer was computed.
 T11 operands      zsh: every placeholder of a `compadd` / `_files` line is the argument of an option letter or stands after `--` (a quoted word that
                       starts with a dash is otherwise read as an option).
 T12 untruncated   no format placeholder in the completion modules carries a precision (candidates and descriptions are never cut).
 T13 descr         zsh: every `compadd .. -d descr` line of the candidate loop follows the `descr=(..)` assignment made for the same candidate.
 T14 bash appends   every render_bash directive that mentions COMPREPLY appends to it (`+=`).
 T8' first line   the description is the placeholder after the TAB; it is the first element of a forward split / the front half of split_once.
Does not decide: that sourcing the text in a real shell has no other effect."""
import re
from core import *
from dataflow import *
from cfgq import fn_refs, switch_on_call, switches, Switch, reachable_edges
from parsers import short

LEVEL = 'other'
EXPLANATION = __doc__
ASSUMPTIONS = [
    'rustc nightly MIR (mir-opt-level=0) faithfully represents the source; format_args! lowering as documented in core::fmt',
    'ShellComp::Raw strings and &\'static constants are supplied by the developer, not by the user at completion time',
    'shell semantics: text inside single quotes with \' -> \'\\\'\' is data for bash and zsh',
]
FLOORS = {'T1.typed-quoting': 19, 'T2.newline': 23, 'T3.accumulator': 6, 'T4.coverage': 12, 'T5.escaper': 4, 'T6.dispatch': 5, 'T7.stubs': 8, 'T8.line-protocol': 2, 'T9.once': 4, 'T10.completers': 4, 'T11.operands': 5, 'T12.untruncated': 1, 'T13.descr': 1, 'T14.bash-appends': 1}

RENDERERS = ['render_zsh', 'render_bash', 'render_fish', 'render_simple']
INT_TYPES = {'usize', 'u8', 'u16', 'u32', 'u64', 'u128', 'isize', 'i8', 'i16', 'i32', 'i64', 'i128'}
DISPATCH = {0: 'render_test', 1: 'render_simple', 7: 'render_zsh', 8: 'render_bash', 9: 'render_fish'}
STUBS = {'bash': 8, 'zsh': 7, 'fish': 9, 'elvish': 1}

def strip_refs(t):
    while t.startswith('&'):
        t = t[1:].lstrip()
        if t.startswith("'"):
            t = t.split(' ', 1)[1] if ' ' in t else t
        if t.startswith('mut '):
            t = t[4:]
    return t

def accumulator(body):
    """the local initialised from String::new() that the function returns"""
    accs = []
    for c in body.calls():
        if c.is_(r'^std::string::String::new$') and c.dest and not c.dest[1]:
            accs.append(c.dest[0])
    return accs

def run(ctx):
    cfgs = ['all', 'ac'] if ctx.tier == 'quick' else ['all', 'ac', 'autocomplete,docgen', 'autocomplete,bright-color', 'autocomplete,batteries']
    ctx.preload(cfgs)
    for cfg in cfgs:
        fs = ctx.facts(cfg)
        bodies = {r: ctx.look(fs.one(r'^complete_shell::%s$' % r)) for r in RENDERERS}
        ctx.guard(t1, ctx, cfg, fs, bodies)
        ctx.guard(t2, ctx, cfg, fs, bodies)
        ctx.guard(t3, ctx, cfg, fs, bodies)
        ctx.guard(t4, ctx, cfg, fs, bodies)
        ctx.guard(t5, ctx, cfg, fs)
        ctx.guard(t6, ctx, cfg, fs)
        ctx.guard(t7, ctx, cfg, fs)
        ctx.guard(t8, ctx, cfg, fs, bodies)
        ctx.guard(t9, ctx, cfg, fs, bodies)
        ctx.guard(completer_table, ctx, cfg, fs, bodies)
        ctx.guard(t5_offsets, ctx, cfg, fs)
        ctx.guard(t11_operands, ctx, cfg, fs, bodies)
        ctx.guard(t12_untruncated, ctx, cfg, fs)
        ctx.guard(t13_descr_fresh, ctx, cfg, fs, bodies)
        ctx.guard(t14_bash_appends, ctx, cfg, fs, bodies)
        import c14, c08
        ctx.guard(c08.keep_only, ctx, lambda: c14.no_late_none(ctx, cfg, fs), lambda o: True, 'T6.dispatch')

def t11_operands(ctx, cfg, fs, bodies):
    """zsh: a quoted word is still an OPTION for `compadd` / `_files` when it starts with a dash, unless it stands after the `--` that
    ends the options or is the argument of an option letter.  Every placeholder of a template that starts with one of these
    builtins is in one of those two positions."""
    for body in fs.family(bodies['render_zsh']):
        for s in fmt_sites(body):
            text = s.text()
            if not re.match(r'(compadd|_files)\b', text):
                continue
            before = ''
            bad = []
            for pc in s.pieces:
                if pc[0] == 'lit':
                    before += pc[1]
                else:
                    if not (' -- ' in before or re.search(r' -[A-Za-z] $', before)):
                        bad.append('argument %d' % pc[1])
                    before += '{}'
            if '{}' in text:
                ctx.ob('T11.operands', '%s:%s' % (body.path, text.strip()[:50]), not bad,
                       '%s: template %r: %s' % (body.path, text, ('%s would be read as an option when the text starts with a dash' % ', '.join(bad)) if bad else 'every placeholder is an option argument or follows `--`'),
                       where=s.where(), cfg=cfg)

def t13_descr_fresh(ctx, cfg, fs, bodies):
    """zsh: `descr` is a shell variable that outlives the directive that set it.  A `compadd .. -d descr ..` line shows whatever the array
    holds at that moment, so inside the loop over the candidates every way from fetching the next candidate to such a line passes the
    line that assigns `descr=(..)` for THIS candidate (otherwise the previous candidate's text is displayed a second time)."""
    b = bodies['render_zsh']
    sites = fmt_sites(b)
    uses = [s_ for s_ in sites if re.search(r'-d descr\b', s_.text())]
    sets = [s_ for s_ in sites if re.match(r'descr=\(', s_.text())]
    nxt = [c for c in b.calls() if c.is_(r'Iterator>?::next$') and 'ShowComp' in c.full]
    if not uses:
        return
    where_of = lambda s_: (s_.consumer.bb if s_.consumer is not None else s_.bb)
    bad = []
    for u in uses:
        heads = [c for c in nxt if b.reaches(c.bb, [where_of(u)])]
        if not heads:
            bad.append('%r is not inside the loop over the candidates' % u.text().strip()); continue
        for h in heads:
            if h.target is not None and where_of(u) in reachable_edges(b, h.target, avoid=[where_of(x) for x in sets] + [h.bb]):
                bad.append('%r can be reached from the fetch of a candidate without assigning descr for it' % u.text().strip()[:40])
    ctx.ob('T13.descr', 'render_zsh:descr-assigned-for-every-candidate-shown', bool(sets) and not bad,
           'render_zsh: %d line(s) display `descr`, %d line(s) assign it: %s' % (len(uses), len(sets), sorted(set(bad)) or 'every display follows the assignment made for the same candidate'), where=b.where(), cfg=cfg)

def t14_bash_appends(ctx, cfg, fs, bodies):
    """bash: the reply is built by several directives - the shell completers (`_filedir ..`, which APPEND to COMPREPLY) come first, the
    candidates after them.  "Sourcing the output can only ADD candidates": every directive that mentions COMPREPLY appends (`+=`);
    a plain assignment throws away what the completer before it produced."""
    n = 0; bad = []
    for body in fs.family(bodies['render_bash']):
        for s_ in fmt_sites(body):
            t = s_.text()
            for m in re.finditer(r'COMPREPLY(.?.?)', t):
                n += 1
                if not m.group(1).startswith('+='):
                    bad.append('%r at %s' % (t, s_.where()))
    ctx.ob('T14.bash-appends', 'render_bash:COMPREPLY-only-appended', n >= 3 and not bad, 'render_bash mentions COMPREPLY in %d template(s); each one appends: %s' % (n, bad or 'ok'), where=bodies['render_bash'].where(), cfg=cfg)

def t12_untruncated(ctx, cfg, fs):
    """a candidate (and its description) reaches the shell whole: no format placeholder in the completion modules carries a precision
    (`{:.N}` truncates the text to N characters - padding with a width is harmless)."""
    n = 0
    for path, raw in sorted(fs.bodies.items()):
        if not re.match(r'^(complete_shell|complete_gen)::|^<complete_(shell|gen)::', path):
            continue
        body = raw
        for s in fmt_sites(body):
            for pc in s.pieces:
                if pc[0] == 'arg':
                    n += 1
                    if len(pc) > 4 and pc[4] is not None:
                        ctx.ob('T12.untruncated', '%s:%s' % (path, s.text().strip()[:50]), False,
                               '%s: template %r cuts argument %d to %s characters' % (path, s.text(), pc[1], pc[4]), where=s.where(), cfg=cfg)
    ctx.ob('T12.untruncated', 'completion-modules:no-precision', n >= 20, '%d placeholders in complete_shell / complete_gen examined; none may carry a precision' % n, cfg=cfg)

def t5_offsets(ctx, cfg, fs):
    """the quoting wrapper and the renderers cut strings only at byte offsets (char_indices/len/find), never at a
    character count: a wrong cut splits a multi-byte character or shifts the escaping of a quote (C04 rules applied
    to complete_shell)"""
    import c04
    before = len(ctx.obs)
    try:
        c04.str_index(ctx, cfg, fs); c04.str_cut(ctx, cfg, fs)
    finally:
        keep = [o for o in ctx.obs[before:] if re.match(r'(Shell::fmt|<complete_shell|complete_shell::|render_)', o.key)]
        for o in keep: o.rule = 'T5.escaper'
        ctx.obs = ctx.obs[:before] + keep
    ctx.ob('T5.escaper', 'complete_shell:string-cuts', True, 'complete_shell cuts strings at %d site(s), all at byte offsets' % len(keep), cfg=cfg, nontrivial=False)

LINE_ORIENTED = ('render_fish', 'render_simple')

def t8(ctx, cfg, fs, bodies):
    """fish and elvish read the answer line by line: one line = one candidate (value TAB description).  A description
    can come from a user closure and contain line breaks, so what is written after the TAB must be cut at the
    FIRST line break (typed-quoting renderers wrap the text in Shell(..) instead and are not line oriented).  The description is
    the placeholder that follows the TAB in the template; accepted cuts: the first element of a forward split / lines iterator, or
    the front half of `split_once` - not of `rsplit_once`, which cuts at the LAST break."""
    CUT = DEFAULT_THROUGH + [r'Option::<.*>::(unwrap_or|unwrap_or_default|as_deref|map_or|map_or_else|map)$', r'as std::ops::Try>::branch$']
    for r in LINE_ORIENTED:
        n = 0
        for body in fs.family(bodies[r]):
            for s in fmt_sites(body):
                seen_tab = False
                for pc in s.pieces:
                    if pc[0] == 'lit':
                        seen_tab = seen_tab or '\t' in pc[1]
                        continue
                    if not seen_tab or pc[1] is None or pc[1] >= len(s.args):
                        continue
                    (meth, T, op, abb) = s.args[pc[1]]
                    rs = provenance(body, op, abb, 'term', through=CUT)
                    good = [q for q in rs if q.kind == 'call' and ((q.call.is_(r'Iterator>?::next$') and re.search(r'str::(Split|Lines|SplitTerminator|SplitN|SplitInclusive)<', q.call.full) and not re.search(r'str::R(Split|SplitN|SplitTerminator)<', q.call.full))
                                                                  or q.call.is_(r'str>?::split_once(::<.*>)?$'))]
                    bad = [q for q in rs if q not in good]
                    n += 1
                    ctx.ob('T8.line-protocol', '%s:description-first-line-only' % r, bool(good) and not bad,
                           '%s writes the description into the line template %r %s' % (r, s.text(), 'after cutting it at the first line break' if (good and not bad) else
                                                                                     'not cut at its FIRST line break (%s): a line break inside it starts a new candidate line' % sorted({(short(q.call.name) if q.kind == 'call' else q.kind) for q in bad})),
                           where=s.where(), cfg=cfg)
        if n == 0:
            ctx.ob('T8.line-protocol', '%s:description-first-line-only' % r, True, '%s writes no description' % r, cfg=cfg, nontrivial=False)

def arg_descr(body, op, bb):
    rs = provenance(body, op, bb, 'term')
    return rs

def t1(ctx, cfg, fs, bodies):
    for r in ('render_zsh', 'render_bash'):
        for body in fs.family(bodies[r]):
            n = 0
            for s in fmt_sites(body):
                for ai, (meth, T, op, bb) in enumerate(s.args):
                    n += 1
                    base = strip_refs(T)
                    roots = arg_descr(body, op, bb)
                    rdesc = sorted({('%s:%s%s' % (x.kind, x.what if x.kind != 'const' else repr(x.what)[:30], ('.' + '.'.join(x.path)) if x.path else '')) for x in roots})
                    key = '%s:%s:arg%d:%s' % (body.path, s.text().strip()[:40], ai, ';'.join(rdesc)[:80])
                    if base.startswith('complete_shell::Shell<'):
                        ok, why = True, 'resolved Display type is the quoting newtype Shell'
                    elif base in INT_TYPES:
                        ok, why = True, 'integer'
                    elif all(x.kind == 'const' for x in roots):
                        ok, why = True, 'constant text'
                    elif all('as Raw' in x.path for x in roots):
                        ok, why = True, 'developer-supplied ShellComp::Raw field'
                    else:
                        ok, why = False, ('unquoted text: Display type %s, provenance %s, is written into shell '
                                          'code by %s' % (T, rdesc, r))
                    ctx.ob('T1.typed-quoting', key, ok, '%s: `%s` argument %d has type %s (%s)' % (
                        body.path, s.text().strip(), ai, T, why), where=s.where(), cfg=cfg)
            # raw appends on the accumulator
            for acc in accumulator(body):
                locs, sinks = flows_to(body, acc, through=None)
                for (b, k, kind, p) in sinks:
                    if kind != 'call':
                        continue
                    c = Call(body, b, p)
                    if c.is_(r'as std::fmt::Write>::write_fmt$', r'core::fmt::rt::Argument', r'String::len$',
                             r'as std::ops::Deref>::deref', r'String::as_str'):
                        continue
                    a0 = op_place(c.args[0]) if c.args else None
                    if not a0 or a0[0] not in locs:
                        continue
                    if not re.search(r'String::(push|push_str|insert|insert_str|extend|write_str|write_char)|as std::fmt::Write>::write_(str|char)|AddAssign', c.name):
                        continue
                    rest = [provenance(body, a, b, 'term') for a in c.args[1:]]
                    ok = all(all(x.kind == 'const' for x in rs) for rs in rest)
                    ctx.ob('T1.typed-quoting', '%s:raw-append:%s' % (body.path, c.name), ok,
                           '%s appends to the output with %s; %s' % (body.path, c.name, 'constant text' if ok else 'non-constant text bypasses the Shell quoting wrapper'),
                           where=c.where(), cfg=cfg)

def t2(ctx, cfg, fs, bodies):
    for r in RENDERERS:
        for body in fs.family(bodies[r]):
            for s in fmt_sites(body):
                # a format! whose result is wrapped by Shell(..) before being written is data, not a line
                exempt = False
                if s.consumer is not None and s.consumer.is_(r'^std::fmt::format$') and s.consumer.dest:
                    _, sinks = flows_to(body, s.consumer.dest[0])
                    for (b, k, kind, p) in sinks:
                        if kind == 'assign' and p['rv']['k'] == 'agg' and p['rv'].get('adt', '').endswith('complete_shell::Shell'):
                            exempt = True
                text = s.text()
                ok = exempt or text.endswith('\n')
                ctx.ob('T2.newline', '%s:%s' % (body.path, text.strip()[:50]), ok,
                       '%s: template %r %s' % (body.path, text, 'is wrapped by Shell before use' if exempt else
                                               ('ends in a newline' if ok else 'does not end in a newline: the next directive is glued to this one')),
                       where=s.where(), cfg=cfg)

def ok_assignments(body):
    """(bb, idx, operand) for `_0 = Result::Ok{x}`"""
    out = []
    for i, k, st in body.stmts():
        if st['k'] == 'assign' and st['lhs'] == [0, []] and st['rv']['k'] == 'agg' and st['rv'].get('variant') == 'Ok':
            out.append((i, k, st['rv']['fields'][0]))
    return out

def acc_write_blocks(body, acc):
    locs, sinks = flows_to(body, acc, through=None)
    out = set()
    for (b, k, kind, p) in sinks:
        if kind == 'call':
            c = Call(body, b, p)
            if c.is_(r'write_fmt$', r'push', r'write_str', r'write_char', r'extend', r'insert'):
                a0 = op_place(c.args[0]) if c.args else None
                if a0 and a0[0] in locs:
                    out.add(b)
    return out

def t3(ctx, cfg, fs, bodies):
    for r in RENDERERS:
        body = bodies[r]
        accs = accumulator(body)
        if len(accs) != 1:
            raise Broken('%s: expected one String accumulator, found %s' % (r, accs))
        acc = accs[0]
        wb = acc_write_blocks(body, acc)
        after_write = set()
        for b in wb:
            after_write |= body.reachable(b)
        for (b, k, op) in ok_assignments(body):
            roots = provenance(body, op, b, k, through=[r'std::hint::must_use'])
            is_acc = bool(roots) and all(x.kind == 'call' and x.call.dest and x.call.dest[0] == acc and not x.path for x in roots)
            if is_acc:
                ok, why = True, 'returns the accumulator'
            elif b not in after_write:
                ok = all(x.kind == 'call' and x.call.is_(r'^std::fmt::format$') for x in roots)
                why = 'returns a freshly formatted string before anything was written to the accumulator' if ok else \
                    'returns a value that is neither the accumulator nor a formatted string: %s' % roots
            else:
                ok, why = False, 'returns a value other than the accumulator although directives were already written to it (they are dropped)'
            desc = 'acc' if is_acc else ';'.join(sorted('%s:%s' % (x.kind, x.what) for x in roots))
            ctx.ob('T3.accumulator', '%s:return:%s:%s' % (body.path, desc, 'after-write' if b in after_write else 'before-write'), ok,
                   '%s: %s' % (body.path, why), where=body.where(b), cfg=cfg)

def t9(ctx, cfg, fs, bodies):
    """each candidate appears once: a renderer that answers a special case from a single element of `items` (`items[0]`, a
    slice pattern) has finished with the items - the general loop over `items` must not run after such a write, or the same
    candidate is emitted a second time"""
    for r in RENDERERS:
        body = bodies[r]
        params = {body.name_of(i): i for i in range(1, body.arg_count + 1)}
        if 'items' not in params:
            continue
        its = iter_blocks(body, params['items'], r'complete_gen::ShowComp')
        if not its:
            continue
        in_loop = set()
        for x in its:
            in_loop |= {y for y in body.reachable(x) if body.reaches(y, [x])}
        twice = []; n = 0
        for site in fmt_sites(body):
            if site.bb in in_loop:
                continue
            from_items = False
            for (meth, T, op, bb) in site.args:
                def items_rooted(rs, depth=0):
                    for q in rs:
                        if q.kind == 'param' and q.what == 'items':
                            return True
                        if q.kind == 'agg' and depth < 3 and any(items_rooted(provenance(body, f, q.site[0], q.site[1]), depth + 1) for f in q.extra['fields']):
                            return True
                    return False
                if items_rooted(provenance(body, op, bb, 'term')):
                    from_items = True
            if not from_items:
                continue
            n += 1
            if body.reaches(site.bb, list(its)):
                twice.append(body.where(site.bb))
        ctx.ob('T9.once', '%s:special-case-excludes-loop' % body.path, not twice,
               '%s: %d write(s) take a candidate directly from `items` outside the loop; after none of them the loop over `items` runs as well: %s' % (body.path, n, twice or 'ok'), where=body.where(), cfg=cfg)

def completer_table(ctx, cfg, fs, bodies):
    """a requested shell completer is rendered as THAT completer: per renderer that emits completers (zsh, bash), the directives
    written for ShellComp::Dir differ from those written for ShellComp::File in the masked case as well as in the unmasked one
    (table by abstract evaluation of one round of the `ops` loop per variant; the paths are grouped by the outcome of the test on
    `mask`).  And the typed word is echoed back as the only candidate only when NOTHING was computed: no item and no completer."""
    from absint import Walker
    from cfgq import reachable_edges
    for r in ('render_zsh', 'render_bash'):
        body = bodies[r]
        params = {body.name_of(i): i for i in range(1, body.arg_count + 1)}
        if 'ops' not in params:
            continue
        osw = [s for s in switches(body) if s.kind == 'enum' and s.enum == 'complete_shell::ShellComp' and s.target('Dir') is not None and s.target('File') is not None]
        nx = [c for c in body.calls() if c.is_(r'as std::iter::Iterator>::next$') and 'complete_shell::ShellComp' in c.full]
        if len(osw) != 1 or len(nx) != 1:
            raise Broken('%s: the dispatch on ShellComp inside the ops loop was not found' % body.path)
        sites = {s.bb: s for s in fmt_sites(body)}
        table = {}
        for V in ('File', 'Dir'):
            w = Walker(body, max_paths=200, max_visits=2)
            w.stop = {nx[0].bb}
            for pth in w.run(osw[0].target(V), {}):
                mask = 'any'
                for (fb, o) in pth.forks:
                    sw_ = Switch(body, fb)
                    if sw_.kind == 'enum' and sw_.enum.endswith('option::Option') and o in ('Some', 'None'):
                        mask = o
                lits = tuple(sorted(''.join(x[1] if x[0] == 'lit' else '{}' for x in sites[b_].pieces) for b_ in pth.blocks if b_ in sites))
                calls = tuple(sorted(c.name.split('::')[-1] for (_, c) in pth.calls if c.is_(r'Fn<.*>>::call$', r'FnMut<.*>>::call_mut$')))
                table.setdefault((V, mask), set()).add((lits, calls))
        same = [m for m in ('Some', 'None', 'any') if (('File', m) in table or ('Dir', m) in table) and table.get(('File', m)) == table.get(('Dir', m))]
        ctx.ob('T10.completers', '%s:dir-is-not-file' % body.path, bool(table) and not same,
               '%s: directives per completer kind x mask: %s; File and Dir coincide for mask %s' % (body.path, {('%s/%s' % k_): sorted(v_) for k_, v_ in sorted(table.items())}, same or 'never'), where=body.where(osw[0].b), cfg=cfg)
    # typed-word echo
    for r in RENDERERS:
        body = bodies[r]
        params = {body.name_of(i): i for i in range(1, body.arg_count + 1)}
        if 'full_lit' not in params or 'items' not in params or 'ops' not in params:
            continue
        import c04
        e_items = [(a, [t for t in body.succ(a) if t != t2][0] if len(body.succ(a)) == 2 else None) for (a, t2) in c04.nonempty_edges(body, params['items'])]
        e_ops = [(a, [t for t in body.succ(a) if t != t2][0] if len(body.succ(a)) == 2 else None) for (a, t2) in c04.nonempty_edges(body, params['ops'])]
        echo = []
        for s in fmt_sites(body):
            for (meth, T, op, bb) in s.args:
                def lit_rooted(rs, depth=0):
                    for q in rs:
                        if q.kind == 'param' and q.what == 'full_lit':
                            return True
                        if q.kind == 'agg' and depth < 3 and any(lit_rooted(provenance(body, f, q.site[0], q.site[1]), depth + 1) for f in q.extra['fields']):
                            return True
                    return False
                if lit_rooted(provenance(body, op, bb, 'term')) and len(s.args) == 1 and not any(c_.is_(r'Iterator>::next$') and 'ShowComp' in c_.full and body.dominates(c_.bb, s.bb) for c_ in body.calls()):
                    echo.append(s)
        bad = []
        for s in echo:
            via_items = any(t is not None and s.bb not in reachable_edges(body, 0, removed_edges=[(a, t)]) for (a, t) in e_items)
            via_ops = any(t is not None and s.bb not in reachable_edges(body, 0, removed_edges=[(a, t)]) for (a, t) in e_ops)
            if not (via_items and via_ops):
                bad.append('%s (items empty: %s, ops empty: %s)' % (body.where(s.bb), via_items, via_ops))
        if echo:
            ctx.ob('T10.completers', '%s:typed-word-only-when-nothing-computed' % body.path, not bad,
                   '%s echoes the typed word as a candidate at %d site(s), each reachable only through "items is empty" AND "ops is empty": %s' % (body.path, len(echo), bad or 'ok'), where=body.where(), cfg=cfg)

def size_tests(body, param_local):
    """blocks whose switch condition derives from len()/is_empty()/slice pattern length of the param"""
    out = set()
    for i, b in enumerate(body.blocks):
        t = b['term']
        if t['k'] != 'switch':
            continue
        roots = provenance(body, t['op'], i, 'term', through=None)
        def derives(rs, depth=0):
            for x in rs:
                if x.kind == 'call' and x.call.is_(r'core::slice::<impl \[T\]>::(is_empty|len)$'):
                    pr = provenance(body, x.call.args[0], x.call.bb, 'term')
                    if any(y.kind == 'param' and y.what == body.name_of(param_local) for y in pr):
                        return True
                if x.kind in ('bin', 'un') and depth < 4:
                    ops = [x.extra.get('a'), x.extra.get('b')]
                    for o in ops:
                        if o and o[0] != 'c':
                            if derives(provenance(body, o, x.site[0], x.site[1], through=None), depth + 1):
                                return True
                    if x.extra.get('op') == 'PtrMetadata':
                        pr = provenance(body, x.extra['a'], x.site[0], x.site[1])
                        if any(y.kind == 'param' and y.what == body.name_of(param_local) for y in pr):
                            return True
            return False
        if derives(roots):
            out.add(i)
    return out

def iter_blocks(body, param_local, elem_ty_pat):
    """blocks calling Iterator::next on an iterator over the param's element type"""
    out = set()
    for c in body.calls():
        if c.is_(r'as std::iter::Iterator>::next$') and re.search(elem_ty_pat, c.full):
            out.add(c.bb)
    return out

def t4(ctx, cfg, fs, bodies):
    for r in RENDERERS:
        body = bodies[r]
        params = {body.name_of(i): i for i in range(1, body.arg_count + 1)}
        for pname, pat in (('items', r'complete_gen::ShowComp'), ('ops', r'complete_shell::ShellComp')):
            if pname not in params:
                ctx.ob('T4.coverage', '%s:%s:not-a-parameter' % (body.path, pname), False,
                       '%s is not given `%s`: requested %s can never appear in its output' % (body.path, pname, pname), where=body.where(), cfg=cfg)
                continue
            pl = params[pname]
            its = iter_blocks(body, pl, pat)
            sz = size_tests(body, pl)
            rets = [b for (b, k, op) in ok_assignments(body)]
            for rb in rets:
                # a path to this return "covers" the input when it passes the iteration over it, or
                # when it leaves a size test of the input by an edge whose sibling outcomes can
                # only reach this return through the iteration (the test separates a special case
                # from the general loop) or cannot reach it at all.
                deciding = set()
                for a in sz:
                    for s_ in body.succ(a):
                        others = [o for o in body.succ(a) if o != s_]
                        if all(o in its or not body.reaches(o, [rb], avoid=its) for o in others):
                            deciding.add((a, s_))
                seen = set(); st = [0]; bad = False
                while st:
                    x = st.pop()
                    if x in seen or x in its:
                        continue
                    seen.add(x)
                    if x == rb:
                        bad = True; break
                    for s_ in body.succ(x):
                        if (x, s_) not in deciding:
                            st.append(s_)
                iterated = bool(its) and not body.reaches(0, [rb], avoid=its)
                ok = not bad
                kind = 'iterated' if iterated else ('size-tested' if ok else 'ignored')
                ctx.ob('T4.coverage', '%s:%s:return:%s' % (body.path, pname, kind), ok,
                       '%s: an Ok return %s `%s`' % (body.path, {'iterated': 'is only reached after iterating', 'size-tested': 'is reached only by iterating or under a deciding test of the size of',
                                                             'ignored': 'can be reached without iterating or testing'}[kind], pname),
                       where=body.where(rb), cfg=cfg)

def t5(ctx, cfg, fs):
    """Shell(..) as a transducer: what is written for one character, by class of character, and what frames the whole.
    The per-character unit is found either as the body of the loop over self.0.chars() or as the closure handed to an
    iterator method (for_each / try_for_each / try_fold ..) on it; the abstract walker evaluates it for a quote and for
    other characters."""
    from absint import Walker, UNKNOWN
    body = ctx.look(fs.one(r"^<complete_shell::Shell<'_> as std::fmt::Display>::fmt$"))
    Q = "'"
    def writes(b, path):
        out = []
        for (blk, c), av in zip(path.calls, path.callvals):
            if c.is_(r'write_char$') and len(av) > 1:
                v = av[1]
                out.append(v[1] if (v is not UNKNOWN and v[0] == 'c') else '<dyn>')
            elif c.is_(r'write_str$', r'push_str$') and len(av) > 1:
                v = av[1]
                if v is not UNKNOWN and v[0] == 'c' and isinstance(v[1], str): out.append(v[1])
                else:
                    rs = provenance(b, c.args[1], c.bb, 'term')
                    out.append(rs[0].what if len(rs) == 1 and rs[0].kind == 'const' else '<dyn>')
            elif c.is_(r'write_fmt$'):
                out.append('<fmt>')
        return ''.join(out)
    # the per-character unit
    unit = None
    nxt = [c for c in body.calls() if c.is_(r"std::str::Chars<.*> as std::iter::Iterator>::next$")]
    if len(nxt) == 1 and nxt[0].target is not None:
        sw = switch_on_call(body, nxt[0])
        if sw is not None and sw.target('Some') is not None and nxt[0].dest and not nxt[0].dest[1]:
            unit = ('loop', body, sw.target('Some'), nxt[0])
    if unit is None:
        for clo in fs.closures_of(body):
            for c in body.calls():
                if c.is_(r'Iterator>?::(for_each|try_for_each|try_fold|fold|all|any|map)$') and len(c.args) >= 2:
                    recv = provenance(body, c.args[0], c.bb, 'term', through=None)
                    isclo = any(q.kind == 'agg' and q.extra.get('closure') == clo.path for a_ in c.args[1:] for q in provenance(body, a_, c.bb, 'term', through=None))
                    if isclo and recv and all(q.kind == 'call' and q.call.is_(r'str::<impl str>::chars$') for q in recv):
                        unit = ('closure', clo, 0, c)
    if unit is None:
        raise Broken('Shell::fmt: no per-character unit (loop over chars() or closure on chars()) found')
    table = {}
    for ch in (Q, 'a', '\\', '"', '$', ' ', '\n'):
        kind, b, start, anchor = unit
        w = Walker(b, max_paths=200, max_visits=1)
        if kind == 'loop':
            w.stop = {anchor.bb}
            store = {anchor.dest[0]: ('agg', 'std::option::Option', 'Some', [('c', ch)])}
        else:
            store = {b.arg_count: ('c', ch)}      # last parameter of the closure is the character
        outs = set()
        for pth in w.run(start, store):
            if pth.end in ('stop', 'return'):
                outs.add(writes(b, pth))
        table[ch] = sorted(outs)
    esc = table[Q] == ["'\\''"]
    raw = all(table[ch] == [ch] for ch in table if ch != Q)
    ctx.ob('T5.escaper', 'Shell::fmt:quote-escaped', esc and raw,
           'Shell::fmt writes, per character (%s form): %s (a quote must become \'\\\'\', every other character itself)' % (unit[0], {k: v for k, v in table.items()}), where=body.where(), cfg=cfg)
    # the frame: the first and the last thing written on every successful path is a single quote
    w = Walker(body, max_paths=400, max_visits=2)
    frames = set()
    for pth in w.run():
        if pth.end != 'return':
            continue
        if pth.ret is UNKNOWN:
            # `f.write_char('\'')` as the tail expression: the value returned IS the result of the last write (Ok when it succeeded)
            rs = [r for r in provenance(body, ['cp', [0, []]], pth.blocks[-1], 'term', through=None) if r.kind != 'call' or r.call.bb in pth.blocks]
            if not (rs and all(r.kind == 'call' and r.call.is_(r'write_char$', r'write_str$') for r in rs)):
                continue
        elif pth.ret[0] != 'agg' or pth.ret[2] != 'Ok':
            continue
        ws = [x for x in [(c, av) for (blk, c), av in zip(pth.calls, pth.callvals) if c.is_(r'write_char$', r'write_str$')] if x[0].body is body]
        vals = [(av[1][1] if (len(av) > 1 and av[1] is not UNKNOWN and av[1][0] == 'c') else '?') for (c, av) in ws]
        frames.add((vals[0] if vals else None, vals[-1] if vals else None, len(vals) >= 2))
    ok = bool(frames) and all(f == (Q, Q, True) for f in frames)
    ctx.ob('T5.escaper', 'Shell::fmt:opening-quote', ok, 'every Ok path of Shell::fmt starts by writing a quote: %s' % sorted(map(str, frames)), where=body.where(), cfg=cfg)
    ctx.ob('T5.escaper', 'Shell::fmt:closing-quote', ok, 'every Ok path of Shell::fmt ends by writing a quote: %s' % sorted(map(str, frames)), where=body.where(), cfg=cfg)

def t6(ctx, cfg, fs):
    body = ctx.look(fs.one(r'complete_gen::.*check_complete$'))
    sw = None
    for i, b in enumerate(body.blocks):
        t = b['term']
        if t['k'] == 'switch' and t['ty'] == 'usize':
            roots = provenance(body, t['op'], i, 'term')
            if any('output_rev' in x.path for x in roots):
                sw = (i, t)
    if not sw:
        raise Broken('check_complete: no switch on output_rev found')
    i, t = sw
    table = {}
    targets = {v: tb for v, tb in t['targets']}
    entry_blocks = set(targets.values()) | {t['otherwise']}
    for v, tb in sorted(targets.items()):
        # first render_* call(s) reachable from the arm without entering another arm
        seen = set(); st = [tb]; found = set()
        while st:
            x = st.pop()
            if x in seen: continue
            seen.add(x)
            c = body.call_at(x)
            if c and c.is_(r'^complete_shell::render_'):
                found.add(c.name.split('::')[-1]); continue
            for s_ in body.succ(x):
                if s_ not in entry_blocks or s_ == tb:
                    st.append(s_)
        table[v] = sorted(found)
    for v, want in DISPATCH.items():
        got = table.get(v)
        ctx.ob('T6.dispatch', 'check_complete:rev%d' % v, got == [want],
               'output revision %d is rendered by %s (expected %s)' % (v, got, want), where=body.where(i), cfg=cfg)
    extra = sorted(set(table) - set(DISPATCH))
    if extra:
        ctx.ob('T6.dispatch', 'check_complete:extra-revisions', False, 'unexpected revisions %s' % extra, where=body.where(i), cfg=cfg)

def t7(ctx, cfg, fs):
    for sh, rev in STUBS.items():
        body = ctx.look(fs.one(r'^complete_run::dump_%s_completer$' % sh))
        sites = fmt_sites(body)
        text = ''.join(s.text() for s in sites)
        m = re.findall(r'--bpaf-complete-rev=(\d+|\{\})', text)
        ok = m == [str(rev)]
        ctx.ob('T7.stubs', 'dump_%s_completer:revision' % sh, ok,
               'the %s stub asks for --bpaf-complete-rev=%s; the dispatch table renders %s output for revision %d' % (sh, m, sh, rev),
               where=body.where(), cfg=cfg)
    # zsh only looks at the FIRST LINE of a file in $fpath: the completer is registered iff that line is the #compdef tag
    body = ctx.look(fs.one(r'^complete_run::dump_zsh_completer$'))
    sites = sorted(fmt_sites(body), key=lambda s_: (0 if all(body.dominates(s_.bb, o.bb) for o in fmt_sites(body)) else 1))
    first = sites[0].text() if sites else ''
    ctx.ob('T7.stubs', 'dump_zsh_completer:compdef-first', first.startswith('#compdef {}') or first.startswith('#compdef '),
           'the zsh stub starts with %r (compinit registers a file only when its first line is the #compdef tag)' % first[:24], where=body.where(), cfg=cfg)
    body = ctx.look(fs.one(r'complete_run::.*ArgScanner.*check_next$'))
    # string comparisons against the style flags
    for sh in STUBS:
        lit = '--bpaf-complete-style-%s' % sh
        hit = None
        for c in body.calls():
            if c.is_(r'PartialEq.*>::eq$', r'str.*eq$'):
                for a in c.args:
                    if any(x.kind == 'const' and x.what == lit for x in provenance(body, a, c.bb, 'term')):
                        hit = c
        if hit is None:
            ctx.ob('T7.stubs', 'check_next:%s' % lit, False, 'no comparison with %r found in check_next' % lit, where=body.where(), cfg=cfg)
            continue
        # the true edge of the switch on the result leads to dump_<sh>_completer first
        tb = hit.target
        t = body.term(tb)
        dumped = None
        if t['k'] == 'switch':
            true_t = t['otherwise']
            seen = set(); st = [true_t]
            while st and dumped is None:
                x = st.pop()
                if x in seen: continue
                seen.add(x)
                c = body.call_at(x)
                if c and c.is_(r'complete_run::dump_'):
                    dumped = c.name.split('::')[-1]
                    break
                # or the stub printer is selected as a function value and called after the match
                refs = [fn for (bb_, fn, _) in fn_refs(body) if bb_ == x and re.search(r'complete_run::dump_', fn)]
                if refs:
                    dumped = refs[0].split('::')[-1]
                    break
                st += [s_ for s_ in body.succ(x)]
        ctx.ob('T7.stubs', 'check_next:%s' % lit, dumped == 'dump_%s_completer' % sh,
               '%r selects %s' % (lit, dumped), where=hit.where(), cfg=cfg)
