"""C10 - asking for help or version always wins and never runs the program (structural clauses).

Decides:
 R return census   run_subparser has exactly the listed kinds of return: Ok (leftover-checked), fallback_to_usage
                   help, passthrough of an inner level's final answer, completion, help/version output, rendered
                   error - in every feature configuration.
 H help before error   the rendered error (Message::render) is reachable only through the Err edge of the
                   help/version lookup (Info::eval) on the same state; Ok needs an empty scope, so an unclaimed help
                   flag never coexists with Ok.
 P payload         the help branch renders render_help(args.path, self.info, inner.meta(), info.meta()) with
                   `detailed` taken from Help(d); Version renders the configured version doc.
 I Info::eval      help is looked up before version; the version parser runs only when a version is configured,
                   and Info::meta lists the version flag under the same condition (sibling agreement).
 A ambiguity       run_inner returns before run_subparser only for the tokenizer's Ambiguity error.
 T combine table   Message::combine_with over all variant pairs: a ParseFailure operand always survives, two Missing
                   merge, otherwise the first non-catchable wins.
 B best effort     ParseAdjacent's failure exit swaps the best-effort state into the caller's state WITH the caller's own scope
                   (symbolic scope tracking of every Err return; found and fixed 0baea63), and ties between failed
                   attempts keep the earlier one (strict comparison), so a help flag outside the attempted block stays visible.
 F final not caught   parse_option / fallback never convert a ParseFailure (shared with C06.K3).
 C command outcome  a matched command returns the (final) outcome of its first inner run; a retry of an adjacent
                   command can only replace a failure by a success (shared with C08).
 D deeper outcome   between alternatives the branch that entered a subcommand decides, success or failure: the help (or
                   error) produced inside a subcommand is never replaced by a shallower alternative (shared with C07/C08).
 K tokenized as flag a lone short help/version flag is tokenized as a flag whatever its character width (no byte-length
                   test decides "single character"), so a non-ASCII replacement help short is still recognised (shared with C02).
 S sequential composition (finding)  in construct! a later field's outcome is dropped without inspection when an
                   earlier field fails, so an inner command's help output can be lost (known finding).
 K marker          the item pre-consumed as `--` is the one at the position it was tokenized into (a word index would mark an earlier
                   item - possibly the help flag - as consumed when a word before `--` expands into two items; shared with C09).
 H final first     the help/version lookup of a level is reachable only when the inner parser did not end with a final answer.
 F repetition      a failure inside some/many/.. is returned, never dropped with the values collected so far (an inner command's help would vanish with it).
 B forkers         who may clone the State (see C05).
 A marker first    whether the run is a completion request (and the tokenizer's ambiguity error therefore withheld) is read from the state
                   construct() returned - the shell stubs pass the revision marker as an ITEM, Args knows nothing of it beforehand.
 K registry / B window  run_inner hands the tokenizer the shorts of the parser's own meta plus the help/version shorts as FLAGS (shared with C02); inside
                        adjacent groups the window is the run of present items (shared with C19).
 V version configured  a `version` annotation of the derive API ends up as .version(..) on the OptionParser of the same level, for `options` and for
                        `command` alike (shared with C17).
 B adjacent scope an adjacent command that succeeded gives the caller's scope back (a help flag right of its block stays visible; shared with C05);
                        the progress of a failed attempt is len() before minus len() after on the attempt's own state.
Does not decide: which of several failing fields is reported for a given line."""
import re
from core import *
from dataflow import *
from cfgq import *
from absint import *
from parsers import *
import scopes, c06

LEVEL = 'other'
EXPLANATION = __doc__
ASSUMPTIONS = ['the help item is an ordinary Long/Short item (tokenizer, C02/C09)']
FLOORS = {'R.returns': 6, 'H.help-first': 3, 'P.payload': 3, 'I.info': 4, 'A.ambiguity': 2, 'T.combine': 289, 'B.best-effort': 2, 'F.final': 10, 'S.sequential': 3, 'C.command-outcome': 2, 'D.deeper-outcome': 8, 'K.tokenized-as-flag': 2, 'V.version-configured': 3}

def run(ctx):
    cfgs = ['none', 'all'] if ctx.tier == 'quick' else ['none', 'all', 'ac', 'doc', 'dull']
    ctx.preload(cfgs)
    for cfg in cfgs:
        fs = ctx.facts(cfg)
        ctx.guard(returns, ctx, cfg, fs)
        ctx.guard(info, ctx, cfg, fs)
        import wiring
        ctx.guard(wiring.builders, ctx, cfg, fs, 'I.info', r'^info::OptionParser::<T>::(help_parser|version_parser|version|fallback_to_usage)$')
        ctx.guard(ambiguity, ctx, cfg, fs)
        ctx.guard(combine, ctx, cfg, fs)
        ctx.guard(best_effort, ctx, cfg, fs)
        ctx.guard(final, ctx, cfg, fs)
        import c08
        before = len(ctx.obs)
        ctx.guard(c08.matched, ctx, cfg, fs)
        keep = [o for o in ctx.obs[before:] if o.key.endswith('failure-is-first-outcome') or o.key.endswith('ok-only-from-inner-run')]
        for o in keep: o.rule = 'C.command-outcome'
        ctx.obs = ctx.obs[:before] + keep
        import c07
        import c02
        ctx.guard(c08.keep_only, ctx, lambda: c02.boundaries(ctx, cfg, fs), lambda o: 'byte-length' in o.key or 'width-table' in o.key, 'K.tokenized-as-flag')
        ctx.guard(c08.keep_only, ctx, lambda: c07.table(ctx, cfg, fs), lambda o: 'depth=Less' in o.key or 'depth=Greater' in o.key, 'D.deeper-outcome')
        import c09, c06, consumers, c19, c05
        # a help flag right of an adjacent command's block is seen by the enclosing level: the command gives the caller's scope back (shared with C05)
        ctx.guard(c08.keep_only, ctx, lambda: c05.scope_restore(ctx, cfg, fs), lambda o: 'adjacent-ok-scope' in o.key, 'B.best-effort')
        # the help flag is "an item of its own" only if the tokenizer knows which shorts are flags: registry wiring of run_inner (shared with C02)
        ctx.guard(c08.keep_only, ctx, lambda: c02.registry(ctx, cfg, fs), lambda o: 'run_inner' in o.key, 'K.tokenized-as-flag')
        # ... and inside an adjacent group the window is the run of PRESENT items (an item consumed earlier does not end it)
        ctx.guard(c08.keep_only, ctx, lambda: c19.contiguous(ctx, cfg, fs), lambda o: True, 'B.best-effort')
        ctx.guard(consumers.forkers, ctx, cfg, fs, 'B.best-effort')
        ctx.guard(c08.keep_only, ctx, lambda: c06.k5(ctx, cfg, fs), lambda o: 'failure-is-returned' in o.key or 'loop-stops-on-failure' in o.key, 'F.final')
        ctx.guard(c08.keep_only, ctx, lambda: c09.tokenizer(ctx, cfg, fs), lambda o: 'marker-' in o.key, 'K.tokenized-as-flag')
    ctx.guard(sequential, ctx)
    # "when a version was configured": through the derive API too - a version annotation reaches the OptionParser of the level it is written
    # on, in options mode and in command mode (translation validation members of C17 that carry a version)
    import c17
    ctx.guard(c17.members_agree, ctx, 0, 'V.version-configured', lambda mod, kind, name: 'version' in mod or mod == 'b_docs')

def describe_return(b, i, k, st):
    """classify an assignment to _0 in run_subparser"""
    rv = st['rv']
    if rv['k'] == 'agg' and rv.get('variant') == 'Ok':
        return 'Ok'
    if rv['k'] == 'agg' and rv.get('variant') == 'Err':
        rs = provenance(b, rv['fields'][0], i, k, through=None)
        kinds = set()
        for r in rs:
            if r.kind == 'agg' and r.what == 'error::ParseFailure::Stdout':
                full = provenance(b, r.extra['fields'][1], r.site[0], r.site[1], through=None)
                if all(q.kind == 'const' and q.what is False for q in full):
                    kinds.add('Err(Stdout, short) [fallback_to_usage]')
                else:
                    kinds.add('Err(Stdout) [help/version]')
            elif r.kind == 'agg' and r.what == 'error::ParseFailure::Completion':
                kinds.add('Err(Completion)')
            elif r.kind == 'call' and r.call.is_(r'^error::Message::render$'):
                kinds.add('Err(rendered error)')
            elif r.kind == 'call' and r.call.is_(r'as Parser<.*>>::eval$', r'Parser<T> for std::boxed::Box') and r.path[-2:] == ['as ParseFailure', '0']:
                kinds.add('Err(inner final answer)')
            else:
                kinds.add('Err(%s:%s.%s)' % (r.kind, r.what, '.'.join(r.path)))
        return '|'.join(sorted(kinds))
    return 'other:%s' % rv['k']

def returns(ctx, cfg, fs):
    b = ctx.look(fs.one(r'^info::OptionParser::<T>::run_subparser$'))
    ac = any(c.is_(r'check_complete$') for c in b.calls())
    kinds = {}
    for i, k, st in b.stmts():
        if st['k'] == 'assign' and st['lhs'] == [0, []]:
            kinds.setdefault(describe_return(b, i, k, st), []).append(i)
    for c in b.calls():
        if c.dest == [0, []]:
            kinds.setdefault('call:%s' % c.name, []).append(c.bb)
    want = {'Ok', 'Err(Stdout, short) [fallback_to_usage]', 'Err(inner final answer)', 'Err(Stdout) [help/version]', 'Err(rendered error)'}
    if ac:
        want.add('Err(Completion)')
    for kd, blocks in sorted(kinds.items()):
        ctx.ob('R.returns', 'run_subparser:return:%s' % kd, kd in want, 'run_subparser returns %s%s' % (kd, '' if kd in want else ' -- NOT one of the listed outcomes'), where=b.where(blocks[0]), cfg=cfg)
    missing = want - set(kinds)
    ctx.ob('R.returns', 'run_subparser:all-outcomes-present', not missing, 'every listed outcome kind is still produced (missing: %s)' % sorted(missing), where=b.where(), cfg=cfg)
    # fallback_to_usage: the "no arguments" test is taken BEFORE the inner parser runs (a failure that consumed
    # everything must stay a failure)
    usage_fallback(ctx, cfg, b, 'R.returns')
    # H: rendered error only through Err edge of Info::eval, which runs on the caller's state after the inner parser
    ie = [c for c in b.calls() if c.is_(r'^<info::Info as Parser<info::ExtraParams>>::eval$')]
    rn = [c for c in b.calls() if c.is_(r'^error::Message::render$')]
    ev = [c for c in b.calls() if c.is_(r'Parser<T> for std::boxed::Box.*::eval$', r'as Parser<T>>::eval$') and not c.is_(r'info::Info')]
    if len(ie) != 1 or len(rn) != 1 or len(ev) != 1:
        ctx.ob('H.help-first', 'run_subparser:anchors', False, 'expected one inner eval, one Info::eval and one Message::render, found %d/%d/%d' % (len(ev), len(ie), len(rn)), where=b.where(), cfg=cfg)
        return
    ie, rn, ev = ie[0], rn[0], ev[0]
    sw = switch_on_call(b, ie)
    ok = sw is not None and sw.kind == 'enum'
    errt = None
    if ok:
        errt = sw.target('Err')
        ok = errt is not None and only_via_edge(b, sw.b, errt, rn.bb)
    ctx.ob('H.help-first', 'run_subparser:error-only-after-help-lookup-failed', ok,
           'the error is rendered only on the Err edge of the help/version lookup: %s' % ok, where=rn.where(), cfg=cfg)
    sid = scopes.state_id(b, ie.args[1], ie.bb)
    ctx.ob('H.help-first', 'run_subparser:lookup-on-caller-state', sid == 'args' and b.dominates(ev.bb, ie.bb),
           'the lookup runs on the same state the inner parser left behind (%s), after the inner parser' % (sid,), where=ie.where(), cfg=cfg)
    # the help/version Ok edge produces Stdout on every path (no path from Ok edge to the rendered error or Ok)
    okt = sw.target('Ok') if sw is not None else None
    good = okt is not None
    if good:
        reach = reachable_edges(b, okt)
        good = rn.bb not in reach and not any(x in reach for x in ok_return_blocks(b))
    ctx.ob('H.help-first', 'run_subparser:help-found-is-final', good, 'once the help/version flag is found neither a value nor an error can be returned: %s' % good, where=ie.where(), cfg=cfg)
    # an inner answer that is already final (Message::ParseFailure: the output or the rendered error of a subcommand that was
    # entered) is handed on before this level looks for ITS OWN help/version flag: the lookup is reachable only over an edge that
    # says "the inner result is Ok" or "its message is not ParseFailure"
    res_roots = lambda rs: bool(rs) and all(r.kind == 'call' and r.call.bb == ev.bb for r in rs)
    not_final = []
    for s_ in switches(b):
        if s_.kind != 'enum':
            continue
        rs = provenance(b, s_.place, s_.discr_site[0], s_.discr_site[1], through=None)
        if not res_roots(rs):
            continue
        if s_.enum.endswith('result::Result') and all(not r.path for r in rs):
            not_final.append((s_.b, s_.target('Ok')))
        elif s_.enum == 'error::Message' and s_.target('ParseFailure') is not None:
            not_final += [(s_.b, t) for o, t in s_.edges.items() if o != 'ParseFailure' and t != s_.target('ParseFailure')]
    ok = bool(not_final) and ie.bb not in reachable_edges(b, 0, removed_edges=not_final)
    ctx.ob('H.help-first', 'run_subparser:inner-final-answer-precedes-lookup', ok,
           'the help/version lookup of this level is reachable only when the inner parser did not end with a final answer (%d deciding edge(s)): %s' % (len(not_final), ok), where=ie.where(), cfg=cfg)
    # P payload
    rh = sites_through_helpers(fs, b, r'^meta_help::render_help$')
    for c, via in rh:
        at = c if via is None else via[0]        # the position in run_subparser
        a = [roots_at(fs, b, c, via, x) for x in c.args[:4]]
        d = [sorted({'%s:%s.%s' % (r.kind, r.what if r.kind != 'call' else short(r.call.name), '.'.join(r.path)) for r in rs}) for rs in a]
        ok = (all(r.kind == 'param' and r.what == 'args' and r.path == ['path'] for r in a[0]) and all(r.kind == 'param' and r.what == 'self' and r.path == ['info'] for r in a[1])
              and all(r.kind == 'call' and r.call.is_(r'::meta$') and not r.call.is_(r'info::Info') for r in a[2]) and all(r.kind == 'call' and r.call.is_(r'info::Info as Parser.*::meta$') for r in a[3]))
        ok &= all(bool(x) for x in a)
        for r in a[2]:
            if r.kind == 'call':
                via2 = via if (via is not None and r.call.body is via[1]) else None
                ok &= all(q.kind == 'param' and q.what == 'self' and q.path == ['inner'] for q in roots_at(fs, b, r.call, via2, r.call.args[0]))
        tag = 'fallback' if errt is None or not only_via_edge(b, sw.b, okt, at.bb) else 'help'
        ctx.ob('P.payload', 'run_subparser:render_help-args:%s' % tag, ok, 'render_help(%s) describes this level: path of this state, own info, own parser meta, own help/version meta' % d, where=at.where(), cfg=cfg)
    # detailed comes from Help(d)
    det = False
    for i, k, st in b.stmts():
        if st['k'] == 'assign' and st['rv']['k'] == 'agg' and st['rv'].get('adt') == 'error::ParseFailure' and st['rv'].get('variant') == 'Stdout':
            rs = provenance(b, st['rv']['fields'][1], i, k, through=None)
            if any(r.kind == 'call' and r.call.bb == ie.bb and r.path == ['as Ok', '0', 'as Help', '0'] for r in rs):
                det = True
    ctx.ob('P.payload', 'run_subparser:detailed-from-help', det, 'the full/short switch of the help output comes from ExtraParams::Help(d): %s' % det, where=b.where(), cfg=cfg)

def usage_fallback(ctx, cfg, b, rule):
    ev = [c for c in b.calls() if c.is_(r'Parser<T> for std::boxed::Box.*::eval$', r'as Parser<T>>::eval$') and not c.is_(r'info::Info')]
    fb = [i for i, k, st in b.stmts() if st['k'] == 'assign' and st['rv']['k'] == 'agg' and st['rv'].get('adt') == 'error::ParseFailure' and st['rv'].get('variant') == 'Stdout'
          and all(q.kind == 'const' and q.what is False for q in provenance(b, st['rv']['fields'][1], i, k, through=None))]
    ok = bool(fb) and len(ev) == 1
    tests = []
    if ok:
        for sw in switches(b):
            if sw.kind == 'bool' and all(only_via_edge(b, sw.b, sw.target(True), i) for i in fb):
                for r in sw.roots:
                    if r.kind == 'call' and r.call.is_(r'State::is_empty$', r'State::len$'):
                        tests.append(r.call)
        ok = bool(tests) and all(b.dominates(t.bb, ev[0].bb) and not b.reaches(ev[0].bb, [t.bb]) for t in tests)
    ctx.ob(rule, 'run_subparser:usage-fallback-tests-pristine-state', ok,
           'the fallback_to_usage help is guarded by an emptiness test of the argument list taken before the inner parser ran (%d test(s)): %s' % (len(tests), ok), where=b.where(fb[0]) if fb else b.where(), cfg=cfg)

    # ... and only replaces a FAILURE: when the inner parser succeeded (e.g. everything came from the environment or from
    # defaults) an empty line yields the value, not the usage text
    if len(ev) == 1:
        def cm(w, c, store):
            if c.bb == ev[0].bb:
                return ('agg', 'std::result::Result', 'Ok', [('c', '<value>')])
            return None
        cm.first = True
        w = Walker(b, call_model=cm, max_paths=3000, max_visits=2)
        outs = set()
        # the fallback site: where the short usage is built BEFORE the help/version lookup (version output is short too)
        lookups = [c for c in b.calls() if c.is_(r'^<info::Info as Parser<info::ExtraParams>>::eval$')]
        site = {i for i in fb if not any(b.reaches(c.bb, [i]) for c in lookups)}
        try:
            for p_ in w.run():
                if site & set(p_.blocks):
                    outs.add('Err(Stdout:usage-fallback)'); continue
                if p_.end != 'return' or p_.ret is UNKNOWN or p_.ret[0] != 'agg':
                    outs.add('?'); continue
                if p_.ret[2] == 'Ok':
                    outs.add('Ok')
                else:
                    e = p_.ret[3][0] if p_.ret[3] else UNKNOWN
                    kind = e[2] if (e is not UNKNOWN and e[0] == 'agg') else '?'
                    outs.add('Err(%s)' % kind)
        except Broken:
            outs.add('?')
        ok2 = 'Err(Stdout:usage-fallback)' not in outs and 'Ok' in outs and bool(site)
        # Stdout may still legitimately appear for --help/--version, which are only looked up after a failure: with a successful
        # inner parser and nothing left over neither can happen, so Stdout must be absent altogether
        ctx.ob(rule, 'run_subparser:usage-fallback-only-after-failure', ok2 and bool(outs),
               'when the inner parser succeeds run_subparser returns %s: the usage text (Stdout) never replaces a value' % sorted(outs), where=b.where(), cfg=cfg)

def some_edges(b, field):
    """(block, target) edges taken only when `self.<field>` is Some: the Some arm of a match / if-let on it, or the true
    edge of `self.<field>.is_some()` (false edge of is_none())"""
    out = []
    for sw in switches(b):
        if sw.kind == 'enum' and any(r.kind == 'param' and r.what == 'self' and r.path[:1] == [field] for r in provenance(b, sw.place, sw.discr_site[0], sw.discr_site[1])):
            if sw.target('Some') is not None:
                out.append((sw.b, sw.target('Some')))
        elif sw.kind == 'bool':
            for r in sw.roots:
                if r.kind == 'call' and not r.path and r.call.is_(r'Option::<.*>::is_(some|none)$') and \
                        any(q.kind == 'param' and q.what == 'self' and q.path[:1] == [field] for q in provenance(b, r.call.args[0], r.call.bb, 'term')):
                    out.append((sw.b, sw.target(r.call.is_(r'is_some$'))))
    return out

def info(ctx, cfg, fs):
    b = ctx.look(fs.one(r'^<info::Info as Parser<info::ExtraParams>>::eval$'))
    sites = info_parser_sites(b)
    hp = sites['help']; vp = sites['version']
    evs = result_calls(b)
    def built_by(c):
        rs = provenance(b, c.args[0], c.bb, 'term', through=None)
        return {('help' if any(r.call.bb == x.bb for x in hp) else 'version' if any(r.call.bb == x.bb for x in vp) else '?') for r in rs if r.kind == 'call'}
    hev = [c for c in evs if built_by(c) == {'help'}]; vev = [c for c in evs if built_by(c) == {'version'}]
    ok = bool(hev) and bool(vev) and all(b.dominates(hev[0].bb, v.bb) for v in vev)
    ctx.ob('I.info', 'Info::eval:help-before-version', ok, 'the help flag is looked up before the version flag: %s' % ok, where=b.where(), cfg=cfg)
    # version lookup only under self.version Some
    vsw = some_edges(b, 'version')
    ok = bool(vsw) and all(any(only_via_edge(b, a_, t_, v.bb) for (a_, t_) in vsw) for v in vev) and bool(vev)
    ctx.ob('I.info', 'Info::eval:version-only-when-configured', ok, 'the version parser is evaluated only when a version was configured (otherwise --version stays an ordinary unknown flag): %s' % ok, where=b.where(), cfg=cfg)
    # Ok(Help) only via help Ok edge ; Ok(Version) only via version Ok edge
    good = True
    for i, k, st in b.stmts():
        if st['k'] == 'assign' and st['rv']['k'] == 'agg' and st['rv'].get('adt') == 'info::ExtraParams':
            v = st['rv']['variant']
            src = hev if v == 'Help' else vev
            g = False
            for c in src:
                fl = classify_result(b, c)
                if any(only_via_edge(b, sb, tb, i) for (sb, tb) in fl.ok_edges):
                    g = True
            good &= g
    ctx.ob('I.info', 'Info::eval:outcome-needs-flag', good, 'Help/Version is answered only on the success edge of the corresponding flag lookup: %s' % good, where=b.where(), cfg=cfg)
    m = ctx.look(fs.one(r'^<info::Info as Parser<info::ExtraParams>>::meta$'))
    vm = info_parser_sites(m)['version']
    msw = some_edges(m, 'version')
    ok = bool(vm) and bool(msw) and all(any(only_via_edge(m, a_, t_, c.bb) for (a_, t_) in msw) for c in vm)
    ctx.ob('I.info', 'Info::meta:version-listed-iff-configured', ok, 'Info::meta lists the version flag under the same condition as Info::eval accepts it: %s' % ok, where=m.where(), cfg=cfg)

def ambiguity(ctx, cfg, fs):
    b = ctx.look(fs.one(r'^info::OptionParser::<T>::run_inner$'))
    rs_ = [c for c in b.calls() if c.is_(r'OptionParser::<T>::run_subparser$')]
    early = [(i, k, st) for i, k, st in b.stmts() if st['k'] == 'assign' and st['lhs'] == [0, []]]
    ok = len(rs_) == 1 and rs_[0].dest == [0, []]
    ctx.ob('A.ambiguity', 'run_inner:delegates', ok, 'run_inner returns the outcome of run_subparser unchanged: %s' % ok, where=b.where(), cfg=cfg)
    cons = [c for c in b.calls() if c.is_(r'State::construct$')]
    # whether this run is a completion request is known only once the tokenizer has seen the items (the shell stubs pass the
    # revision marker AS an item): the test that lets the ambiguity error through reads the state construct() returned
    rd = [c for c in b.calls() if c.is_(r'^error::Message::render$')]
    src = set(); late = True
    if rd and cons:
        for (a_, s_) in b.transitive_control_deps(rd[0].bb):
            sw_ = Switch(b, a_)
            if sw_.kind != 'bool':
                continue
            def walk(rs, depth=0):
                for r in rs:
                    if r.kind == 'call' and r.call.is_(r'Option::<.*>::is_(some|none)$', r'as std::ops::Not>::not$') and depth < 4:
                        walk(provenance(b, r.call.args[0], r.call.bb, 'term', through=None), depth + 1)
                    elif r.kind == 'un' and depth < 4:
                        walk(provenance(b, r.extra['a'], r.site[0], r.site[1], through=None), depth + 1)
                    elif r.kind == 'call':
                        src.add(short(r.call.name))
                        nonlocal late
                        late &= b.dominates(cons[0].bb, r.call.bb) and any(q.kind == 'call' and q.call.bb == cons[0].bb for q in provenance(b, r.call.args[0], r.call.bb, 'term')) if r.call.args else False
                    elif r.kind == 'const':
                        src.add('const:%s' % r.what)
                    else:
                        src.add('%s:%s' % (r.kind, r.what)); late = False
            walk(sw_.roots)
    ctx.ob('A.ambiguity', 'run_inner:completion-known-after-tokenizing', bool(rd) and late and all(x.endswith('State::comp_ref') or x == 'const:True' for x in src),
           'the ambiguity error is let through depending on %s, read from the state the tokenizer returned: %s' % (sorted(src), late), where=b.where(), cfg=cfg)
    good = bool(early) and bool(cons)
    for (i, k, st) in early:
        # must be Err(render(msg)) with msg from the tokenizer's err out-parameter
        rv = st['rv']
        g = False
        if rv['k'] == 'agg' and rv.get('variant') == 'Err':
            rs = provenance(b, rv['fields'][0], i, k, through=None)
            g = bool(rs) and all(r.kind == 'call' and r.call.is_(r'^error::Message::render$') for r in rs)
            for r in rs:
                if r.kind == 'call':
                    who = provenance(b, r.call.args[0], r.call.bb, 'term', through=None)
                    # the message comes from the local handed to construct as &mut err
                    errl = set()
                    for c in cons:
                        for q in provenance(b, c.args[3], c.bb, 'term', through=None):
                            errl.add(q.what if q.kind != 'agg' else 'agg')
                    g &= all('as Some' in q.path for q in who)
        good &= g
    ctx.ob('A.ambiguity', 'run_inner:early-return-is-tokenizer-error', good, 'the only return of run_inner before run_subparser renders the error reported by the tokenizer (Ambiguity): %s' % good, where=b.where(), cfg=cfg)
    # the tokenizer reports only Ambiguity
    cons_msgs = set()
    for fn in ('args::inner::State::construct', 'args::disambiguate_short'):
        x = fs.body(fn)
        for i, k, st in x.stmts():
            if st['k'] == 'assign' and st['rv']['k'] == 'agg' and st['rv'].get('adt') == 'error::Message':
                cons_msgs.add(st['rv']['variant'])
    ctx.ob('A.ambiguity', 'tokenizer:only-ambiguity', cons_msgs == {'Ambiguity'}, 'the tokenizer can report only %s' % sorted(cons_msgs), where=b.where(), cfg=cfg)

def combine(ctx, cfg, fs):
    b = ctx.look(fs.one(r'^error::Message::combine_with$'))
    cc = fs.one(r'^error::Message::can_catch$')
    enum, table = enum_const_table(cc)
    variants = fs.variants('error::Message')
    P = {b.name_of(i): i for i in range(1, b.arg_count + 1)}
    if 'self' not in P or 'other' not in P:
        raise Broken('combine_with: parameters not found')
    for va in variants:
        for vb in variants:
            vo = {}
            def atom(w, sw, store, va=va, vb=vb):
                if sw.kind == 'enum' and sw.enum == 'error::Message':
                    rs = provenance(b, sw.place, sw.discr_site[0], sw.discr_site[1], through=None)
                    who = set()
                    for r in rs:
                        if r.kind == 'param' and r.what == 'self': who.add('a')
                        elif r.kind == 'param' and r.what == 'other': who.add('b')
                        elif r.kind == 'agg' and r.what == 'tuple':
                            # (self, other) tuple: field index in path
                            pass
                    pl = sw.place
                    flds = place_fields(pl)
                    if who == {'a'}: return va
                    if who == {'b'}: return vb
                    # discriminant of a tuple field: _x.0 / _x.1
                    if flds[:1] == ['0']: return va
                    if flds[:1] == ['1']: return vb
                return None
            def cm(w, c, store, va=va, vb=vb):
                if c.is_(r'^error::Message::can_catch$'):
                    rs = provenance(b, c.args[0], c.bb, 'term', through=None)
                    for r in rs:
                        if (r.kind == 'param' and r.what == 'self') or r.path[:1] == ['0']: return ('c', table[va])
                        if (r.kind == 'param' and r.what == 'other') or r.path[:1] == ['1']: return ('c', table[vb])
                    return None
                return ('callres', c.name, c.bb)
            w = Walker(b, atom=atom, call_model=cm)
            paths = [p for p in w.run() if p.end == 'return']
            outs = set()
            for p in paths:
                # what is returned: provenance of _0 at the return along this path: find last assignment block to _0 in path
                src = None
                for x in reversed(p.blocks):
                    for k, st in reversed(list(enumerate(b.blocks[x]['stmts']))):
                        if st['k'] == 'assign' and st['lhs'] == [0, []]:
                            rv = st['rv']
                            if rv['k'] == 'agg' and rv.get('adt') == 'error::Message':
                                src = 'new ' + rv['variant']
                            else:
                                rs = provenance(b, rv['op'], x, k, through=None) if rv['k'] == 'use' else []
                                s_ = set()
                                for r in rs:
                                    if r.kind == 'param': s_.add('a' if r.what == 'self' else 'b')
                                    elif r.path[:1] == ['0']: s_.add('a')
                                    elif r.path[:1] == ['1']: s_.add('b')
                                    elif r.kind == 'agg' and r.what == 'tuple': s_.add('tuple')
                                    else: s_.add('?')
                                src = '|'.join(sorted(s_))
                            break
                    if src: break
                outs.add(src)
            if va == 'ParseFailure': want = {'a'}
            elif vb == 'ParseFailure': want = {'b'}
            elif va == 'Missing' and vb == 'Missing': want = {'new Missing'}
            elif table[va]: want = {'b'}
            else: want = {'a'}
            # provenance through the (self, other) tuple may name both operands; accept exact or superset containing the wanted one only if single
            ctx.ob('T.combine', 'combine_with:%s+%s' % (va, vb), outs == want,
                   'combine_with(%s, %s) returns %s (expected %s: final output first, then merged Missing, then the first non-catchable)' % (va, vb, sorted(map(str, outs)), sorted(want)), where=b.where(), cfg=cfg)

def best_effort(ctx, cfg, fs):
    b = ctx.look(fs.one(r'^<structs::ParseAdjacent<P> as Parser<T>>::eval$'))
    errs = err_return_blocks(b)
    swaps = [c for c in b.calls() if c.is_(r'^std::mem::swap::<args::inner::State>$') and 'args' in [scopes.state_id(b, a, c.bb) for a in c.args]]
    ok = bool(errs) and all(any(b.dominates(s.bb, e) and not any(o in reachable_edges(b, s.bb) for o in ok_return_blocks(b)) for s in swaps) for e in errs)
    ctx.ob('B.best-effort', 'ParseAdjacent::eval:failure-hands-back-state', ok, 'the failure exit of an adjacent group swaps its best-effort state into the caller\'s state (items it did not consume, such as the help flag, stay visible): %s' % ok, where=b.where(), cfg=cfg)

    # ... and with the caller's own scope: the attempts run on scopes narrowed to `start..end` (and trimmed to the adjacent
    # block); if that narrowing came back with the state, a help flag typed outside the attempted block would be
    # invisible to the help lookup of run_subparser
    w_, eps = scopes.track(b, want='Err')
    fin = {}
    for p_ in eps:
        fin.setdefault(repr(p_.store.get(('sc', 'args'))), []).append(p_)
    for k_, v_ in sorted(fin.items()):
        ctx.ob('B.best-effort', 'ParseAdjacent::eval:failure-scope:%s' % k_, k_ == repr(('entry',)),
               'ParseAdjacent::eval: %d failure path(s) return with the caller\'s scope = %s (must be the scope at entry, so that items outside the attempted block stay visible)' % (len(v_), k_), where=b.where(v_[0].blocks[-1]), cfg=cfg)
    if not eps:
        raise Broken('ParseAdjacent::eval: no Err path found')
    # ties keep the EARLIER attempt: its state has the widest remaining scope (start..end of the enclosing scope), so a
    # help flag typed between two equally incomplete occurrences of the group stays visible to the help lookup
    upd = [c for c in b.calls() if c.is_(r'^std::mem::swap::<args::inner::State>$') and 'args' not in [scopes.state_id(b, a, c.bb) for a in c.args]]
    strict = False; detail = 'no best-state update found'
    for c in upd:
        for (a, s_) in b.control_deps().get(c.bb, ()):
            sw = Switch(b, a)
            if sw.kind != 'bool':
                continue
            for r in sw.roots:
                if r.kind == 'bin' and r.extra['op'] in ('Gt', 'Lt', 'Ge', 'Le'):
                    ka = provenance(b, r.extra['a'], r.site[0], r.site[1], through=None); kb = provenance(b, r.extra['b'], r.site[0], r.site[1], through=None)
                    a_new = bool(ka) and all(q.kind == 'bin' and q.extra['op'].startswith('Sub') for q in ka)
                    b_new = bool(kb) and all(q.kind == 'bin' and q.extra['op'].startswith('Sub') for q in kb)
                    # which outcome means "strictly more than the best so far"
                    want = None
                    if a_new and not b_new: want = {'Gt': True, 'Le': False}.get(r.extra['op'])
                    if b_new and not a_new: want = {'Lt': True, 'Ge': False}.get(r.extra['op'])
                    detail = '%s(%s, %s)' % (r.extra['op'], 'consumed' if a_new else 'best', 'consumed' if b_new else 'best')
                    if want is not None and s_ == sw.target(want):
                        strict = True
    # what "consumed" means: items present in the attempt's window before it ran minus items present afterwards - both counted on the
    # attempt's own state (a count taken on the caller's state includes everything LEFT of the window: later starts would look better)
    meas = []
    for c in upd:
        for (a, s_) in b.control_deps().get(c.bb, ()):
            sw = Switch(b, a)
            for r in (sw.roots if sw.kind == 'bool' else []):
                if r.kind == 'bin' and r.extra['op'] in ('Gt', 'Lt', 'Ge', 'Le'):
                    for side in ('a', 'b'):
                        for q in provenance(b, r.extra[side], r.site[0], r.site[1], through=None):
                            if q.kind == 'bin' and q.extra['op'].startswith('Sub'):
                                ids = []
                                for k_ in ('a', 'b'):
                                    rs = provenance(b, q.extra[k_], q.site[0], q.site[1], through=None)
                                    ids.append({scopes.state_id(b, z.call.args[0], z.call.bb) if z.kind == 'call' and z.call.is_(r'^args::inner::State::len$') else '?' for z in rs})
                                meas.append(ids)
    same = bool(meas) and all(len(i0) == 1 and i0 == i1 and '?' not in i0 and 'args' not in i0 for (i0, i1) in meas)
    ctx.ob('B.best-effort', 'ParseAdjacent::eval:consumed-measured-on-the-attempt', same,
           'the progress of a failed attempt is len() before minus len() after, both on the attempt\'s own state (%s)' % [[sorted(map(str, x)) for x in m_] for m_ in meas], where=b.where(), cfg=cfg)
    ctx.ob('B.best-effort', 'ParseAdjacent::eval:ties-keep-earlier-attempt', strict and len(upd) == 1,
           'the best-effort state is replaced only by an attempt that consumed STRICTLY more (%s): %s' % (detail, strict), where=b.where(), cfg=cfg)

def final(ctx, cfg, fs):
    cc = fs.one(r'^error::Message::can_catch$')
    enum, table = enum_const_table(cc)
    ctx.ob('F.final', 'can_catch:ParseFailure', table.get('ParseFailure') is False, 'can_catch(ParseFailure) = %s' % table.get('ParseFailure'), where=cc.where(), cfg=cfg)
    before = len(ctx.obs)
    c06.k3(ctx, cfg, fs, table)
    keep = [o for o in ctx.obs[before:] if 'ParseFailure' in o.key]
    for o in keep:
        o.rule = 'F.final'
    ctx.obs = ctx.obs[:before] + keep

def sequential(ctx):
    """construct!: what happens to the result of a later field when an earlier field's `?` returns"""
    wfs = load_witness('shapes')
    for name in ('named__a_b_c', 'tuple__a_b', 'pos__a_b'):
        clo = wfs.body(name + '::{closure#0}')
        evals = [c for c in clo.calls() if c.is_(r'bpaf::Parser<.*>>::eval$')]
        dropped = []
        for c in evals[1:]:
            # is there a path from this eval to a return on which its result is never examined (Try::branch)?
            brs = [x.bb for x in clo.calls() if x.is_(r'Try>::branch$') and any(r.kind == 'call' and r.call.bb == c.bb for r in provenance(clo, x.args[0], x.bb, 'term', through=None))]
            reach = reachable_edges(clo, c.bb, avoid=brs)
            if any(r in reach for r in clo.return_blocks()):
                dropped.append(c)
        ctx.ob('S.sequential', 'construct!:%s:later-outcome-dropped' % name, not dropped,
               'construct! (%s): when an earlier field fails, the outcome of %d later field(s) is dropped without being examined - a later subcommand\'s help output (ParseFailure) is lost and the earlier field\'s error is reported instead' % (name, len(dropped)),
               where=clo.where(), cfg='witness')
