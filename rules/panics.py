"""Panic census: every panic-capable site of the crate with a line-number-free key."""
import re
from core import *
from dataflow import *
from cfgq import *
from parsers import outer, short

PANIC_CALLS = [
    (r'^core::panicking::|^std::rt::(begin_panic|panic_fmt)|unreachable_display|core::option::(unwrap_failed|expect_failed)|core::result::unwrap_failed', 'panic'),
    (r'Option::<.*>::(unwrap|expect)$', 'unwrap'),
    (r'Result::<.*>::(unwrap|expect|unwrap_err|expect_err)$', 'unwrap'),
    (r'as std::ops::Index<.*>>::index$|as std::ops::IndexMut<.*>>::index_mut$|core::slice::index::<impl .*>::index(_mut)?$|core::str::traits::<impl .* for str>::index(_mut)?$|std::array::<impl .* for \[T; N\]>::index(_mut)?$|string::<impl .* for std::string::String>::index', 'index'),
    (r'^std::process::(exit|abort)$', 'exit'),
    (r'Vec::<.*>::(remove|swap_remove|insert|drain|split_off)$', 'vec-op'),
    (r'String::(remove|insert|insert_str|drain|split_off|replace_range)$', 'string-op'),
    (r'String::truncate$|Vec::<.*>::truncate$', 'truncate'),
    (r'slice::<impl \[T\]>::(split_at|split_at_mut|copy_from_slice|swap|chunks|chunks_exact|windows|rotate_left|rotate_right)$|str::<impl str>::split_at$', 'slice-op'),
    (r'RefCell<.*>::(borrow|borrow_mut)$', 'refcell'),
]

def _d(body, op, bb, idx, depth=0):
    """short provenance descriptor of an operand"""
    if op is None:
        return '?'
    rs = provenance(body, op, bb, idx, through=DEFAULT_THROUGH)
    out = set()
    for r in rs:
        p = ('.' + '.'.join(x for x in r.path if not x.isdigit() or True)) if r.path else ''
        if r.kind == 'const':
            v = r.what
            out.add('const:%s' % (repr(v)[:24]))
        elif r.kind == 'param':
            out.add('param:%s%s' % (r.what, p))
        elif r.kind == 'upvar':
            out.add('upvar:%s%s' % (r.what, p))
        elif r.kind == 'call':
            nm = re.sub(r'<[^<>]*>', '', short(r.call.name))
            nm = re.sub(r'<[^<>]*>', '', nm)
            out.add('call:%s%s' % (nm.split('::')[-2] + '::' + nm.split('::')[-1] if '::' in nm else nm, p))
        elif r.kind == 'bin':
            if depth < 2:
                a = _d(body, r.extra['a'], r.site[0], r.site[1], depth + 1); b = _d(body, r.extra['b'], r.site[0], r.site[1], depth + 1)
                out.add('%s(%s,%s)%s' % (r.extra['op'].replace('WithOverflow', ''), a, b, p if p not in ('.0',) else ''))
            else:
                out.add('bin:%s' % r.extra['op'].replace('WithOverflow', ''))
        elif r.kind == 'un':
            out.add('un:%s' % r.extra['op'])
        elif r.kind == 'agg':
            out.add('agg:%s' % r.what.split('::')[-1])
        else:
            out.add('%s:%s' % (r.kind, str(r.what)[:20]))
    s = '|'.join(sorted(out))
    return s[:160]

class Site:
    def __init__(self, body, bb, kind, what, desc, span):
        self.body = body; self.bb = bb; self.kind = kind; self.what = what; self.desc = desc; self.span = span
    @property
    def fn(self):
        return outer(self.body.path)
    @property
    def key(self):
        return '%s|%s|%s|%s' % (short(self.fn), self.kind, self.what, self.desc)
    def where(self):
        return '%s (%s)' % (self.body.path, span_str(self.span))

def census(fs):
    sites = []
    for b in fs.bodies.values():
        for i, blk in enumerate(b.blocks):
            if blk['cleanup']:
                continue
            t = blk['term']
            if t['k'] == 'assert':
                if t['msg'] in ('NullPointerDereference', 'MisalignedPointerDereference'):
                    continue
                if t['msg'] == 'Overflow' or t['msg'].startswith('Overflow'):
                    ops = t.get('ops', [])
                    d = ','.join(_d(b, o, i, 'term') for o in ops)
                    sites.append(Site(b, i, 'overflow', t['detail'] or t['msg'], d, t['span']))
                elif t['msg'] == 'BoundsCheck':
                    ops = t.get('ops', [])
                    d = 'len=%s,index=%s' % (_d(b, ops[0], i, 'term'), _d(b, ops[1], i, 'term')) if len(ops) == 2 else '?'
                    sites.append(Site(b, i, 'bounds', 'BoundsCheck', d, t['span']))
                else:
                    sites.append(Site(b, i, 'assert', t['msg'], ','.join(_d(b, o, i, 'term') for o in t.get('ops', [])), t['span']))
            elif t['k'] == 'call':
                c = Call(b, i, t)
                hit = None
                for pat, kind in PANIC_CALLS:
                    if c.is_(pat):
                        hit = kind; break
                if hit is None:
                    if t.get('t') is None:
                        hit = 'diverge'
                    else:
                        continue
                nm = re.sub(r'<[^<>]*>', '', c.name); nm = re.sub(r'<[^<>]*>', '', nm)
                nm = '::'.join(nm.split('::')[-2:])
                if hit == 'panic' or hit == 'diverge':
                    # message text if constant
                    d = ','.join(_d(b, a, i, 'term') for a in c.args[:1])
                else:
                    d = ','.join(_d(b, a, i, 'term') for a in c.args)
                if hit == 'slice-op':
                    nm = ('str' if 'impl str' in c.name else 'slice') + '::' + nm.split('::')[-1]
                if hit == 'index':
                    m = re.search(r'Index(?:Mut)?<([^>]*)>', c.full)
                    self_ty = c.callee.get('gargs', ['?'])[0] if c.callee.get('gargs') else '?'
                    nm = 'index[%s]' % re.sub(r'std::(ops|string|vec)::', '', self_ty)[:60]
                sites.append(Site(b, i, hit, nm, d, c.span))
    return sites
