"""TABLE template: abstract evaluation of a (nearly) loop-free function over a finite domain.

The CFG is followed with a small abstract store: locals holding known constants, symbolic aggregates
(`Result::Ok(Option::None)` ...), and assumptions about the enum variant stored at a place.  Switches
whose subject is known follow one edge; a caller-supplied `atom` callback may decide others (e.g. "this
boolean is the parameter `catch`, which is true in this table row"); anything else forks.  This is
dataflow over a finite lattice - no code of the repository is executed and no solver is involved."""
import re
from core import *
from dataflow import *
from cfgq import *

UNKNOWN = ('?',)

def pkey(place):
    """canonical key of a place ignoring derefs"""
    return (place[0], tuple(place_fields(place)))

class Path:
    def __init__(self):
        self.calls = []      # (bb, Call)
        self.callvals = []   # abstract argument values of each call, parallel to .calls
        self.blocks = []
        self.ret = None      # abstract value of _0 at return
        self.end = None      # 'return' | 'diverge' | 'loop' | 'unreachable'
        self.forks = []      # (bb, outcome) decided by forking (unknown switches)
        self.writes = []     # (bb, place_str, abstract value)
        self.store = None    # abstract store at the return
        self.assigns = []    # (bb, local, abstract value) for whole-local assignments to named locals
    def called(self, *pats):
        return [c for (_, c) in self.calls if c.is_(*pats)]

class Walker:
    def __init__(self, body, atom=None, call_model=None, variant_of=None, max_paths=4000, max_visits=2):
        self.body = body
        self.atom = atom              # f(walker, Switch, store) -> outcome key of sw.edges or None
        self.call_model = call_model  # f(walker, Call, store) -> abstract value or None
        self.variant_of = variant_of or {}   # pkey -> variant name (assumptions)
        self.max_paths = max_paths; self.max_visits = max_visits
        self._depth = 0
        self.stop = set()             # blocks at which a walk ends (path.end = 'stop') when reached after the start
        self._sw = {}
        self.paths = []

    def switch(self, b):
        if b not in self._sw:
            self._sw[b] = Switch(self.body, b)
        return self._sw[b]

    def opval(self, op, store):
        if op[0] == 'c':
            c = op[1]
            if 'v' in c: return ('c', c['v'])
            if 'fn' in c: return ('fn', c['fn'])
            if c.get('zst'): return ('c', ())
            return UNKNOWN
        p = op[1]
        if not p[1]:
            v = store.get(p[0], UNKNOWN)
            if v is UNKNOWN and pkey(p) in self.variant_of:
                # an assumption about the variant held by this local: visible to code that reads it through a reference
                return ('agg', 'assumed', self.variant_of[pkey(p)], [])
            return v
        # a place assumed to hold a field-less variant (e.g. `self.comp` is None) reads as that variant
        if self.variant_of.get(pkey(p)) == 'None':
            return ('agg', 'std::option::Option', 'None', [])
        # field of a known aggregate
        base = store.get(p[0], UNKNOWN)
        v = base
        for pr in p[1]:
            if pr[0] == '*':
                continue
            if v is UNKNOWN or v[0] != 'agg':
                return UNKNOWN
            if pr[0] == 'dc':
                if v[2] != pr[1]:
                    return UNKNOWN
            elif pr[0] == 'f':
                if pr[1] < len(v[3]):
                    v = v[3][pr[1]]
                else:
                    return UNKNOWN
            elif pr[0] == '*':
                continue
            else:
                return UNKNOWN
        return v

    def rvalue(self, rv, store):
        k = rv['k']
        if k == 'use':
            return self.opval(rv['op'], store)
        if k == 'agg':
            fields = [self.opval(f, store) for f in rv['fields']]
            return ('agg', rv.get('adt', rv.get('closure', rv['agg'])), rv.get('variant'), fields)
        if k == 'un' and rv['op'] == 'Not':
            a = self.opval(rv['a'], store)
            if a[0] == 'c' and isinstance(a[1], bool):
                return ('c', not a[1])
            return UNKNOWN
        if k == 'bin':
            a = self.opval(rv['a'], store); b = self.opval(rv['b'], store)
            if a[0] == 'c' and b[0] == 'c':
                try:
                    op = rv['op']
                    if op == 'Eq': return ('c', a[1] == b[1])
                    if op == 'Ne': return ('c', a[1] != b[1])
                    if op in ('BitAnd',) and isinstance(a[1], bool): return ('c', a[1] and b[1])
                    if op in ('BitOr',) and isinstance(a[1], bool): return ('c', a[1] or b[1])
                    if op == 'BitXor' and isinstance(a[1], bool): return ('c', a[1] != b[1])
                    if op == 'Lt': return ('c', a[1] < b[1])
                    if op == 'Le': return ('c', a[1] <= b[1])
                    if op == 'Gt': return ('c', a[1] > b[1])
                    if op == 'Ge': return ('c', a[1] >= b[1])
                except TypeError:
                    return UNKNOWN
            return UNKNOWN
        if k == 'discr':
            key = pkey(rv['place'])
            if key in self.variant_of:
                return ('variant', self.variant_of[key])
            base = self.opval(['cp', rv['place']], store)
            if base is not UNKNOWN and base[0] == 'agg' and base[2]:
                return ('variant', base[2])
            return ('discr-of', key)
        if k in ('ref', 'rawptr'):
            v = self.opval(['cp', rv['place']], store)
            return v
        if k == 'cast':
            return self.opval(rv['op'], store)
        return UNKNOWN

    def std_model(self, c, store):
        """models of a few std functions on known abstract values (the `?` operator, Option/Result tests)"""
        if not c.args:
            return None
        a0 = self.opval(c.args[0], store)
        if c.is_(r'as std::ops::Try>::branch$'):
            if a0 is not UNKNOWN and a0[0] == 'agg' and a0[2] in ('Ok', 'Some'):
                return ('agg', 'std::ops::ControlFlow', 'Continue', list(a0[3]))
            if a0 is not UNKNOWN and a0[0] == 'agg' and a0[2] in ('Err', 'None'):
                return ('agg', 'std::ops::ControlFlow', 'Break', [a0])
            return None
        if c.is_(r'as std::ops::FromResidual<.*>>::from_residual$'):
            if a0 is not UNKNOWN and a0[0] == 'agg' and a0[2] in ('Err', 'None'):
                return a0
            return ('agg', 'residual', 'Err', [UNKNOWN])
        if c.is_(r'Option::<.*>::is_(some|none)$', r'Result::<.*>::is_(ok|err)$'):
            if a0 is not UNKNOWN and a0[0] == 'agg' and a0[2] in ('Some', 'None', 'Ok', 'Err'):
                pos = a0[2] in ('Some', 'Ok')
                want_pos = bool(re.search(r'is_(some|ok)$', c.name))
                return ('c', pos == want_pos)
        if c.is_(r'Option::<.*>::(copied|cloned|as_ref|as_deref)$', r'as std::clone::Clone>::clone$', r'as std::ops::Deref>::deref$'):
            if a0 is not UNKNOWN and a0[0] in ('agg', 'c'):
                return a0
        if (a0 is UNKNOWN or a0[0] == 'callres') and c.is_(r'Result::<.*>::map_err$') and len(c.args) == 2:
            # unknown Result (e.g. what a user closure returned): both outcomes, the error one rewritten by the closure
            e = self.apply_closure(self.opval(c.args[1], store), [UNKNOWN])
            return ('fork', [('agg', 'std::result::Result', 'Ok', [UNKNOWN]), ('agg', 'std::result::Result', 'Err', [e])])
        # Result/Option combinators on a known variant: the untouched side is passed through; the mapped side keeps its
        # variant with an unknown payload (the closure is not evaluated)
        if a0 is not UNKNOWN and a0[0] == 'agg' and a0[2] in ('Ok', 'Err', 'Some', 'None'):
            if c.is_(r'Result::<.*>::map_err$'):
                return a0 if a0[2] == 'Ok' else ('agg', a0[1], 'Err', [self.apply_closure(self.opval(c.args[1], store), list(a0[3]))] if len(c.args) == 2 else [UNKNOWN])
            if c.is_(r'Result::<.*>::map$'):
                return a0 if a0[2] == 'Err' else ('agg', a0[1], 'Ok', [UNKNOWN])
            if c.is_(r'Result::<.*>::(ok)$'):
                return ('agg', 'std::option::Option', 'Some', list(a0[3])) if a0[2] == 'Ok' else ('agg', 'std::option::Option', 'None', [])
            if c.is_(r'Result::<.*>::(err)$'):
                return ('agg', 'std::option::Option', 'Some', list(a0[3])) if a0[2] == 'Err' else ('agg', 'std::option::Option', 'None', [])
            if c.is_(r'Option::<.*>::(ok_or|ok_or_else)$'):
                return ('agg', 'std::result::Result', 'Ok', list(a0[3])) if a0[2] == 'Some' else ('agg', 'std::result::Result', 'Err', [UNKNOWN])
            if c.is_(r'Option::<.*>::map$') and a0[2] == 'Some':
                return ('agg', a0[1], 'Some', [UNKNOWN])
        # combinators that leave the empty/failed case as it is (the closure is not run)
        if c.is_(r'Option::<.*>::(map|and_then|filter|and|zip|cloned|copied|as_ref|as_mut|as_deref|take)$'):
            if a0 is not UNKNOWN and a0[0] == 'agg' and a0[2] == 'None':
                return ('agg', 'std::option::Option', 'None', [])
        if c.is_(r'Option::<.*>::(unwrap_or)$') and len(c.args) == 2:
            if a0 is not UNKNOWN and a0[0] == 'agg' and a0[2] == 'None':
                d = self.opval(c.args[1], store)
                return d if d is not UNKNOWN else None
        if c.is_(r'Option::<.*>::(map_or)$') and len(c.args) == 3:
            if a0 is not UNKNOWN and a0[0] == 'agg' and a0[2] == 'None':
                d = self.opval(c.args[1], store)
                return d if d is not UNKNOWN else None
        if c.is_(r'Option::<.*>::(unwrap_or_default)$'):
            if a0 is not UNKNOWN and a0[0] == 'agg' and a0[2] == 'None' and re.search(r'Option::<bool>', c.full):
                return ('c', False)
        return None

    def apply_closure(self, cv, argvals):
        """abstract result of calling a closure value with the given argument values: the single return value of a
        sub-walk of the closure body, or UNKNOWN"""
        facts = getattr(self.body, 'facts', None)
        if cv is UNKNOWN or cv[0] != 'agg' or facts is None or cv[1] not in facts.bodies or self._depth > 2:
            return UNKNOWN
        clo = facts.bodies[cv[1]]
        sub = Walker(clo, atom=None, call_model=None, max_paths=40, max_visits=1)
        sub._depth = self._depth + 1
        store = {1: cv}
        for i, v in enumerate(argvals):
            if v is not UNKNOWN:
                store[2 + i] = v
        try:
            paths = [p for p in sub.run(0, store) if p.end == 'return']
        except Broken:
            return UNKNOWN
        rets = {repr(p.ret) for p in paths}
        return paths[0].ret if len(paths) >= 1 and len(rets) == 1 and paths[0].ret is not None else UNKNOWN

    def run(self, start=0, store=None):
        self.paths = []
        self._go(start, dict(store or {}), Path(), {})
        return self.paths

    def _go(self, b, store, path, visits):
        body = self.body
        while True:
            if len(self.paths) >= self.max_paths:
                raise Broken('%s: abstract walk exceeds %d paths' % (body.path, self.max_paths))
            if b in self.stop and path.blocks:
                path.end = 'stop'; path.store = store; self.paths.append(path); return
            visits[b] = visits.get(b, 0) + 1
            if visits[b] > self.max_visits:
                path.end = 'loop'; self.paths.append(path); return
            path.blocks.append(b)
            for st in body.blocks[b]['stmts']:
                if st['k'] == 'assign':
                    v = self.rvalue(st['rv'], store)
                    if st['rv']['k'] in ('ref', 'rawptr') and st['rv'].get('mut') and not st['rv']['place'][1]:
                        # a mutable borrow of a local escapes: whatever is known about the local is forgotten
                        store.pop(st['rv']['place'][0], None)
                        v = UNKNOWN
                    lhs = st['lhs']
                    if not lhs[1]:
                        if v is UNKNOWN: store.pop(lhs[0], None)
                        else: store[lhs[0]] = v
                        if lhs[0] in body.local_names:
                            path.assigns.append((b, lhs[0], v))
                    else:
                        path.writes.append((b, place_str(lhs, body), v))
                        store.pop(lhs[0], None) if lhs[1][0][0] != '*' else None
                elif st['k'] == 'setdiscr':
                    store.pop(st['lhs'][0], None)
            t = body.blocks[b]['term']; k = t['k']
            if k == 'goto':
                b = t['t']; continue
            if k in ('drop', 'assert'):
                b = t['t']; continue
            if k == 'return':
                path.ret = store.get(0, UNKNOWN); path.end = 'return'; path.store = store; self.paths.append(path); return
            if k in ('unreachable', 'resume', 'terminate', 'other'):
                path.end = 'unreachable'; self.paths.append(path); return
            if k in ('call', 'tailcall'):
                c = Call(body, b, t)
                path.calls.append((b, c))
                path.callvals.append([self.opval(a_, store) for a_ in c.args])
                v = None
                if self.call_model and getattr(self.call_model, 'first', False):
                    v = self.call_model(self, c, store)
                    if v is not None and v[0] == 'callres':
                        v = None
                if v is None:
                    v = self.std_model(c, store)
                if v is None:
                    v = self.call_model(self, c, store) if self.call_model else None
                if v is not None and v[0] == 'fork' and t.get('t') is not None and t.get('dest') and not t['dest'][1]:
                    for alt in v[1]:
                        p2 = Path(); p2.calls = list(path.calls); p2.callvals = list(path.callvals); p2.blocks = list(path.blocks)
                        p2.forks = list(path.forks); p2.writes = list(path.writes); p2.assigns = list(path.assigns)
                        st2 = dict(store)
                        if alt is UNKNOWN: st2.pop(t['dest'][0], None)
                        else: st2[t['dest'][0]] = alt
                        self._go(t['t'], st2, p2, dict(visits))
                    return
                if v is not None and v[0] == 'fork':
                    v = None
                if t.get('dest') and not t['dest'][1]:
                    if v is None: store.pop(t['dest'][0], None)
                    else: store[t['dest'][0]] = v
                    if t['dest'][0] in body.local_names:
                        path.assigns.append((b, t['dest'][0], v if v is not None else UNKNOWN))
                if t.get('t') is None:
                    path.end = 'diverge'; self.paths.append(path); return
                b = t['t']; continue
            if k == 'switch':
                sw = self.switch(b)
                v = self.opval(t['op'], store)
                out = None
                if v is not UNKNOWN:
                    if v[0] == 'c' and sw.kind == 'bool' and isinstance(v[1], bool):
                        out = v[1]
                    elif v[0] == 'c' and sw.kind == 'int':
                        # `match c { 'x' => .. }` switches on the code point
                        key = ord(v[1]) if isinstance(v[1], str) and len(v[1]) == 1 else v[1]
                        out = key if key in sw.edges else 'otherwise'
                    elif v[0] == 'variant':
                        out = v[1]
                if out is None and self.atom:
                    out = self.atom(self, sw, store)
                if out is not None:
                    nb = sw.edges.get(out)
                    if nb is None:
                        nb = t['otherwise']
                    b = nb; continue
                # fork
                done = set()
                for outcome, nb in sw.edges.items():
                    if nb in done: continue
                    done.add(nb)
                    p2 = Path(); p2.calls = list(path.calls); p2.callvals = list(path.callvals); p2.blocks = list(path.blocks)
                    p2.forks = path.forks + [(b, outcome)]; p2.writes = list(path.writes); p2.assigns = list(path.assigns)
                    self._go(nb, dict(store), p2, dict(visits))
                return
            raise Broken('absint: unknown terminator %s' % k)

def show(v):
    if v is UNKNOWN: return '?'
    if v[0] == 'c': return repr(v[1])
    if v[0] == 'agg':
        nm = (v[1] or '').split('::')[-1]
        if v[2]: nm = v[2]
        return '%s(%s)' % (nm, ', '.join(show(f) for f in v[3])) if v[3] else nm
    if v[0] == 'variant': return 'variant ' + v[1]
    return str(v)
