"""Shared analyses over the parser implementations: Message construction census, Result-flow
classification (error discipline), impl Parser enumeration."""
import re
from core import *
from dataflow import *
from cfgq import *

RESULT_RX = re.compile(r'^std::result::Result<.*(error::Error|error::ParseFailure)>$')

def outer(path):
    return path.split('::{closure')[0]

def short(path):
    """readable short name for a def path"""
    m = re.match(r'^<(?:\w+::)*(\w+)(?:<.*>)? as (?:[\w:]+::)?(\w+)(?:<.*>)?>::(\w+)(.*)$', path)
    if m:
        return '%s::%s%s' % (m.group(1), m.group(3), m.group(4))
    return re.sub(r'<impl [^>]*>::', '', path)

def message_constructions(fs):
    """variant -> list of (body, bb, how) over the whole crate"""
    out = {}
    for b in fs.bodies.values():
        for i, k, st in b.stmts():
            if st['k'] == 'assign' and st['rv']['k'] == 'agg' and st['rv'].get('adt') == 'error::Message':
                out.setdefault(st['rv']['variant'], []).append((b, i, 'aggregate'))
        for (bb, fn, full) in fn_refs(b):
            m = re.match(r'^error::Message::(\w+)$', fn)
            if m:
                out.setdefault(m.group(1), []).append((b, bb, 'constructor-fn'))
        for c in b.calls():
            for n in c.names:
                m = re.match(r'^error::Message::([A-Z]\w+)$', n)
                if m:
                    out.setdefault(m.group(1), []).append((b, c.bb, 'constructor-call'))
    return out

_MB_CACHE = {}
def message_builders(fs):
    """crate functions that return an error::Error / error::Message by value -> set of Message variants they can build
    (their own aggregates plus, transitively, those of the builders they call)"""
    key = id(fs)
    if key in _MB_CACHE:
        return _MB_CACHE[key]
    own = {}; calls = {}
    for b in fs.bodies.values():
        if b.kind == 'closure' or b.local_ty(0) not in ('error::Error', 'error::Message'):
            continue
        vs = set(); cs = set()
        for x in fs.family(b):
            for i, k, st in x.stmts():
                if st['k'] == 'assign' and st['rv']['k'] == 'agg' and st['rv'].get('adt') == 'error::Message':
                    vs.add(st['rv']['variant'])
            for c in x.calls():
                cs |= set(c.names)
        own[b.path] = vs; calls[b.path] = cs
    changed = True
    while changed:
        changed = False
        for p_, cs in calls.items():
            for n in cs:
                if n in own and n != p_ and not own[n] <= own[p_]:
                    own[p_] |= own[n]; changed = True
    _MB_CACHE[key] = own
    return own

def built_messages(fs, body):
    """(bb, variant) of every error::Message the body builds itself or obtains from a helper that returns Error/Message"""
    out = []
    for i, k, st in body.stmts():
        if st['k'] == 'assign' and st['rv']['k'] == 'agg' and st['rv'].get('adt') == 'error::Message':
            out.append((i, st['rv']['variant']))
    mb = message_builders(fs)
    for c in body.calls():
        for n in c.names:
            if n in mb:
                out += [(c.bb, v) for v in sorted(mb[n])]
    return out

def result_calls(body):
    out = []
    for c in body.calls():
        if c.dest and not c.dest[1] and RESULT_RX.match(body.local_ty(c.dest[0])):
            out.append(c)
    return out

class Flow:
    """what happens to the Result produced by a call"""
    def __init__(self, call):
        self.call = call
        self.kinds = set()      # propagated | returned | switched | inspected | ignored | passed:<callee> | stored
        self.err_edges = []     # (switch block, target) for Err / Break / is_err==true edges
        self.ok_edges = []
        self.details = []

PASS_RESULT = [r'Result::<.*>::map_err', r'Result::<.*>::map$', r'Option::<.*>::transpose$', r'Result::<.*>::transpose$',
               r'Result::<.*>::and_then', r'Result::<.*>::or_else', r'as std::ops::Try>::branch$', r'std::hint::must_use']

def classify_result(body, call, depth=0):
    fl = Flow(call)
    if call.dest == [0, []]:
        fl.kinds.add('returned')
        return fl
    _follow(body, call.dest[0], fl, set(), depth)
    # drop elaboration re-tests the discriminant at scope end: keep only the tests that are not dominated by
    # another test of the same result
    def prune(edges):
        blocks = sorted({sb for (sb, tb) in edges})
        keep = [x for x in blocks if not any(y != x and body.dominates(y, x) for y in blocks)]
        return [(sb, tb) for (sb, tb) in edges if sb in keep]
    fl.err_edges = prune(fl.err_edges); fl.ok_edges = prune(fl.ok_edges)
    if not fl.kinds:
        fl.kinds.add('ignored')
    return fl

def _follow(body, local, fl, seen, depth):
    if local in seen or depth > 6:
        return
    seen.add(local)
    us = uses_of(body, local)
    for (b, k, kind, p) in us:
        if kind == 'drop':
            continue
        if kind == 'assign':
            rv = p['rv']
            lhs = p['lhs']
            if rv['k'] == 'discr':
                # switched on directly
                for sw in switches(body):
                    if sw.kind == 'enum' and sw.discr_site == (b, k):
                        fl.kinds.add('switched')
                        for outc, tb in sw.edges.items():
                            if outc in ('Err', 'Break'):
                                fl.err_edges.append((sw.b, tb))
                            elif outc in ('Ok', 'Continue'):
                                fl.ok_edges.append((sw.b, tb))
                continue
            if rv['k'] in ('use', 'cast') :
                opp = op_place(rv['op'])
                if opp is not None and opp[0] == local and opp[1]:
                    continue   # payload extraction, not a flow of the Result itself
                if lhs == [0, []]:
                    fl.kinds.add('returned'); continue
                if not lhs[1]:
                    _follow(body, lhs[0], fl, seen, depth); continue
                fl.kinds.add('stored'); continue
            if rv['k'] in ('ref', 'rawptr'):
                if rv['place'][0] == local and rv['place'][1]:
                    continue
                if not lhs[1]:
                    _follow(body, lhs[0], fl, seen, depth)
                continue
            if rv['k'] == 'agg':
                if lhs == [0, []]:
                    fl.kinds.add('returned')
                else:
                    fl.kinds.add('stored')
                    fl.details.append('stored into %s' % rv.get('adt', rv['agg']))
                    if not lhs[1]:
                        _follow(body, lhs[0], fl, seen, depth + 1)
                continue
            fl.kinds.add('other:' + rv['k'])
        elif kind == 'call':
            c = Call(body, b, p)
            if c.is_(r'as std::ops::Try>::branch$'):
                fl.kinds.add('propagated')
                # the Break edge
                sw = switch_on_call(body, c)
                if sw is not None:
                    for outc, tb in sw.edges.items():
                        if outc == 'Break': fl.err_edges.append((sw.b, tb))
                        elif outc == 'Continue': fl.ok_edges.append((sw.b, tb))
                continue
            if c.is_(r'Result::<.*>::(is_err|is_ok)$'):
                fl.kinds.add('inspected')
                sw = switch_on_call(body, c)
                if sw is not None and sw.kind == 'bool':
                    is_err = c.is_(r'is_err$')
                    fl.err_edges.append((sw.b, sw.target(is_err)))
                    fl.ok_edges.append((sw.b, sw.target(not is_err)))
                continue
            if c.is_(*PASS_RESULT) and c.dest and not c.dest[1]:
                if c.dest == [0, []]:
                    fl.kinds.add('returned')
                else:
                    _follow(body, c.dest[0], fl, seen, depth + 1)
                continue
            fl.kinds.add('passed:' + c.name)
        elif kind == 'switch':
            fl.kinds.add('switched')
        else:
            fl.kinds.add('other:' + kind)

def ok_return_blocks(body):
    # a result handed on unchanged (`let r = inner.eval(args); ...; r`) is not a place where Ok is *made*
    return value_sites(body, 'Ok', copies=False)

def err_return_blocks(body):
    out = []
    for i, k, st in body.stmts():
        if st['k'] == 'assign' and st['lhs'] == [0, []] and st['rv']['k'] == 'agg' and st['rv'].get('variant') == 'Err':
            out.append(i)
    return out

def conversion_sites(fs):
    """functions where an Err of a parser-ish call can be followed by an Ok/normal return of the
    function, or where such a result is ignored.  Returns list of (body, call, class, detail)"""
    out = []
    for b in fs.bodies.values():
        rcs = result_calls(b)
        if not rcs:
            continue
        oks = ok_return_blocks(b)
        ret_is_result = bool(RESULT_RX.match(b.local_ty(0))) or 'Result<' in b.local_ty(0)
        for c in rcs:
            fl = classify_result(b, c)
            if 'ignored' in fl.kinds:
                out.append((b, c, 'ignored', 'result never inspected')); continue
            conv = False
            for (sb, tb) in fl.err_edges:
                reach = reachable_edges(b, tb)
                if ret_is_result:
                    if any(o in reach for o in oks):
                        conv = True
                else:
                    # function does not return a Result: any normal return after an Err is a conversion
                    if any(r in reach for r in b.return_blocks()):
                        conv = True
            if conv:
                out.append((b, c, 'converted', 'an Ok/normal return is reachable from the Err edge'))
            elif fl.kinds - {'propagated', 'returned', 'switched', 'inspected'}:
                rest = sorted(fl.kinds - {'propagated', 'returned', 'switched', 'inspected'})
                out.append((b, c, 'escapes', ','.join(rest)))
    return out

def parser_impls(fs):
    """(self type, eval body, meta body) for each impl of the Parser trait in the crate"""
    out = []
    for imp in fs.impls:
        if imp.get('trait_def') == 'Parser':
            items = {it['name']: it['path'] for it in imp['items']}
            ev = fs.bodies.get(items.get('eval')); me = fs.bodies.get(items.get('meta'))
            out.append((imp['self_ty'], ev, me, imp))
    return out


def info_parser_sites(b):
    """calls in b whose result is the help / version flag parser of Info: the mk_help_parser / mk_version_parser helpers, or
    the same construction written in place (`self.help_arg.clone().req_flag(())`)"""
    out = {'help': [], 'version': []}
    for c in b.calls():
        if c.is_(r'^info::Info::mk_help_parser$'):
            out['help'].append(c)
        elif c.is_(r'^info::Info::mk_version_parser$'):
            out['version'].append(c)
        elif c.is_(r'NamedArg::req_flag'):
            rs = provenance(b, c.args[0], c.bb, 'term', through=DEFAULT_THROUGH + [r'Clone>?::clone$'])
            fields = {(r.path[0] if r.path else '') for r in rs if r.kind == 'param' and r.what == 'self'}
            if rs and len(fields) == 1 and all(r.kind == 'param' for r in rs):
                if fields == {'help_arg'}: out['help'].append(c)
                elif fields == {'version_arg'}: out['version'].append(c)
    return out
