"""C11 - outcome classes map to streams and exit status.

Decides:
 X  exit table     ParseFailure::exit_code = {Stdout:0, Completion:0, Stderr:1}.
 S  stream table   print_message prints Stdout and Completion with std::io::_print and Stderr with
                   std::io::_eprint, and nothing else prints in the other arm; the text printed is the
                   payload (render_console(full-of-the-variant | true, colour, max_width) / the completion
                   string verbatim with template "{}"); arms and the full/short switch are obtained from one abstract
                   walk per variant of *self, however the match is written.
 K  colour         Color::default() is Monochrome whenever either stream is not a terminal (table over the detection outcomes), so
                   a redirected stream receives the plain text run_inner predicts.
 K  completion marker  check_next recognises `--bpaf-complete-rev=N` whether or not the program name is known, so a real
                   process (run(), argv[0] known) answers a completion request the way run_inner predicts.
 R  run flow       OptionParser::run = run_inner(Args::current_args()); Ok -> return that value, no print,
                   no exit; Err -> print_message(err, self.info.max_width) dominates
                   process::exit(exit_code(err)); Parser::run delegates to it.
 A  argv[0]        Args::current_args takes exactly one element off args_os() (the program name, reduced
                   to file_name().to_str()) before boxing the same iterator as the items.
 W  who            process::exit and the std print functions are called only from the listed functions.
 N  non-empty      every arm of Message::render that reaches ParseFailure::Stderr writes to the Doc.  The one arm that writes nothing
                   (Missing) is dead: summarize_missing never builds Missing AND replaces it unconditionally before Doc::default().
 U  usage fallback the stdout/exit-0 usage fallback is guarded by an emptiness test taken before parsing, so a real
                   failure is never reclassified as success output.
 W  width agreement the default Info.max_width (what run() prints with) equals console::MAX_WIDTH (what monochrome()/Display - i.e.
                   everything reachable from run_inner - wraps at).
 K  marker scope   the completion scanner sees an item only after the `--` test (an escaped word spelled like a marker is a positional);
                   check_next(ordinary item) is false (table).
 H help is output  a failed adjacent group hands the caller its own scope back (a help flag typed before the group is still found: stdout / 0,
                   shared with C10); the completion decision is taken after tokenizing (shared with C10).
 H scope / answer   an adjacent command hands back the scope it was entered with (items behind its block - a help flag - stay visible); once the
                   word being completed is in hand check_complete always answers (a completion request never falls through to the program body).
 P no abort      the panic-capable sites (indexing, slicing, Vec ops with a precondition, explicit panics) in the tokenizer, the scope iterators and the
                        parse combinators are the reviewed, guarded ones (shared with C04): a panic is status 101 with a backtrace, not "stderr, status 1".
 N refused text  parse_os_str refuses text that is not valid utf8 instead of patching it (shared with C02); H catch never rolls back the outcome of a
                        command that was entered (K3 rows for ParseFailure, shared with C06).
Does not decide: byte equality of the text across the process boundary."""
import re
from core import *
from dataflow import *
from cfgq import *
from absint import Walker, UNKNOWN, pkey, show

LEVEL = 'other'
EXPLANATION = __doc__
ASSUMPTIONS = ['std::io::_print writes to stdout and _eprint to stderr; process::exit(n) terminates with status n']
FLOORS = {'X.exit-table': 3, 'S.stream-table': 6, 'R.run-flow': 10, 'A.argv0': 6, 'W.who': 12, 'N.non-empty': 17, 'U.usage-fallback': 1, 'K.completion-marker': 1, 'K.colour': 1, 'W.width-agreement': 1, 'H.help-is-output': 2, 'P.no-abort': 30}

EXIT_TABLE = {
    'info::OptionParser::<T>::run': 'documented: print the failure and exit with its code',
    'complete_run::<impl complete_run::ArgScanner<\'_>>::check_next': 'known finding: exits after dumping a static completer stub',
    'complete_run::ArgScanner::<\'_>::check_next': 'known finding: exits after dumping a static completer stub',
    'complete_gen::<impl args::inner::State>::check_complete': 'known finding: unknown completion revision',
}
PRINT_TABLE = {
    'error::ParseFailure::print_message': 'the one place outcomes are printed',
    'complete_run::dump_bash_completer': 'static completer stub', 'complete_run::dump_zsh_completer': 'static completer stub',
    'complete_run::dump_fish_completer': 'static completer stub', 'complete_run::dump_elvish_completer': 'static completer stub',
    'meta::Meta::positional_invariant_check': 'check_invariants(verbose) debugging output',
    'meta::Meta::positional_invariant_check::go': 'check_invariants(verbose) debugging output',
    'complete_gen::<impl args::inner::State>::check_complete': 'debug builds only: unsupported revision notice',
}

def outer(path):
    return path.split('::{closure')[0]

def run(ctx):
    cfgs = ['none', 'all', 'bright'] if ctx.tier == 'quick' else ['none', 'all', 'ac', 'dull', 'bright', 'doc']
    ctx.preload(cfgs)
    for cfg in cfgs:
        fs = ctx.facts(cfg)
        ctx.guard(exit_table, ctx, cfg, fs)
        ctx.guard(stream_table, ctx, cfg, fs)
        ctx.guard(completion_marker, ctx, cfg, fs)
        ctx.guard(colour_detection, ctx, cfg, fs)
        ctx.guard(width_agreement, ctx, cfg, fs)
        import c10 as c10_
        ctx.guard(c08_keep, ctx, lambda: c10_.best_effort(ctx, cfg, fs), lambda o: 'failure-scope' in o.key or 'failure-hands-back' in o.key, 'H.help-is-output')
        ctx.guard(c08_keep, ctx, lambda: c10_.ambiguity(ctx, cfg, fs), lambda o: 'completion-known-after-tokenizing' in o.key, 'K.completion-marker')
        import c05 as c05_, c14 as c14_
        ctx.guard(c08_keep, ctx, lambda: c05_.scope_restore(ctx, cfg, fs), lambda o: 'adjacent-ok-scope' in o.key, 'H.help-is-output')
        if fs.find(r'^complete_gen::<impl args::inner::State>::check_complete$', required=False):
            ctx.guard(c08_keep, ctx, lambda: c14_.no_late_none(ctx, cfg, fs), lambda o: True, 'K.completion-marker')
        import c08, c09
        ctx.guard(c08.keep_only, ctx, lambda: c09.tokenizer(ctx, cfg, fs), lambda o: 'pos-only' in o.key, 'K.completion-marker')
        import c04
        # a panic while tokenizing or walking the scope is neither "stderr + status 1" nor a value: the panic-capable sites on the
        # parse path stay the reviewed, guarded ones (shared with C04)
        onpath = lambda o: o.key.startswith(('args::', 'arg::', 'ArgsIter', 'ArgRangesIter', 'ParseAdjacent', 'ParseCommand', 'ParseFlag', 'ParseOrElse', 'ShortLong', 'any', 'positional_invariant'))
        ctx.guard(c08.keep_only, ctx, lambda: c04.census(ctx, cfg, fs), onpath, 'P.no-abort')
        ctx.guard(c08.keep_only, ctx, lambda: c04.invariant(ctx, cfg, fs), onpath, 'P.no-abort')
        # ... the error renderer's "did you mean" table is indexed by character counts, and the splitter never hands an empty short name to construct
        ctx.guard(c08.keep_only, ctx, lambda: c04.unit_agreement(ctx, cfg, fs), lambda o: True, 'P.no-abort')
        ctx.guard(c08.keep_only, ctx, lambda: c04.short_name_nonempty(ctx, cfg, fs), lambda o: True, 'P.no-abort')
        import c02 as c02_, c06 as c06_
        # "a parsed value is returned only on success": text that is not valid utf8 is refused, not patched (shared with C02); the outcome of an
        # entered command (its help, its error) is never rolled back by catch (shared with C06)
        ctx.guard(c08.keep_only, ctx, lambda: c02_.lossless(ctx, cfg, fs), lambda o: 'parse_os_str' in o.key, 'N.non-empty')
        ctx.guard(c08.keep_only, ctx, lambda: c06_.k3(ctx, cfg, fs, c06_.k1(ctx, cfg, fs)), lambda o: o.rule == 'K3.consult' and 'ParseFailure' in o.key, 'H.help-is-output')
        ctx.guard(run_flow, ctx, cfg, fs)
        ctx.guard(argv0, ctx, cfg, fs)
        ctx.guard(who, ctx, cfg, fs)
        ctx.guard(nonempty, ctx, cfg, fs)
        import c10
        ctx.guard(c10.usage_fallback, ctx, cfg, fs.one(r'^info::OptionParser::<T>::run_subparser$'), 'U.usage-fallback')

def completion_marker(ctx, cfg, fs):
    """run() knows the program name (argv[0]); run_inner in tests usually does not.  The completion marker
    `--bpaf-complete-rev=N` must be recognised in both situations, or a real process answers a completion request
    with a parse error on stderr while run_inner predicts completion output."""
    cands = fs.find(r'complete_run::.*ArgScanner.*check_next$', required=False)
    if not cands:
        ctx.ob('K.completion-marker', 'check_next:absent', True, 'built without completion support: no marker scanner', cfg=cfg, nontrivial=False)
        return
    b = ctx.look(cands[0])
    def cm(w, c, store):
        if c.is_(r'OsStr::to_str$'):
            return ('agg', 'std::option::Option', 'Some', [UNKNOWN])
        consts = [r.what for a in c.args for r in provenance(b, a, c.bb, 'term') if r.kind == 'const' and isinstance(r.what, str)]
        if c.is_(r'PartialEq.*>::eq$', r'str::<impl str>::(starts_with)$') and any(x.startswith('--bpaf-complete-style-') for x in consts):
            return ('c', False)
        if c.is_(r'str::<impl str>::strip_prefix') and any(x == '--bpaf-complete-rev=' for x in consts):
            return ('agg', 'std::option::Option', 'Some', [UNKNOWN])
        return None
    cm.first = True
    w = Walker(b, call_model=cm, max_paths=400)
    paths = w.run()
    rets = sorted({show(p_.ret) if p_.end == 'return' else p_.end for p_ in paths})
    wrote = [p_ for p_ in paths if any('revision' in pl for (_, pl, _) in p_.writes)]
    name_forks = set()
    for p_ in paths:
        for (fb, o) in p_.forks:
            sw_ = Switch(b, fb)
            if sw_.kind == 'enum' and any(q.kind == 'param' and q.what == 'self' and 'name' in q.path for q in provenance(b, sw_.place, sw_.discr_site[0], sw_.discr_site[1], through=None)):
                name_forks.add(o)
    ok = rets == ['True'] and bool(wrote) and name_forks >= {'Some', 'None'}
    # ... and nothing else is a marker: an ordinary item (also one that merely starts like a marker, `--bpaf-complete-everything`)
    # is left on the line for the parser to judge - the tokenizer drops every item for which check_next says true
    def cm2(w, c, store):
        if c.is_(r'OsStr::to_str$'):
            return ('agg', 'std::option::Option', 'Some', [UNKNOWN])
        consts = [r.what for a in c.args for r in provenance(b, a, c.bb, 'term') if r.kind == 'const' and isinstance(r.what, str)]
        if not consts:
            return None
        if c.is_(r'PartialEq.*>::eq$'):
            return ('c', False)
        if c.is_(r'str::<impl str>::(starts_with|ends_with|contains)'):
            return ('fork', [('c', True), ('c', False)]) if all('--bpaf-complete-'.startswith(x) for x in consts) else ('c', False)
        if c.is_(r'str::<impl str>::strip_prefix'):
            if all('--bpaf-complete-'.startswith(x) for x in consts):
                return ('fork', [('agg', 'std::option::Option', 'Some', [UNKNOWN]), ('agg', 'std::option::Option', 'None', [])])
            return ('agg', 'std::option::Option', 'None', [])
        return None
    cm2.first = True
    paths2 = Walker(b, call_model=cm2, max_paths=400).run()
    rets2 = sorted({show(p_.ret) if p_.end == 'return' else p_.end for p_ in paths2})
    ctx.ob('K.completion-marker', 'check_next:ordinary-item-is-not-a-marker', rets2 == ['False'],
           'for an item that is neither `--bpaf-complete-rev=..` nor a style request check_next returns %s on all %d paths (true would make the tokenizer drop the item)' % (rets2, len(paths2)), where=b.where(), cfg=cfg)
    ctx.ob('K.completion-marker', 'check_next:rev-marker-recognised-with-and-without-name', ok,
           'for an item `--bpaf-complete-rev=...` (not a style marker) check_next returns %s on all %d paths, with the program name %s; the revision is recorded on %d path(s)' % (
               rets, len(paths), sorted(name_forks), len(wrote)), where=b.where(), cfg=cfg)

def c08_keep(ctx, fn, pred, rule):
    import c08
    return c08.keep_only(ctx, fn, pred, rule)

def width_agreement(ctx, cfg, fs):
    """run() prints with Info.max_width (print_message), everything reachable from run_inner (unwrap_stdout / unwrap_stderr,
    Doc::monochrome, Display) wraps at console::MAX_WIDTH: a parser that never calls max_width(..) prints the text run_inner
    predicts only if the two defaults are the same number"""
    b = ctx.look(fs.one(r'^<info::Info as std::default::Default>::default$'))
    v1 = set()
    for i, k, st in b.stmts():
        if st['rv']['k'] == 'agg' and st['rv'].get('adt') == 'info::Info':
            names = st['rv'].get('field_names') or []
            if 'max_width' in names:
                v1 |= {r.what if r.kind == 'const' else '%s:%s' % (r.kind, r.what) for r in provenance(b, st['rv']['fields'][names.index('max_width')], i, k)}
    c = fs.consts.get('buffer::console::MAX_WIDTH')
    v2 = c.get('v') if c else None
    ctx.ob('W.width-agreement', 'Info::default:max_width==MAX_WIDTH', len(v1) == 1 and v2 is not None and v1 == {v2},
           'the default width of run() is %s, the width of monochrome()/Display (what run_inner renders with) is %s' % (sorted(v1, key=str), v2), where=b.where(), cfg=cfg)

def colour_detection(ctx, cfg, fs):
    """what print_message writes into a stream that is not a terminal must be the plain text run_inner predicts: whenever
    terminal detection says "not a terminal" for either stream, Color::default() is Monochrome - no later assignment may
    override the detection (table: detection outcome per stream -> result)"""
    cands = fs.find(r'buffer::console::Color as std::default::Default>::default$', required=False)
    if not cands:
        return
    b = ctx.look(cands[0])
    det = [c for c in b.calls() if c.is_(r'^supports_color::on')]
    if not det:
        ctx.ob('K.colour', 'Color::default:no-detection', all(True for _ in ()), 'this configuration has no colour output', cfg=cfg, nontrivial=False)
        rets = set()
        for p_ in Walker(b, max_paths=50).run():
            rets.add(show(p_.ret))
        ctx.ob('K.colour', 'Color::default:monochrome-without-colour', rets <= {'Monochrome'}, 'without terminal detection Color::default() is %s' % sorted(rets), where=b.where(), cfg=cfg)
        return
    table = {}
    for out_ok in (True, False):
        for err_ok in (True, False):
            seen = {'n': 0}
            def cm(w, c, store, out_ok=out_ok, err_ok=err_ok):
                if c.is_(r'^supports_color::on'):
                    which = show(w.opval(c.args[0], store)) if c.args else '?'
                    ok_ = out_ok if 'Stdout' in which else err_ok if 'Stderr' in which else None
                    if ok_ is None:
                        return None
                    return ('agg', 'std::option::Option', 'Some', [UNKNOWN]) if ok_ else ('agg', 'std::option::Option', 'None', [])
                return None
            cm.first = True
            rets = set()
            for p_ in Walker(b, call_model=cm, max_paths=100).run():
                rets.add(show(p_.ret) if p_.end == 'return' else p_.end)
            table[(out_ok, err_ok)] = sorted(rets)
    good = all(v == ['Monochrome'] for k_, v in table.items() if not (k_[0] and k_[1])) and table[(True, True)] != ['?']
    ctx.ob('K.colour', 'Color::default:monochrome-unless-both-streams-are-terminals', good,
           'Color::default() by (stdout is a terminal, stderr is a terminal): %s' % {str(k_): v for k_, v in table.items()}, where=b.where(), cfg=cfg)

def exit_table(ctx, cfg, fs):
    b = ctx.look(fs.one(r'^error::ParseFailure::exit_code$'))
    enum, t = enum_const_table(b)
    for v, want in (('Stdout', 0), ('Completion', 0), ('Stderr', 1)):
        ctx.ob('X.exit-table', 'exit_code:%s' % v, t.get(v) == want, 'exit_code(%s) = %s (expected %d)' % (v, t.get(v), want), where=b.where(), cfg=cfg)

def arm_blocks(body, sw, variant):
    entry = set(sw.edges.values())
    t = sw.target(variant)
    seen = set(); st = [t]
    while st:
        x = st.pop()
        if x in seen: continue
        seen.add(x)
        for s in body.succ(x):
            if s not in entry:
                st.append(s)
    # drop blocks shared with other arms (the join)
    return seen

def stream_table(ctx, cfg, fs):
    b = ctx.look(fs.one(r'^error::ParseFailure::print_message$'))
    sw = [s for s in switches(b) if s.kind == 'enum' and s.enum == 'error::ParseFailure']
    if not sw:
        raise Broken('print_message: no switch on ParseFailure')
    # one abstract walk per variant of *self (every switch on it is decided, unknown conditions fork): the blocks
    # visited are that variant's arm however the match is written (one match, a hoisted `matches!`, early returns)
    selfkey = pkey(sw[0].place)
    walks = {}
    for v in ('Stdout', 'Completion', 'Stderr'):
        w = Walker(b, variant_of={selfkey: v}, max_paths=400)
        walks[v] = [p_ for p_ in w.run() if p_.end == 'return']
        if not walks[v]:
            raise Broken('print_message: no path for %s' % v)
    arms = {v: set().union(*[set(p_.blocks) for p_ in ps]) for v, ps in walks.items()}
    shared = arms['Stdout'] & arms['Completion'] & arms['Stderr']
    # the short/full switch handed to render_console, per variant and path
    for v, ps in walks.items():
        vals = set()
        for p_ in ps:
            for (blk, c), av in zip(p_.calls, p_.callvals):
                if c.is_(r'render_console$'):
                    a1 = av[1] if len(av) > 1 else UNKNOWN
                    if a1 is not UNKNOWN and a1[0] == 'c':
                        if v == 'Stdout':
                            # a constant here must be the payload's own flag: the outcome this path took at the test of it
                            took = [o for (fb, o) in p_.forks if any(q.kind == 'param' and q.what == 'self' and q.path[-2:] == ['as Stdout', '1'] for q in Switch(b, fb).roots)]
                            vals.add('payload flag' if took and all(bool(o) == a1[1] for o in took) else 'constant %s' % a1[1])
                        else:
                            vals.add('constant %s' % a1[1])
                    else:
                        rs = provenance(b, c.args[1], c.bb, 'term')
                        vals.add('payload flag' if rs and all(q.kind == 'param' and q.what == 'self' and q.path[-2:] == ['as Stdout', '1'] for q in rs) else 'other: %s' % sorted('%s:%s' % (q.kind, q.what) for q in rs))
        want_full = {'Stdout': {'payload flag'}, 'Stderr': {'constant True'}, 'Completion': set()}[v]
        ctx.ob('S.stream-table', 'print_message:%s:full-switch' % v, vals == want_full,
               'print_message(%s) renders with full = %s (expected %s: help honours its own short/full flag, errors are always printed in full)' % (v, sorted(vals) or 'nothing rendered', sorted(want_full) or 'nothing rendered'), where=b.where(), cfg=cfg)
    want = {'Stdout': 'std::io::_print', 'Completion': 'std::io::_print', 'Stderr': 'std::io::_eprint'}
    sites = {s.bb: s for s in fmt_sites(b)}
    for v, blocks in arms.items():
        own = blocks - shared
        prints = sorted({c.name for x in own for c in [b.call_at(x)] if c and c.is_(r'^std::io::_e?print$')})
        ctx.ob('S.stream-table', 'print_message:%s:stream' % v, prints == [want[v]],
               'print_message(%s) prints with %s (expected %s)' % (v, prints, want[v]), where=b.where(), cfg=cfg)
        # what is printed
        pcs = [c for x in own for c in [b.call_at(x)] if c and c.is_(r'^std::io::_e?print$')]
        for pc in pcs:
            roots = provenance(b, pc.args[0], pc.bb, 'term', through=None)
            site = None
            for r in roots:
                if r.kind == 'call' and r.call.bb in sites:
                    site = sites[r.call.bb]
            if site is None:
                ctx.ob('S.stream-table', 'print_message:%s:payload' % v, False, 'cannot find the format site printed in the %s arm' % v, where=pc.where(), cfg=cfg)
                continue
            text = site.text()
            descr = []
            good = True
            for (meth, T, op, abb) in site.args:
                rs = provenance(b, op, abb, 'term')
                for r in rs:
                    if r.kind == 'call' and r.call.is_(r'render_console$'):
                        rc = r.call
                        full = provenance(b, rc.args[1], rc.bb, 'term')
                        width = provenance(b, rc.args[3], rc.bb, 'term')
                        doc = provenance(b, rc.args[0], rc.bb, 'term')
                        fdesc = ';'.join(sorted('%s:%s%s' % (q.kind, q.what, '.' + '.'.join(q.path) if q.path else '') for q in full))
                        wdesc = ';'.join(sorted('%s:%s' % (q.kind, q.what) for q in width))
                        ddesc = ';'.join(sorted('%s.%s' % (q.what, '.'.join(q.path)) for q in doc))
                        descr.append('render_console(doc=%s, full=%s, width=%s)' % (ddesc, fdesc, wdesc))
                        good &= all(q.kind == 'param' and q.what == 'max_width' for q in width)
                        good &= all(q.kind == 'param' and q.what == 'self' and q.path[:1] == ['as ' + v] for q in doc)
                    elif r.kind == 'param' and r.what == 'self':
                        descr.append('self.%s' % '.'.join(r.path))
                        good &= r.path[:1] == ['as ' + v]
                    elif r.kind == 'const':
                        descr.append('const %r' % (r.what,))
                    elif r.kind == 'call' and r.call.is_(r'^std::string::String::new$'):
                        descr.append('prefix string')
                    else:
                        descr.append('%s:%s' % (r.kind, r.what)); good = False
            tmpl_ok = {'Stdout': text == '{}\n', 'Completion': text == '{}', 'Stderr': text == '{}{}\n'}[v]
            ctx.ob('S.stream-table', 'print_message:%s:payload' % v, good and tmpl_ok,
                   'print_message(%s) prints template %r with %s' % (v, text, descr), where=pc.where(), cfg=cfg)

def run_flow(ctx, cfg, fs):
    b = ctx.look(fs.one(r'^info::OptionParser::<T>::run$'))
    ri = [c for c in b.calls() if c.is_(r'OptionParser::<T>::run_inner')]
    ok = len(ri) == 1
    ctx.ob('R.run-flow', 'run:one-run_inner', ok, 'run calls run_inner %d time(s)' % len(ri), where=b.where(), cfg=cfg)
    if not ok:
        return
    ri = ri[0]
    a1 = provenance(b, ri.args[1], ri.bb, 'term')
    ctx.ob('R.run-flow', 'run:args-from-current_args', all(r.kind == 'call' and r.call.is_(r'Args::<\'_>::current_args$') for r in a1) and bool(a1),
           'run_inner is given %s' % a1, where=ri.where(), cfg=cfg)
    sw = switch_on_call(b, ri)
    if sw is None or sw.kind != 'enum':
        raise Broken('run: no switch on the result of run_inner')
    ok_arm = arm_blocks(b, sw, 'Ok') - arm_blocks(b, sw, 'Err')
    err_arm = arm_blocks(b, sw, 'Err') - arm_blocks(b, sw, 'Ok')
    side = sorted({c.name for x in ok_arm for c in [b.call_at(x)] if c and c.is_(r'^std::process::', r'^std::io::_', r'print_message')})
    ctx.ob('R.run-flow', 'run:ok-arm-silent', not side, 'the Ok arm of run performs no printing or exit (%s)' % side, where=b.where(sw.target('Ok')), cfg=cfg)
    # returned value = Ok payload
    rv = []
    for i, k, st in b.stmts():
        if st['k'] == 'assign' and st['lhs'] == [0, []]:
            rv += provenance(b, st['rv']['op'] if st['rv']['k'] == 'use' else st['lhs'], i, k) if st['rv']['k'] == 'use' else [Root('other', st['rv']['k'], [])]
    good = bool(rv) and all(r.kind == 'call' and r.call.bb == ri.bb and r.path == ['as Ok', '0'] for r in rv)
    ctx.ob('R.run-flow', 'run:returns-ok-payload', good, 'run returns %s' % rv, where=b.where(), cfg=cfg)
    pm = [c for x in err_arm for c in [b.call_at(x)] if c and c.is_(r'ParseFailure::print_message$')]
    ex = [c for x in err_arm for c in [b.call_at(x)] if c and c.is_(r'^std::process::exit$')]
    ec = [c for x in err_arm for c in [b.call_at(x)] if c and c.is_(r'ParseFailure::exit_code$')]
    ok = len(pm) == 1 and len(ex) == 1 and len(ec) == 1
    ctx.ob('R.run-flow', 'run:err-arm-calls', ok, 'Err arm: print_message x%d, exit_code x%d, process::exit x%d' % (len(pm), len(ec), len(ex)), where=b.where(sw.target('Err')), cfg=cfg)
    if ok:
        order = b.dominates(pm[0].bb, ex[0].bb) and not b.reaches(ex[0].bb, [pm[0].bb])
        ctx.ob('R.run-flow', 'run:print-before-exit', order, 'print_message dominates process::exit: %s' % order, where=pm[0].where(), cfg=cfg)
        code = provenance(b, ex[0].args[0], ex[0].bb, 'term', through=None)
        ctx.ob('R.run-flow', 'run:exit-code-source', all(r.kind == 'call' and r.call.bb == ec[0].bb for r in code) and bool(code),
               'process::exit is given %s' % code, where=ex[0].where(), cfg=cfg)
        same_err = provenance(b, ec[0].args[0], ec[0].bb, 'term')
        perr = provenance(b, pm[0].args[0], pm[0].bb, 'term')
        good = all(r.kind == 'call' and r.call.bb == ri.bb and r.path == ['as Err', '0'] for r in same_err + perr) and bool(same_err) and bool(perr)
        ctx.ob('R.run-flow', 'run:same-failure', good, 'print_message and exit_code both receive the Err payload of run_inner', where=b.where(), cfg=cfg)
        w = provenance(b, pm[0].args[1], pm[0].bb, 'term')
        ctx.ob('R.run-flow', 'run:width-source', all(r.kind == 'param' and r.path == ['info', 'max_width'] for r in w) and bool(w),
               'print_message width comes from %s' % w, where=pm[0].where(), cfg=cfg)
    pr = ctx.look(fs.one(r'^Parser::run$'))
    d = [c for c in pr.calls() if c.is_(r'OptionParser::<T>::run$')]
    others = [c.name for c in pr.calls() if c.is_(r'^std::process::', r'^std::io::_', r'run_inner')]
    ctx.ob('R.run-flow', 'Parser::run:delegates', len(d) == 1 and not others, 'Parser::run delegates to OptionParser::run (%d call) and does nothing else of note %s' % (len(d), others), where=pr.where(), cfg=cfg)

def argv0(ctx, cfg, fs):
    b = ctx.look(fs.one(r"^args::Args::<'_>::current_args$"))
    ao = [c for c in b.calls() if c.is_(r'^std::env::args_os$')]
    nx = [c for c in b.calls() if c.is_(r'as std::iter::Iterator>::next$')]
    ctx.ob('A.argv0', 'current_args:one-args_os', len(ao) == 1, 'args_os() called %d time(s)' % len(ao), where=b.where(), cfg=cfg)
    ok = len(nx) == 1 and all(r.kind == 'call' and r.call.is_(r'^std::env::args_os$') for r in provenance(b, nx[0].args[0], nx[0].bb, 'term')) if nx else False
    ctx.ob('A.argv0', 'current_args:one-next', ok, 'exactly one next() on the args_os iterator before boxing (%d found)' % len(nx), where=b.where(), cfg=cfg)
    skips = [c.name for c in b.calls() if c.is_(r'Iterator>::(skip|nth|next_back|step_by|take|rev|peekable)')]
    ctx.ob('A.argv0', 'current_args:no-other-consumption', not skips, 'no other iterator adaptor drops or reorders argv items: %s' % skips, where=b.where(), cfg=cfg)
    # items field of the returned Args comes from the same iterator
    good = False; desc = None
    for i, k, st in b.stmts():
        if st['k'] == 'assign' and st['rv']['k'] == 'agg' and st['rv'].get('adt', '').endswith('args::Args'):
            names = st['rv']['field_names']
            f = st['rv']['fields'][names.index('items')]
            rs = provenance(b, f, i, k, through=DEFAULT_THROUGH + [r'std::boxed::Box::<T>::new$'])
            desc = rs
            good = bool(rs) and all(r.kind == 'call' and r.call.is_(r'^std::env::args_os$') for r in rs)
            nm = provenance(b, st['rv']['fields'][names.index('name')], i, k, through=None)
            ctx.ob('A.argv0', 'current_args:name-from-first', all(r.kind == 'call' and r.call.is_(r'Option::<.*>::and_then') for r in nm) and bool(nm),
                   'the name field is derived from the first element: %s' % nm, where=b.where(i), cfg=cfg)
    ctx.ob('A.argv0', 'current_args:items-same-iterator', good, 'Args.items is the args_os iterator after the program name was taken: %s' % desc, where=b.where(), cfg=cfg)
    for clo in fs.closures_of(b):
        names = [c.name for c in clo.calls()]
        fn = any(re.search(r'Path::file_name$', n) for n in names); ts = any(re.search(r'OsStr::to_str$', n) for n in names)
        ctx.ob('A.argv0', 'current_args:file_name-to_str', fn and ts, 'the program name is file_name().to_str() of argv[0] (file_name=%s, to_str=%s)' % (fn, ts), where=clo.where(), cfg=cfg)

def who(ctx, cfg, fs):
    for b in fs.bodies.values():
        for c in b.calls():
            if c.is_(r'^std::process::(exit|abort)$'):
                o = outer(b.path)
                ctx.ob('W.who', 'exit:%s' % o, fs.listed(o, EXIT_TABLE), '%s calls %s: %s' % (b.path, c.name, EXIT_TABLE.get(o, 'NOT a permitted exit site')), where=c.where(), cfg=cfg)
            if c.is_(r'^std::io::_e?print$', r'^std::io::(stdout|stderr)$'):
                o = outer(b.path)
                ctx.ob('W.who', 'print:%s' % o, fs.listed(o, PRINT_TABLE), '%s prints with %s: %s' % (b.path, c.name, PRINT_TABLE.get(o, 'NOT a permitted print site')), where=c.where(), cfg=cfg)
    # print_message is only called from run (and its deprecated alias)
    for p, cs in fs.callers().items():
        if p == 'error::ParseFailure::print_message':
            for cal in cs:
                ok = outer(cal) in ('info::OptionParser::<T>::run', 'error::ParseFailure::print_mesage')
                ctx.ob('W.who', 'print_message<-%s' % outer(cal), ok, 'print_message is called from %s' % cal, cfg=cfg)

def nonempty(ctx, cfg, fs):
    b = ctx.look(fs.one(r'^error::Message::render$'))
    # the second switch on Message (the one whose arms write the doc): the last enum switch on error::Message
    sws = [s for s in switches(b) if s.kind == 'enum' and s.enum == 'error::Message']
    if len(sws) < 2:
        raise Broken('Message::render: expected two switches on Message')
    # stderr aggregate
    stderr_blocks = [i for i, k, st in b.stmts() if st['k'] == 'assign' and st['rv']['k'] == 'agg' and st['rv'].get('adt') == 'error::ParseFailure' and st['rv'].get('variant') == 'Stderr']
    if len(stderr_blocks) != 1:
        raise Broken('Message::render: expected one ParseFailure::Stderr construction')
    sb = stderr_blocks[0]
    dd = [c for c in b.calls() if c.is_(r'^<buffer::Doc as std::default::Default>::default$')]
    if len(dd) != 1:
        raise Broken('Message::render: expected one Doc::default()')
    cand = [s for s in sws if b.dominates(dd[0].bb, s.b) and b.reaches(s.b, [sb])]
    cand = [s for s in cand if all(b.dominates(s.b, o.b) for o in cand)]
    if len(cand) != 1:
        raise Broken('Message::render: expected one dominating Message switch after Doc::default(), got %d' % len(cand))
    sw = cand[0]
    writes = set()
    for c in b.calls():
        if c.is_(r'^buffer::Doc::(text|write|write_str|write_char|literal|invalid|write_item|doc|emphasis)$', r'<impl buffer::Doc>::(metavar|write_item|text|literal|invalid|doc|emphasis|write_meta)$'):
            writes.add(c.bb)
    for v, tb in sorted(sw.edges.items(), key=lambda kv: str(kv[0])):
        if not b.reaches(tb, [sb]):
            ctx.ob('N.non-empty', 'render:%s' % v, True, 'arm %s does not build a Stderr document (returns its own outcome)' % v, where=b.where(tb), cfg=cfg, nontrivial=False)
            continue
        silent = sb in reachable_edges(b, tb, avoid=writes)
        if v == 'Missing':
            # the Missing arm is dead: render() replaces Missing by summarize_missing(..) first, which never returns Missing
            sm = fs.one(r'^error::summarize_missing$')
            ms = sorted({st['rv']['variant'] for i, k, st in sm.stmts() if st['k'] == 'assign' and st['rv']['k'] == 'agg' and st['rv'].get('adt') == 'error::Message'})
            ok = 'Missing' not in ms
            ctx.ob('N.non-empty', 'render:Missing', ok, 'the empty Missing arm is dead: summarize_missing builds only %s' % ms, where=b.where(tb), cfg=cfg)
            # .. and the replacement is unconditional: from the Missing edge of every switch on Message that comes before Doc::default() and can
            # still reach the call of summarize_missing (after the pre-pass helper, if any, has been inlined), every way to Doc::default() passes
            # that call.  Ways that leave a later switch on Message by an edge other than Missing are not ways of a Missing value (nothing
            # reassigns it before the call) and are not followed; switches behind the call (drop elaboration) are not asked.
            smc = {c.bb for c in b.calls() if c.is_(r'^error::summarize_missing$')}
            pre = [s for s in sws if s is not sw and 'Missing' in s.edges and not b.dominates(dd[0].bb, s.b) and b.reaches(s.b, [dd[0].bb]) and b.reaches(s.b, smc)]
            if not smc or not pre:
                raise Broken('Message::render: expected a switch on Message before Doc::default() whose Missing arm calls summarize_missing')
            other = [(s.b, t) for s in sws for v, t in s.edges.items() if v != 'Missing' and t != s.edges.get('Missing')]
            for s in pre:
                leak = dd[0].bb in reachable_edges(b, s.edges['Missing'], removed_edges=other, avoid=smc)
                ctx.ob('N.non-empty', 'render:Missing:always-summarized', not leak,
                       'the Missing arm of the switch before Doc::default() %s' % ('reaches summarize_missing on every path' if not leak else 'can reach Doc::default() without calling summarize_missing: Missing then arrives at the arm that writes nothing'),
                       where=b.where(s.edges['Missing']), cfg=cfg)
            continue
        ctx.ob('N.non-empty', 'render:%s' % v, not silent,
               'arm %s %s' % (v, 'writes to the document on every path to Stderr' if not silent else 'can reach ParseFailure::Stderr without writing any text'),
               where=b.where(tb), cfg=cfg)
