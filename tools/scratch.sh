#!/bin/bash
# scratch.sh <patch>: (re)create /tmp/scr/repo = copy of /repo with the patch applied; use with VERIF_REPO=/tmp/scr/repo VERIF_EVIDENCE_DIR=/tmp/scr/ev ./check <ID>
set -e
rm -rf /tmp/scr; mkdir -p /tmp/scr
rsync -a --exclude target --exclude .git /repo/ /tmp/scr/repo/
cd /tmp/scr/repo && git init -q && git add -A && git commit -qm base && git apply "$1"
echo /tmp/scr/repo
