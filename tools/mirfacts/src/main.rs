//! mirfacts: a rustc_private driver that dumps the type-checked MIR of selected crates as JSON
//! facts (bodies, resolved callees, decoded constants, ADT and impl tables).
//!
//! Used as RUSTC_WORKSPACE_WRAPPER: argv[1] is the real rustc path and is dropped.
//! Environment:
//!   MIRFACTS_OUT    directory to write `<crate>.<pid>.json` into (required to dump anything)
//!   MIRFACTS_CRATES comma separated crate names to dump (default: bpaf)
#![feature(rustc_private)]
#![allow(clippy::all)]

extern crate rustc_abi;
extern crate rustc_driver;
extern crate rustc_hir;
extern crate rustc_interface;
extern crate rustc_middle;
extern crate rustc_span;

use rustc_driver::Compilation;
use rustc_hir::def::DefKind;
use rustc_hir::def_id::{DefId, LOCAL_CRATE};
use rustc_middle::mir::{
    self, AggregateKind, BasicBlockData, Body, ConstValue, Operand, Place, ProjectionElem, Rvalue,
    StatementKind, TerminatorKind,
};
use rustc_middle::ty::print::with_no_trimmed_paths;
use rustc_middle::ty::{self, Instance, Ty, TyCtxt, TypingEnv};
use rustc_span::{Span, DUMMY_SP};
use std::fmt::Write as _;

// ------------------------------------------------------------------------------------------
// tiny JSON value
enum J {
    Null,
    Bool(bool),
    Int(i128),
    Str(String),
    Arr(Vec<J>),
    Obj(Vec<(&'static str, J)>),
}

fn s(x: impl Into<String>) -> J {
    J::Str(x.into())
}

impl J {
    fn write(&self, out: &mut String) {
        match self {
            J::Null => out.push_str("null"),
            J::Bool(b) => out.push_str(if *b { "true" } else { "false" }),
            J::Int(i) => {
                let _ = write!(out, "{}", i);
            }
            J::Str(st) => write_str(st, out),
            J::Arr(xs) => {
                out.push('[');
                for (i, x) in xs.iter().enumerate() {
                    if i > 0 {
                        out.push(',');
                    }
                    x.write(out);
                }
                out.push(']');
            }
            J::Obj(xs) => {
                out.push('{');
                for (i, (k, v)) in xs.iter().enumerate() {
                    if i > 0 {
                        out.push(',');
                    }
                    write_str(k, out);
                    out.push(':');
                    v.write(out);
                }
                out.push('}');
            }
        }
    }
}

fn write_str(st: &str, out: &mut String) {
    out.push('"');
    for c in st.chars() {
        match c {
            '"' => out.push_str("\\\""),
            '\\' => out.push_str("\\\\"),
            '\n' => out.push_str("\\n"),
            '\r' => out.push_str("\\r"),
            '\t' => out.push_str("\\t"),
            c if (c as u32) < 0x20 => {
                let _ = write!(out, "\\u{:04x}", c as u32);
            }
            c => out.push(c),
        }
    }
    out.push('"');
}

// ------------------------------------------------------------------------------------------

struct Cx<'tcx> {
    tcx: TyCtxt<'tcx>,
}

fn ty_str(ty: Ty<'_>) -> String {
    with_no_trimmed_paths!(ty.to_string())
}

impl<'tcx> Cx<'tcx> {
    fn path(&self, did: DefId) -> String {
        with_no_trimmed_paths!(self.tcx.def_path_str(did))
    }

    fn span(&self, sp0: Span) -> J {
        let sm = self.tcx.sess.source_map();
        // statements produced by macro expansion are attributed to the outermost call site
        let sp = if sp0.from_expansion() { sp0.source_callsite() } else { sp0 };
        let lo = sm.lookup_char_pos(sp.lo());
        let hi = sm.lookup_char_pos(sp.hi());
        let file = match &lo.file.name {
            rustc_span::FileName::Real(r) => match r.local_path() {
                Some(p) => p.to_string_lossy().into_owned(),
                None => format!("{:?}", r),
            },
            other => format!("{:?}", other),
        };
        let mut v = vec![
            ("file", s(file)),
            ("line", J::Int(lo.line as i128)),
            ("col", J::Int(lo.col.0 as i128 + 1)),
            ("end_line", J::Int(hi.line as i128)),
            ("end_col", J::Int(hi.col.0 as i128 + 1)),
        ];
        if sp0.from_expansion() {
            let ed = sp0.ctxt().outer_expn_data();
            v.push(("exp", s(format!("{}", ed.kind.descr()))));
        }
        J::Obj(v)
    }

    fn place(&self, body: &Body<'tcx>, p: &Place<'tcx>) -> J {
        let mut projs = Vec::new();
        let mut pty = mir::PlaceTy::from_ty(body.local_decls[p.local].ty);
        for elem in p.projection.iter() {
            let j = match elem {
                ProjectionElem::Deref => J::Arr(vec![s("*")]),
                ProjectionElem::Field(f, fty) => {
                    let name = self.field_name(pty, f.as_usize());
                    J::Arr(vec![
                        s("f"),
                        J::Int(f.as_usize() as i128),
                        s(name),
                        s(ty_str(fty)),
                        s(ty_str(pty.ty)),
                    ])
                }
                ProjectionElem::Index(l) => J::Arr(vec![s("i"), J::Int(l.as_usize() as i128)]),
                ProjectionElem::ConstantIndex { offset, min_length, from_end } => J::Arr(vec![
                    s("ci"),
                    J::Int(offset as i128),
                    J::Int(min_length as i128),
                    J::Bool(from_end),
                ]),
                ProjectionElem::Subslice { from, to, from_end } => {
                    J::Arr(vec![s("sub"), J::Int(from as i128), J::Int(to as i128), J::Bool(from_end)])
                }
                ProjectionElem::Downcast(name, vidx) => {
                    let n = match name {
                        Some(n) => n.to_string(),
                        None => format!("{}", vidx.as_usize()),
                    };
                    J::Arr(vec![s("dc"), s(n), J::Int(vidx.as_usize() as i128)])
                }
                ProjectionElem::OpaqueCast(_) => J::Arr(vec![s("oc")]),
                ProjectionElem::UnwrapUnsafeBinder(_) => J::Arr(vec![s("ub")]),
            };
            projs.push(j);
            pty = pty.projection_ty(self.tcx, elem);
        }
        J::Arr(vec![J::Int(p.local.as_usize() as i128), J::Arr(projs)])
    }

    fn field_name(&self, pty: mir::PlaceTy<'tcx>, idx: usize) -> String {
        match pty.ty.kind() {
            ty::Adt(adt, _) => {
                let v = match pty.variant_index {
                    Some(v) => v,
                    None => {
                        if adt.is_enum() {
                            return format!("{}", idx);
                        }
                        rustc_abi::FIRST_VARIANT
                    }
                };
                let vd = adt.variant(v);
                match vd.fields.iter().nth(idx) {
                    Some(f) => f.name.to_string(),
                    None => format!("{}", idx),
                }
            }
            ty::Closure(did, _) => {
                let caps = self.tcx.closure_captures(did.expect_local());
                match caps.get(idx) {
                    Some(c) => c.to_symbol().to_string(),
                    None => format!("{}", idx),
                }
            }
            _ => format!("{}", idx),
        }
    }

    fn operand(&self, body: &Body<'tcx>, owner: DefId, op: &Operand<'tcx>) -> J {
        match op {
            Operand::Copy(p) => J::Arr(vec![s("cp"), self.place(body, p)]),
            Operand::Move(p) => J::Arr(vec![s("mv"), self.place(body, p)]),
            Operand::Constant(c) => J::Arr(vec![s("c"), self.constant(owner, &c.const_)]),
            #[allow(unreachable_patterns)]
            _ => J::Arr(vec![s("?"), s(format!("{:?}", op))]),
        }
    }

    fn constant(&self, owner: DefId, c: &mir::Const<'tcx>) -> J {
        let tcx = self.tcx;
        let ty = c.ty();
        let mut v: Vec<(&'static str, J)> = vec![("ty", s(ty_str(ty)))];
        if let ty::FnDef(did, gargs) = ty.kind() {
            v.push(("fn", s(self.path(*did))));
            v.push(("fn_full", s(with_no_trimmed_paths!(tcx.def_path_str_with_args(*did, gargs)))));
            return J::Obj(v);
        }
        if let mir::Const::Unevaluated(u, _) = c {
            v.push(("def", s(self.path(u.def))));
            if u.promoted.is_some() {
                v.push(("promoted", J::Bool(true)));
            }
        }
        let env = TypingEnv::post_analysis(tcx, owner);
        let val = match c {
            mir::Const::Val(val, _) => Some(*val),
            _ => c.eval(tcx, env, DUMMY_SP).ok(),
        };
        if let Some(val) = val {
            self.const_value(&mut v, val, ty);
        } else {
            v.push(("dbg", s(format!("{:?}", c))));
        }
        J::Obj(v)
    }

    fn const_value(&self, v: &mut Vec<(&'static str, J)>, val: ConstValue, ty: Ty<'tcx>) {
        let tcx = self.tcx;
        match val {
            ConstValue::ZeroSized => v.push(("zst", J::Bool(true))),
            ConstValue::Scalar(mir::interpret::Scalar::Int(si)) => {
                let bits = si.to_bits_unchecked();
                match ty.kind() {
                    ty::Bool => v.push(("v", J::Bool(bits != 0))),
                    ty::Char => {
                        let ch = char::from_u32(bits as u32).unwrap_or('\u{fffd}');
                        v.push(("v", s(ch.to_string())));
                        v.push(("char", J::Int(bits as i128)));
                    }
                    ty::Int(_) => {
                        let size = si.size();
                        let sv = size.sign_extend(bits);
                        v.push(("v", J::Int(sv as i128)));
                    }
                    _ => v.push(("v", J::Int(bits as i128))),
                }
            }
            ConstValue::Scalar(mir::interpret::Scalar::Ptr(ptr, _)) => {
                let (prov, off) = ptr.prov_and_relative_offset();
                let aid = prov.alloc_id();
                match tcx.global_alloc(aid) {
                    mir::interpret::GlobalAlloc::Memory(alloc) => {
                        let alloc = alloc.inner();
                        let len = alloc.len();
                        let start = off.bytes() as usize;
                        // only decode pointer-free byte data
                        if alloc.provenance().ptrs().is_empty() && start <= len {
                            let bytes =
                                alloc.inspect_with_uninit_and_ptr_outside_interpreter(start..len);
                            v.push(("bytes", J::Arr(bytes.iter().map(|b| J::Int(*b as i128)).collect())));
                            if let Ok(st) = std::str::from_utf8(bytes) {
                                v.push(("bytes_str", s(st)));
                            }
                        } else {
                            // an allocation of fat `&str` pointers (`&&str`, `&[&str; N]`): decode
                            // every (ptr, len) pair into its string
                            let mut strs = Vec::new();
                            let size = len;
                            let mut ok = size % 16 == 0 && start == 0;
                            if ok {
                                for chunk in 0..size / 16 {
                                    let off = rustc_abi::Size::from_bytes((chunk * 16) as u64);
                                    let prov = alloc.provenance().ptrs().get(&off).copied();
                                    let lenbytes = alloc.inspect_with_uninit_and_ptr_outside_interpreter(chunk * 16 + 8..chunk * 16 + 16);
                                    let ptrbytes = alloc.inspect_with_uninit_and_ptr_outside_interpreter(chunk * 16..chunk * 16 + 8);
                                    let mut lb = [0u8; 8];
                                    lb.copy_from_slice(lenbytes);
                                    let slen = u64::from_le_bytes(lb) as usize;
                                    let mut pb = [0u8; 8];
                                    pb.copy_from_slice(ptrbytes);
                                    let poff = u64::from_le_bytes(pb) as usize;
                                    match prov {
                                        Some(p) => match tcx.global_alloc(p.alloc_id()) {
                                            mir::interpret::GlobalAlloc::Memory(inner) => {
                                                let inner = inner.inner();
                                                if poff + slen <= inner.len() && inner.provenance().ptrs().is_empty() {
                                                    let b = inner.inspect_with_uninit_and_ptr_outside_interpreter(poff..poff + slen);
                                                    match std::str::from_utf8(b) {
                                                        Ok(st) => strs.push(s(st)),
                                                        Err(_) => ok = false,
                                                    }
                                                } else {
                                                    ok = false;
                                                }
                                            }
                                            _ => ok = false,
                                        },
                                        None => ok = false,
                                    }
                                }
                            }
                            if ok && !strs.is_empty() {
                                if strs.len() == 1 {
                                    if let J::Str(st) = &strs[0] {
                                        v.push(("v", s(st.clone())));
                                    }
                                }
                                v.push(("strs", J::Arr(strs)));
                            } else {
                                v.push(("ptr", s("memory-with-pointers")));
                            }
                        }
                    }
                    mir::interpret::GlobalAlloc::Static(did) => {
                        v.push(("static", s(self.path(did))));
                    }
                    mir::interpret::GlobalAlloc::Function { instance } => {
                        v.push(("fn", s(self.path(instance.def_id()))));
                    }
                    other => v.push(("ptr", s(format!("{:?}", other)))),
                }
            }
            ConstValue::Slice { alloc_id, meta } => {
                let alloc = tcx.global_alloc(alloc_id).unwrap_memory();
                let bytes = alloc
                    .inner()
                    .inspect_with_uninit_and_ptr_outside_interpreter(0..meta as usize);
                match std::str::from_utf8(bytes) {
                    Ok(st) => v.push(("v", s(st))),
                    Err(_) => {
                        v.push(("bytes", J::Arr(bytes.iter().map(|b| J::Int(*b as i128)).collect())))
                    }
                }
            }
            ConstValue::Indirect { .. } => v.push(("indirect", J::Bool(true))),
        }
    }

    fn adt_variants_map(&self, ty: Ty<'tcx>) -> Option<J> {
        if let ty::Adt(adt, _) = ty.kind() {
            if adt.is_enum() {
                let mut xs = Vec::new();
                for (vidx, discr) in adt.discriminants(self.tcx) {
                    let name = adt.variant(vidx).name.to_string();
                    xs.push(J::Arr(vec![J::Int(discr.val as i128), s(name)]));
                }
                return Some(J::Obj(vec![("adt", s(self.path(adt.did()))), ("variants", J::Arr(xs))]));
            }
        }
        None
    }

    fn rvalue(&self, body: &Body<'tcx>, owner: DefId, rv: &Rvalue<'tcx>) -> J {
        let tcx = self.tcx;
        match rv {
            Rvalue::Use(op, _) => J::Obj(vec![("k", s("use")), ("op", self.operand(body, owner, op))]),
            Rvalue::Repeat(op, _) => {
                J::Obj(vec![("k", s("repeat")), ("op", self.operand(body, owner, op))])
            }
            Rvalue::Ref(_, bk, p) => J::Obj(vec![
                ("k", s("ref")),
                ("mut", J::Bool(matches!(bk, mir::BorrowKind::Mut { .. }))),
                ("place", self.place(body, p)),
            ]),
            Rvalue::ThreadLocalRef(did) => {
                J::Obj(vec![("k", s("tlref")), ("def", s(self.path(*did)))])
            }
            Rvalue::RawPtr(kind, p) => J::Obj(vec![
                ("k", s("rawptr")),
                ("mut", J::Bool(matches!(kind, mir::RawPtrKind::Mut))),
                ("place", self.place(body, p)),
            ]),
            Rvalue::Cast(kind, op, ty) => J::Obj(vec![
                ("k", s("cast")),
                ("kind", s(format!("{:?}", kind))),
                ("op", self.operand(body, owner, op)),
                ("ty", s(ty_str(*ty))),
            ]),
            Rvalue::BinaryOp(op, ab) => J::Obj(vec![
                ("k", s("bin")),
                ("op", s(format!("{:?}", op))),
                ("a", self.operand(body, owner, &ab.0)),
                ("b", self.operand(body, owner, &ab.1)),
            ]),
            Rvalue::UnaryOp(op, a) => J::Obj(vec![
                ("k", s("un")),
                ("op", s(format!("{:?}", op))),
                ("a", self.operand(body, owner, a)),
            ]),
            Rvalue::Discriminant(p) => {
                let pty = p.ty(&body.local_decls, tcx).ty;
                let mut v = vec![("k", s("discr")), ("place", self.place(body, p)), ("ty", s(ty_str(pty)))];
                if let Some(m) = self.adt_variants_map(pty) {
                    v.push(("enum", m));
                }
                J::Obj(v)
            }
            Rvalue::Aggregate(kind, fields) => {
                let mut v = vec![("k", s("agg"))];
                match &**kind {
                    AggregateKind::Array(_) => v.push(("agg", s("array"))),
                    AggregateKind::Tuple => v.push(("agg", s("tuple"))),
                    AggregateKind::Adt(did, vidx, _, _, _) => {
                        let adt = tcx.adt_def(*did);
                        let vd = adt.variant(*vidx);
                        v.push(("agg", s("adt")));
                        v.push(("adt", s(self.path(*did))));
                        v.push(("variant", s(vd.name.to_string())));
                        v.push((
                            "field_names",
                            J::Arr(vd.fields.iter().map(|f| s(f.name.to_string())).collect()),
                        ));
                    }
                    AggregateKind::Closure(did, _) => {
                        v.push(("agg", s("closure")));
                        v.push(("closure", s(self.path(*did))));
                    }
                    other => {
                        v.push(("agg", s(format!("{:?}", other))));
                    }
                }
                v.push(("fields", J::Arr(fields.iter().map(|f| self.operand(body, owner, f)).collect())));
                J::Obj(v)
            }
            Rvalue::CopyForDeref(p) => {
                J::Obj(vec![("k", s("use")), ("op", J::Arr(vec![s("cp"), self.place(body, p)]))])
            }
            other => J::Obj(vec![("k", s("other")), ("dbg", s(format!("{:?}", other)))]),
        }
    }

    fn callee(&self, body: &Body<'tcx>, owner: DefId, func: &Operand<'tcx>) -> J {
        let tcx = self.tcx;
        let fty = func.ty(&body.local_decls, tcx);
        match fty.kind() {
            ty::FnDef(did, gargs) => {
                let mut v = vec![
                    ("kind", s("fn")),
                    ("path", s(self.path(*did))),
                    ("full", s(with_no_trimmed_paths!(tcx.def_path_str_with_args(*did, gargs)))),
                    ("local", J::Bool(did.is_local())),
                    ("krate", s(tcx.crate_name(did.krate).to_string())),
                    (
                        "gargs",
                        J::Arr(gargs.iter().map(|a| s(with_no_trimmed_paths!(a.to_string()))).collect()),
                    ),
                ];
                if let Some(tr) = tcx.trait_of_assoc(*did) {
                    v.push(("trait", s(self.path(tr))));
                }
                if let Some(imp) = tcx.impl_of_assoc(*did) {
                    let self_ty = tcx.type_of(imp).instantiate_identity().skip_norm_wip();
                    v.push(("impl_self", s(ty_str(self_ty))));
                }
                let env = TypingEnv::post_analysis(tcx, owner);
                if let Ok(Some(inst)) = Instance::try_resolve(tcx, env, *did, gargs) {
                    let rdid = inst.def_id();
                    v.push(("resolved", s(self.path(rdid))));
                    v.push(("resolved_local", J::Bool(rdid.is_local())));
                    v.push(("resolved_shim", s(instance_kind(&inst.def))));
                }
                J::Obj(v)
            }
            other => J::Obj(vec![
                ("kind", s("indirect")),
                ("ty", s(ty_str(fty))),
                ("dbg", s(format!("{:?}", other))),
                ("op", self.operand(body, owner, func)),
            ]),
        }
    }

    fn block(&self, body: &Body<'tcx>, owner: DefId, bb: &BasicBlockData<'tcx>) -> J {
        let tcx = self.tcx;
        let mut stmts = Vec::new();
        for st in &bb.statements {
            match &st.kind {
                StatementKind::Assign(b) => {
                    let (p, rv) = &**b;
                    stmts.push(J::Obj(vec![
                        ("k", s("assign")),
                        ("lhs", self.place(body, p)),
                        ("rv", self.rvalue(body, owner, rv)),
                        ("span", self.span(st.source_info.span)),
                    ]));
                }
                StatementKind::SetDiscriminant { place, variant_index } => {
                    let pty = place.ty(&body.local_decls, tcx).ty;
                    let name = match pty.kind() {
                        ty::Adt(adt, _) => adt.variant(*variant_index).name.to_string(),
                        _ => format!("{}", variant_index.as_usize()),
                    };
                    stmts.push(J::Obj(vec![
                        ("k", s("setdiscr")),
                        ("lhs", self.place(body, place)),
                        ("variant", s(name)),
                        ("span", self.span(st.source_info.span)),
                    ]));
                }
                StatementKind::Intrinsic(i) => {
                    stmts.push(J::Obj(vec![("k", s("intrinsic")), ("dbg", s(format!("{:?}", i)))]));
                }
                _ => {}
            }
        }
        let term = bb.terminator();
        let tj = match &term.kind {
            TerminatorKind::Goto { target } => {
                J::Obj(vec![("k", s("goto")), ("t", J::Int(target.as_usize() as i128))])
            }
            TerminatorKind::SwitchInt { discr, targets } => {
                let dty = discr.ty(&body.local_decls, tcx);
                let mut ts = Vec::new();
                for (val, t) in targets.iter() {
                    ts.push(J::Arr(vec![J::Int(val as i128), J::Int(t.as_usize() as i128)]));
                }
                J::Obj(vec![
                    ("k", s("switch")),
                    ("op", self.operand(body, owner, discr)),
                    ("ty", s(ty_str(dty))),
                    ("targets", J::Arr(ts)),
                    ("otherwise", J::Int(targets.otherwise().as_usize() as i128)),
                ])
            }
            TerminatorKind::Return => J::Obj(vec![("k", s("return"))]),
            TerminatorKind::Unreachable => J::Obj(vec![("k", s("unreachable"))]),
            TerminatorKind::UnwindResume => J::Obj(vec![("k", s("resume"))]),
            TerminatorKind::UnwindTerminate(_) => J::Obj(vec![("k", s("terminate"))]),
            TerminatorKind::Drop { place, target, unwind, .. } => J::Obj(vec![
                ("k", s("drop")),
                ("place", self.place(body, place)),
                ("t", J::Int(target.as_usize() as i128)),
                ("unwind", unwind_j(unwind)),
            ]),
            TerminatorKind::Call { func, args, destination, target, unwind, fn_span, .. } => {
                J::Obj(vec![
                    ("k", s("call")),
                    ("callee", self.callee(body, owner, func)),
                    ("args", J::Arr(args.iter().map(|a| self.operand(body, owner, &a.node)).collect())),
                    ("dest", self.place(body, destination)),
                    (
                        "t",
                        match target {
                            Some(t) => J::Int(t.as_usize() as i128),
                            None => J::Null,
                        },
                    ),
                    ("unwind", unwind_j(unwind)),
                    ("fn_span", self.span(*fn_span)),
                ])
            }
            TerminatorKind::TailCall { func, args, .. } => J::Obj(vec![
                ("k", s("tailcall")),
                ("callee", self.callee(body, owner, func)),
                ("args", J::Arr(args.iter().map(|a| self.operand(body, owner, &a.node)).collect())),
            ]),
            TerminatorKind::Assert { cond, expected, msg, target, unwind } => {
                let (kind, detail) = assert_kind(msg);
                J::Obj(vec![
                    ("k", s("assert")),
                    ("cond", self.operand(body, owner, cond)),
                    ("expected", J::Bool(*expected)),
                    ("msg", s(kind)),
                    ("detail", s(detail)),
                    ("ops", J::Arr(assert_ops(msg).into_iter().map(|o| self.operand(body, owner, o)).collect())),
                    ("t", J::Int(target.as_usize() as i128)),
                    ("unwind", unwind_j(unwind)),
                ])
            }
            TerminatorKind::FalseEdge { real_target, .. } => {
                J::Obj(vec![("k", s("goto")), ("t", J::Int(real_target.as_usize() as i128))])
            }
            TerminatorKind::FalseUnwind { real_target, .. } => {
                J::Obj(vec![("k", s("goto")), ("t", J::Int(real_target.as_usize() as i128))])
            }
            other => J::Obj(vec![("k", s("other")), ("dbg", s(format!("{:?}", other)))]),
        };
        let mut tj = tj;
        if let J::Obj(v) = &mut tj {
            v.push(("span", self.span(term.source_info.span)));
        }
        J::Obj(vec![("cleanup", J::Bool(bb.is_cleanup)), ("stmts", J::Arr(stmts)), ("term", tj)])
    }

    fn body(&self, did: DefId) -> Option<J> {
        let tcx = self.tcx;
        let kind = tcx.def_kind(did);
        let kind_s = match kind {
            DefKind::Fn => "fn",
            DefKind::AssocFn => "assoc_fn",
            DefKind::Closure => "closure",
            _ => return None,
        };
        if !tcx.is_mir_available(did) {
            return None;
        }
        let body: &Body<'tcx> = tcx.optimized_mir(did);
        let mut locals = Vec::new();
        for (_, decl) in body.local_decls.iter_enumerated() {
            locals.push(J::Obj(vec![
                ("ty", s(ty_str(decl.ty))),
                ("mut", J::Bool(decl.mutability.is_mut())),
            ]));
        }
        let mut dbg = Vec::new();
        for vdi in &body.var_debug_info {
            if let mir::VarDebugInfoContents::Place(p) = &vdi.value {
                dbg.push(J::Obj(vec![
                    ("name", s(vdi.name.to_string())),
                    ("place", self.place(body, p)),
                    ("arg", match vdi.argument_index {
                        Some(i) => J::Int(i as i128),
                        None => J::Null,
                    }),
                ]));
            }
        }
        let blocks: Vec<J> = body.basic_blocks.iter().map(|bb| self.block(body, did, bb)).collect();
        let mut v = vec![
            ("path", s(self.path(did))),
            ("kind", s(kind_s)),
            ("span", self.span(body.span)),
            ("arg_count", J::Int(body.arg_count as i128)),
            ("locals", J::Arr(locals)),
            ("debug", J::Arr(dbg)),
            ("blocks", J::Arr(blocks)),
        ];
        if matches!(kind, DefKind::Fn | DefKind::AssocFn) {
            v.push(("vis", s(format!("{:?}", tcx.visibility(did)))));
            let sig = tcx.fn_sig(did).instantiate_identity().skip_norm_wip();
            v.push(("sig", s(with_no_trimmed_paths!(sig.to_string()))));
            if let Some(imp) = tcx.impl_of_assoc(did) {
                let self_ty = tcx.type_of(imp).instantiate_identity().skip_norm_wip();
                v.push(("impl_self", s(ty_str(self_ty))));
                if let Some(tr) = tcx.impl_opt_trait_ref(imp) {
                    let tr = tr.instantiate_identity().skip_norm_wip();
                    v.push(("impl_trait", s(with_no_trimmed_paths!(tr.to_string()))));
                    v.push(("impl_trait_def", s(self.path(tr.def_id))));
                }
            }
            v.push(("name", s(tcx.item_name(did).to_string())));
        }
        if matches!(kind, DefKind::Closure) {
            let parent = tcx.typeck_root_def_id(did);
            v.push(("parent", s(self.path(parent))));
            let caps = tcx.closure_captures(did.expect_local());
            v.push(("captures", J::Arr(caps.iter().map(|c| s(c.to_symbol().to_string())).collect())));
        }
        Some(J::Obj(v))
    }

    fn adts(&self) -> J {
        let tcx = self.tcx;
        let mut out = Vec::new();
        for lid in tcx.hir_crate_items(()).definitions() {
            let did = lid.to_def_id();
            match tcx.def_kind(did) {
                DefKind::Struct | DefKind::Enum | DefKind::Union => {}
                _ => continue,
            }
            let adt = tcx.adt_def(did);
            let mut variants = Vec::new();
            let discrs: Vec<_> = if adt.is_enum() {
                adt.discriminants(tcx).map(|(_, d)| d.val as i128).collect()
            } else {
                vec![0]
            };
            for (i, vd) in adt.variants().iter().enumerate() {
                let mut fields = Vec::new();
                for f in vd.fields.iter() {
                    let fty = tcx.type_of(f.did).instantiate_identity().skip_norm_wip();
                    fields.push(J::Obj(vec![
                        ("name", s(f.name.to_string())),
                        ("ty", s(ty_str(fty))),
                        ("vis", s(format!("{:?}", f.vis))),
                    ]));
                }
                variants.push(J::Obj(vec![
                    ("name", s(vd.name.to_string())),
                    ("discr", J::Int(*discrs.get(i).unwrap_or(&-1))),
                    ("fields", J::Arr(fields)),
                ]));
            }
            out.push(J::Obj(vec![
                ("path", s(self.path(did))),
                ("kind", s(if adt.is_enum() { "enum" } else if adt.is_struct() { "struct" } else { "union" })),
                ("vis", s(format!("{:?}", tcx.visibility(did)))),
                ("variants", J::Arr(variants)),
                ("span", self.span(tcx.def_span(did))),
            ]));
        }
        J::Arr(out)
    }

    fn impls_and_statics(&self) -> (J, J, J) {
        let tcx = self.tcx;
        let mut impls = Vec::new();
        let mut statics = Vec::new();
        let mut consts = Vec::new();
        for lid in tcx.hir_crate_items(()).definitions() {
            let did = lid.to_def_id();
            match tcx.def_kind(did) {
                DefKind::Impl { of_trait } => {
                    let self_ty = tcx.type_of(did).instantiate_identity().skip_norm_wip();
                    let mut v = vec![
                        ("self_ty", s(ty_str(self_ty))),
                        ("span", self.span(tcx.def_span(did))),
                    ];
                    if of_trait {
                        if let Some(tr) = tcx.impl_opt_trait_ref(did) {
                            let tr = tr.instantiate_identity().skip_norm_wip();
                            v.push(("trait", s(with_no_trimmed_paths!(tr.to_string()))));
                            v.push(("trait_def", s(self.path(tr.def_id))));
                        }
                    }
                    let mut items = Vec::new();
                    for item in tcx.associated_items(did).in_definition_order() {
                        items.push(J::Obj(vec![
                            ("name", s(item.name().to_string())),
                            ("path", s(self.path(item.def_id))),
                            ("kind", s(format!("{:?}", item.kind).split('{').next().unwrap_or("").trim().to_string())),
                        ]));
                    }
                    v.push(("items", J::Arr(items)));
                    impls.push(J::Obj(v));
                }
                DefKind::Static { mutability, .. } => {
                    let sty = tcx.type_of(did).instantiate_identity().skip_norm_wip();
                    let env = TypingEnv::post_analysis(tcx, did);
                    statics.push(J::Obj(vec![
                        ("path", s(self.path(did))),
                        ("ty", s(ty_str(sty))),
                        ("mut", J::Bool(mutability.is_mut())),
                        ("freeze", J::Bool(sty.is_freeze(tcx, env))),
                        ("span", self.span(tcx.def_span(did))),
                    ]));
                }
                DefKind::Const { .. } | DefKind::AssocConst { .. } => {
                    let cty = tcx.type_of(did).instantiate_identity().skip_norm_wip();
                    let mut v = vec![("path", s(self.path(did))), ("ty", s(ty_str(cty)))];
                    if tcx.generics_of(did).is_empty() {
                        let env = TypingEnv::post_analysis(tcx, did);
                        let c = mir::Const::from_unevaluated(tcx, did).instantiate_identity().skip_norm_wip();
                        if let Ok(val) = c.eval(tcx, env, DUMMY_SP) {
                            self.const_value(&mut v, val, cty);
                        }
                    }
                    consts.push(J::Obj(v));
                }
                _ => {}
            }
        }
        (J::Arr(impls), J::Arr(statics), J::Arr(consts))
    }
}

fn instance_kind(k: &ty::InstanceKind<'_>) -> String {
    let d = format!("{:?}", k);
    d.split(|c| c == '(' || c == ' ' || c == '{').next().unwrap_or("").to_string()
}

fn unwind_j(u: &mir::UnwindAction) -> J {
    match u {
        mir::UnwindAction::Cleanup(bb) => J::Int(bb.as_usize() as i128),
        _ => J::Null,
    }
}

fn assert_kind<'a, 'tcx>(msg: &'a mir::AssertKind<Operand<'tcx>>) -> (String, String) {
    use mir::AssertKind::*;
    match msg {
        BoundsCheck { .. } => ("BoundsCheck".into(), String::new()),
        Overflow(op, _, _) => ("Overflow".into(), format!("{:?}", op)),
        OverflowNeg(_) => ("OverflowNeg".into(), String::new()),
        DivisionByZero(_) => ("DivisionByZero".into(), String::new()),
        RemainderByZero(_) => ("RemainderByZero".into(), String::new()),
        MisalignedPointerDereference { .. } => ("MisalignedPointerDereference".into(), String::new()),
        NullPointerDereference => ("NullPointerDereference".into(), String::new()),
        other => {
            let d = format!("{:?}", other);
            (d.split(|c| c == '(' || c == ' ' || c == '{').next().unwrap_or("").to_string(), d)
        }
    }
}

fn assert_ops<'a, 'tcx>(msg: &'a mir::AssertKind<Operand<'tcx>>) -> Vec<&'a Operand<'tcx>> {
    use mir::AssertKind::*;
    match msg {
        BoundsCheck { len, index } => vec![len, index],
        Overflow(_, a, b) => vec![a, b],
        OverflowNeg(a) | DivisionByZero(a) | RemainderByZero(a) => vec![a],
        _ => vec![],
    }
}

struct Cb {
    features: Vec<String>,
}

impl rustc_driver::Callbacks for Cb {
    fn after_analysis<'tcx>(
        &mut self,
        _c: &rustc_interface::interface::Compiler,
        tcx: TyCtxt<'tcx>,
    ) -> Compilation {
        let out_dir = match std::env::var("MIRFACTS_OUT") {
            Ok(d) => d,
            Err(_) => return Compilation::Continue,
        };
        let crates = std::env::var("MIRFACTS_CRATES").unwrap_or_else(|_| "bpaf".to_string());
        let name = tcx.crate_name(LOCAL_CRATE).to_string();
        if !crates.split(',').any(|c| c == name) {
            return Compilation::Continue;
        }
        // skip build scripts / test harness builds of other kinds? keep everything named alike
        let cx = Cx { tcx };
        let mut bodies = Vec::new();
        for lid in tcx.mir_keys(()) {
            let did = lid.to_def_id();
            if let Some(b) = cx.body(did) {
                bodies.push(b);
            }
        }
        let (impls, statics, consts) = cx.impls_and_statics();
        let features: Vec<J> = self.features.iter().cloned().map(s).collect();
        let crate_types: Vec<J> =
            tcx.crate_types().iter().map(|t| s(format!("{:?}", t))).collect();
        let root = J::Obj(vec![
            ("crate", s(name.clone())),
            ("features", J::Arr(features)),
            ("crate_types", J::Arr(crate_types)),
            ("is_test", J::Bool(tcx.sess.is_test_crate())),
            ("bodies", J::Arr(bodies)),
            ("adts", cx.adts()),
            ("impls", impls),
            ("statics", statics),
            ("consts", consts),
        ]);
        let mut out = String::new();
        root.write(&mut out);
        let path = format!("{}/{}.{}.json", out_dir, name, std::process::id());
        std::fs::write(&path, out).expect("mirfacts: cannot write fact file");
        Compilation::Continue
    }
}


fn main() {
    let mut args: Vec<String> = std::env::args().collect();
    // RUSTC_WORKSPACE_WRAPPER passes the real rustc as argv[1]
    if args.len() > 1 && (args[1].ends_with("rustc") || args[1].contains("/rustc")) {
        args.remove(1);
    }
    let mut features = Vec::new();
    let mut it = args.iter();
    while let Some(a) = it.next() {
        if a == "--cfg" {
            if let Some(v) = it.next() {
                if let Some(f) = v.strip_prefix("feature=\"") {
                    features.push(f.trim_end_matches('"').to_string());
                }
            }
        }
    }
    features.sort();
    rustc_driver::run_compiler(&args, &mut Cb { features });
}
