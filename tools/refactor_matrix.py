#!/usr/bin/env python3
"""refactor_matrix.py <dir with *.diff> ...: apply each behaviour-preserving refactoring to a scratch copy of /repo and run
every claimed check; anything but exit 0 is a false alarm (or a broken check) to be fixed.  Writes refactors/MATRIX.json."""
import json, os, subprocess, sys, shutil, glob, tempfile, fcntl
V = '/verif'
man = json.load(open(V + '/MANIFEST.json'))
checks = [c['property_id'] for c in man['checks']]
if os.environ.get('CHECKS'):
    checks = os.environ['CHECKS'].split(',')
patches = []
for d in sys.argv[1:]:
    patches += sorted(glob.glob(os.path.join(os.path.abspath(d), '*.diff'))) if os.path.isdir(d) else [os.path.abspath(d)]
work = tempfile.mkdtemp(prefix='refmatrix_')
repo = work + '/repo'
subprocess.check_call(['rsync', '-a', '--exclude', 'target', '--exclude', '.git', '/repo/', repo + '/'])
subprocess.check_call('cd %s && git init -q && git add -A && git commit -qm base' % repo, shell=True)
os.makedirs(V + '/refactors', exist_ok=True)
out_path = V + '/refactors/MATRIX.json'
res = json.load(open(out_path)) if os.path.exists(out_path) else {}
env = dict(os.environ, VERIF_REPO=repo, VERIF_EVIDENCE_DIR=work + '/evidence')
done_here = set()
for p in patches:
    name = '%s/%s' % (os.path.basename(os.path.dirname(p)), os.path.basename(p))
    subprocess.check_call('cd %s && git checkout -q -- . && git clean -fdq' % repo, shell=True)
    r = subprocess.run('cd %s && git apply %s' % (repo, p), shell=True, stdout=subprocess.PIPE, stderr=subprocess.STDOUT)
    if r.returncode != 0:
        res[name] = {'error': 'patch does not apply: ' + r.stdout.decode()[-200:]}; print(name, 'does not apply'); continue
    alarms = {}; broken = {}
    for c in checks:
        pr = subprocess.run([V + '/check', c], env=env, cwd=V, stdout=subprocess.PIPE, stderr=subprocess.STDOUT)
        o = pr.stdout.decode(errors='replace')
        if pr.returncode == 1:
            alarms[c] = [l for l in o.splitlines() if l.startswith('  rule')][:4]
        elif pr.returncode != 0:
            broken[c] = o.splitlines()[-14:]
    if os.environ.get('CHECKS') and name in res:
        res[name]['alarms'].update(alarms); res[name]['broken'].update(broken)
        for c in checks:
            if c not in alarms: res[name]['alarms'].pop(c, None)
            if c not in broken: res[name]['broken'].pop(c, None)
    else:
        res[name] = {'alarms': alarms, 'broken': broken}
    done_here.add(name)
    print(name, 'alarms', sorted(alarms), 'broken', sorted(broken), flush=True)
    with open(out_path + '.lock', 'w') as lk:
        fcntl.flock(lk, fcntl.LOCK_EX)
        cur = json.load(open(out_path)) if os.path.exists(out_path) else {}
        cur.update({k: v for k, v in res.items() if k in done_here})
        json.dump(cur, open(out_path, 'w'), indent=1, sort_keys=True)
shutil.rmtree(work, ignore_errors=True)
