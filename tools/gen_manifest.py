#!/usr/bin/env python3
"""Regenerates MANIFEST.json from the table below (claimed checks) and properties.jsonl."""
import json, os, sys
HERE = os.path.dirname(os.path.dirname(os.path.abspath(__file__)))
props = [json.loads(l)['id'] for l in open(os.path.join(HERE, 'properties.jsonl'))]

TRUST = ('trusted base: rustc nightly type-checked MIR (mir-opt-level=0) of /repo as dumped by tools/mirfacts, and the Python '
         'rule library under rules/ (incl. rules/normalize.py, which renames moved/renamed functions back to their reviewed paths and inlines helpers the reviewed tree does not know before rules run; audit/functions.json); user closures, FromStr impls and third-party Parser impls are assumptions. ')

def C(technique, text, ref, note='', category='other'):
    text = text + ' The complete, current list of rule groups (several were added after this summary was written: builder wiring table, who-may-call registries, shared clauses of neighbouring properties) is DESIGN.md Appendix E, generated from the rule modules.'
    return dict(technique=technique, text=text, ref=ref, note=TRUST + note, category=category)

CLAIMED = {
 'C01': C('consumer-discipline PROV/PAIR rules, decision tables by abstract evaluation over finite domains, macro-expansion witness, all on type-checked MIR',
   'Decides structural necessary conditions of grammar conformance: every primitive consumer takes the leftmost in-scope present match through the filtered iterator and removes what it read; '
   'ledger primitives are guarded; every documented form of construct! (expanded by the current macro in a witness crate) evaluates each field once, in order, on the shared state, without '
   'short-circuit, reporting the first failing field; parse_option decision table (76 rows) and loop-exit rules for some/many/count/last/collect; the leftover check dominates every Ok of run_subparser. '
   'Does NOT decide language equivalence for every shape x vector (run-time data).', 'DESIGN.md sections 0, 5 and Appendix E, C01'),
 'C02': C('walker-exhaustiveness and accumulator-wiring rules for the short-name registry, accept-set tables, lossy-call census + passthrough reachability in parse_os_str, decision table of disambiguate_short by abstract evaluation, byte/char boundary discipline by provenance',
   'Decides: the registry that splits `-abc` is complete and wired (flags/args never swapped, help/version shorts included, built from the own meta before tokenising); the attached-value bit is set exactly where the value '
   'item is pushed next and take_arg accepts exactly Word|ArgWord; no lossy/normalising call on the value path, OsString/PathBuf bypass to_str; the 4-row cluster table; cluster cut offsets are character boundaries '
   '(found and fixed cdb4e81: `-ñ=v`). Does NOT decide that split_os_argument is a correct transducer for every byte string.', 'DESIGN.md sections 0, 5 and Appendix E, C02'),
 'C03': C('provenance (index-is-opaque) + search-kind and accept-set tables over MIR',
   'Decides the anchored mechanism only: named consumers select by name over the whole scope and the index found flows only into remove/get/+1/current; words never match a name; '
   'positional consumers skip named items. Does NOT decide permutation invariance of outcomes.', 'DESIGN.md sections 0, 5 and Appendix E, C03'),
 'C04': C('audited panic-site census over MIR (asserts, Index/slice ops, unwrap, explicit panics, exit), byte/char index discipline by provenance, loop-driver classification + cursor/progress variants, call-graph SCC census, effect/static/interior-mutability census',
   'Decides: every panic-capable site of every analysed configuration is covered by the hand-reviewed audit, budgeted per function and site CLASS (sites of new helpers are charged to the reviewed callers; additions of in-memory sizes are discharged automatically); str slice and String cut offsets are byte offsets by provenance; '
   'constructor invariants behind `[0]`/todo!(); check_invariants rejects what ParseAdjacent would panic on (fixed 6c3b196); every loop is driven by a finite std/caller iterator or is a listed open loop whose '
   'variant is checked; every call-graph cycle is a listed structural recursion; group tokens never nest; ambient effects, statics, thread-locals, interior mutability absent outside the listed sites; eval/meta take &self; '
   'run_inner builds a fresh State. Found and fixed: d5c7918, f0c3a74, 6c3b196, de9de29. Known findings: two process::exit sites of the completion protocol. '
   'Does NOT re-derive the arithmetic the audit asserts; user closures assumed total.', 'DESIGN.md sections 0, 5 and Appendix E, C04',
   note='audit/panic_audit.json is part of the trusted base (reviewed reasons).'),
 'C05': C('who-may-write census, guard control-dependence, read=>remove pairing, error-discipline census, symbolic scope tracking along all paths (set_scope/clone/swap)',
   'Decides: the consumption ledger is written only by the listed primitives and is private (third-party parsers cannot consume); consumption acts only on in-scope present items; '
   'success of a consumer implies removal of what it read; Ok of run_subparser implies empty scope; the Err->Ok conversion sites are exactly the listed ones and each restores or never adopts '
   'the failed attempt; ParseAdjacent/ParseCommand leave the caller scope un-narrowed on every Ok path (found and fixed 9061519). Does NOT decide scope arithmetic for every shape.', 'DESIGN.md sections 0, 5 and Appendix E, C05'),
 'C06': C('enum->bool table extraction, construction-site context rule (control dependence on consumer success edges), decision tables of the wrappers by abstract evaluation, error-discipline census',
   'Decides: can_catch partitions the 17 Message variants as the property states; a variant built after a consumer succeeded is final; fallback/fallback_with/hide/parse_option decision tables '
   '(per variant x catch x consumed) default only for the absence class and return the same error otherwise; repetition loops stop on failure; conversion/guard text is carried into the rendered message. '
   'Known finding: the retry of an adjacent command replaces a final conversion failure of its first run (text lost, run still fails). Does NOT decide which error survives a particular nesting in alternatives.', 'DESIGN.md sections 0, 5 and Appendix E, C06'),
 'C07': C('fork-isolation provenance, decision table of this_or_that_picks_first by abstract evaluation over (depth x err_a x err_b x tie x winner), ItemState tables + who-may-inspect census, macro witness',
   'Decides: both alternatives run exactly once on distinct clones; the 14-row adopt-one table (which fork is swapped into the caller state, result, conflicts saved; ties to the first, deeper fork first); '
   'the boolean selects the matching value; pick_winner scans forward over the ledgers only and reports its own side at the first mismatch; conflict-marked items stay present and only the listed functions '
   'inspect ItemState; conflicts are reported before other guesses; construct!([..]) is a left-nested or_else chain. Does NOT decide value order under many/some.', 'DESIGN.md sections 0, 5 and Appendix E, C07'),
 'C08': C('front-only/accept-set tables for take_cmd, provenance of the scope bounds, dominance (path push before inner run), return-provenance (Ok/Err only from the inner run), depth rows of the C07 table',
   'Decides: the name must be the front unconsumed item; on a match the scope is `name index .. enclosing end`, the name is pushed on the path before the inner run, Ok and Err are exactly the inner '
   'run_subparser outcome (wrapped final), a retry only turns failure into success; nothing is touched when unmatched; deeper fork priority; final outcomes never caught (fixed e30e3d1); adjacent commands '
   'restore the scope (fixed 9061519). Does NOT decide acceptance of whole lines.', 'DESIGN.md sections 0, 5 and Appendix E, C08'),
 'C10': C('return census, edge-restricted reachability (error only after failed help lookup), provenance of render_help arguments, 17x17 combine_with table by abstract evaluation, sibling agreement Info::eval/meta',
   'Decides: run_subparser has exactly the listed outcome kinds; the error is rendered only on the Err edge of the help/version lookup performed on the same state; help payload describes the own level; '
   'help before version, version only when configured (eval/meta agree); only Ambiguity precedes; a ParseFailure operand always survives combine_with; final outcomes never caught; usage fallback tests the pristine state. '
   'A failed adjacent group hands its state back with the scope of the caller (found and fixed 0baea63) and ties keep the earlier attempt; the deeper alternative decides. Known finding: construct! drops later fields outcomes (inner help lost when an earlier field fails). Does NOT decide which failing field is reported.', 'DESIGN.md sections 0, 5 and Appendix E, C10',
   note='Known finding S.sequential listed in known_findings.json.'),
 'C09': C('tokenizer control-dependence/provenance rules, accept-set tables, strictness decision table by abstract evaluation',
   'Decides: after `--` the tokenizer bypasses option splitting and pushes PosWord; pos_only is set only on the literal in the non-option arm; the separator index is recorded at detection and '
   'pre-consumed; PosWord is never accepted as name, command or argument value; take_positional_word tags Word/PosWord; parse_pos_word table over Position x side; StrictPos final, NonStrictPos catchable; '
   'help lookup goes through take_flag. Does NOT decide completion interplay.', 'DESIGN.md sections 0, 5 and Appendix E, C09'),
 'C11': C('enum->const tables, per-arm call census, dominance ordering, provenance of exit/print arguments, who-may-call census',
   'Decides: exit_code table; print_message stream per variant and payload/template per arm; run = run_inner(current_args()) with Ok silent and Err printing before exit(exit_code(err)); '
   'current_args consumes exactly argv[0] (file_name().to_str()) before boxing the same iterator; exit/print call sites are the listed ones; every render arm writes text. '
   'Does NOT decide byte equality across the process boundary.', 'DESIGN.md sections 0, 5 and Appendix E, C11'),
 'C12': C('eval/meta sibling agreement per impl Parser (field provenance), Meta::Skip producer census, walker-exhaustiveness tables for the 7 Meta walkers, Dedup-key vs rendered-fields agreement, field-copy provenance, dominance order of render_help',
   'Decides: for each of the 30 Parser impls the sub-parsers evaluated are exactly the sub-parsers described and names matched are names described (listed exceptions: hide, construct!); Skip only from hide/pure/fail/name-less; '
   'every walker visits all children of And/Or and the child of each wrapper (listed exceptions by design); the de-duplication key covers every field the help line shows; HelpItem::from copies fields one to one; '
   'first names shown are from the searched vectors; descr/usage/header/items/footer order. Does NOT decide grouping/dedup outcomes for particular shapes.', 'DESIGN.md sections 0, 5 and Appendix E, C12'),
 'C13': C('width non-interference by edge-restricted reachability (blocks that exist only because of a max_width comparison), exactly-once push by must-pass-through, constant census of all writes to the output, provenance of the width argument and of splitter chunks',
   'Decides: in the width-dependent region the output is only extended by newlines and truncated to its own trim_end(), and only a single-space chunk may be skipped; every Raw chunk is pushed exactly once; all other writes are '
   'whitespace constants or the TermRef backtick; `full` only starts skipping after the first paragraph; width comes from MAX_WIDTH / the formatter / the print_message parameter; the splitter only yields sub-slices of its input. '
   'the line break before a chunk that does not fit depends only on `position + length > max_width` and a non-empty output; payload cursor advances exactly once per text token; Skip push/pop paired per block kind. Does NOT decide the numeric line-length bound (byte vs char counts).', 'DESIGN.md sections 0, 5 and Appendix E, C13'),
 'C14': C('must-pass-through on run_subparser, no-late-None reachability in check_complete, stash PAIR rules (swap_comps_with brackets), hint-emission must-pass-through on failing exits, hand-over rules for wrappers, dispatch table',
   'Decides (autocomplete builds): parsed value / help / error are reachable only after check_complete() returned None; check_complete gives up only when completion is off or the last item is not UTF-8; hide drops its stash while '
   'group_help/complete/complete_shell hand it back; every failing exit of the four primitives emits a hint (listed exception: NonStrictPos), hints carry self.depth() and are recorded only in completion mode; fallback/fallback_with move hints '
   'back on every failure; revision dispatch. Does NOT decide the candidate set for a prefix.', 'DESIGN.md sections 0, 5 and Appendix E, C14'),
 'C15': C('typed taint + template/CFG rules over type-checked MIR (custom rustc_private driver)',
   'Decides structural necessary conditions on every autocomplete configuration: every fmt argument render_zsh/render_bash '
   'write has the quoting newtype Shell as its resolved Display type (constants, integers and developer-supplied Raw strings '
   'excepted), every directive template ends in a newline, the accumulator is what is returned once written to, every return '
   'has iterated or size-tested both inputs (items, ops), the Shell escaper opens/closes/escapes, revision->renderer dispatch '
   'and the stub revision constants agree; line-oriented renderers (fish, elvish) cut descriptions at the first line break (found and fixed 1f8621c); string cuts use byte offsets. Does NOT decide what a real shell does with the text.', 'DESIGN.md sections 0, 5 and Appendix E, C15',
   note='Known findings (render_fish / render_simple never emit requested shell completers) are listed in known_findings.json.'),
 'C16': C('taint chain through both HTML replacements, per-Block tag tables from decoded constants, BlockStart/BlockEnd pairing by must-pass-through, escaper arm tables (byte tests) and line-start guard control dependence, interprocedural constant-argument census for unescaped roff source, section-walk rules',
   'Decides (docgen builds): the only dynamic text render_html appends is a chunk escaped for both < and >; tags opened per Block are closed by its BlockEnd arm and change_style nests correctly; every BlockStart is closed on all paths; '
   'the roff Spaces rule neutralises space AND newline, the Special rules write \\& at line start before . or \', at_line_start is tracked; unescaped roff source is constant at every call site; extract_sections records the level and '
   'descends into every HelpItem::Command of the raw item list; html/markdown/manpage reuse the --help pipeline; render_roff clears its header-capture flag and flushes on every path of the end arm of each block kind that sets it; payload cursors advance exactly once per text token; the rule for request arguments neutralises backslashes (found and fixed 8661d4e); inline styles are closed before block tags; text arms write no block tags. Does NOT decide full roff/markdown correctness.', 'DESIGN.md sections 0, 5 and Appendix E, C16'),
 'C17': C('translation validation: canonical MIR terms of the derive-generated function vs the documented hand-written equivalent, over a base family plus a VERIF_SEED-generated family',
   'For each family member the function generated by the current bpaf_derive and the combinator function prescribed by the documented rules (independent model, witness/derive_family/gen.py) are compiled and reduced to canonical '
   'terms (resolved callees with generic arguments, constants, aggregate shapes, closure statement shapes; order-insensitive builder chains folded). Equal terms => same parser value => identical outcome on every argv. '
   '40 base members (one per rule/annotation, incl. explicit group_help vs doc comment, blank-only and single blank doc lines, constant consumers, version and explicit header/footer on commands, naming annotations on unit variants, non-ASCII field names, doc comments with long gaps, parser-mode annotations) + 30 (quick) / 300 (thorough) seeded members. Definitions outside the family are not covered; the macro runs at compile time on the witnesses, nothing of bpaf is executed.', 'DESIGN.md sections 0, 5 and Appendix E, C17',
   category='translation_validation'),
 'C18': C('who-may-call census incl. fn-item references, name provenance, precedence by edge-restricted reachability, single-conversion join',
   'Decides: std::env is used only at the listed sites with names from the declared env list; the flag/argument consumers consult the command line on every path and the environment only on '
   'the absent edge; env and command-line values share the one parse_os_str conversion; both-absent exits build Missing/NoEnv which are catchable; every declared variable is consulted; a repetition threads one progress counter so the extra evaluation that falls back to the variable is not an occurrence. Known finding: that extra evaluation still converts the variable, so an INVALID value fails a run whose line supplied values. Does NOT decide wrapper behaviour (C06).', 'DESIGN.md sections 0, 5 and Appendix E, C18'),
 'C19': C('symbolic scope tracking at every evaluation of the group parser (abstract walk over all loop-bounded paths), control dependence of the hole trim, shape rules for the run-of-present-items window, edge-restricted reachability of the success return, forward-scan rules',
   'Decides structural necessary conditions of the anchored mechanism only: attempts run on clones, never on the state of the caller, and both success and failure give the caller its scope back; the scope handed to the group parser is the single-item probe window, '
   '`start..end of scope` trimmed to the run of present items exactly when the window has holes, or the narrower window proposed by adjacent_scope - nothing else; adjacently_available_from stops at the first consumed item; an attempt is accepted only when '
   'adjacent_scope has no narrower window to propose (otherwise it is re-evaluated on it), also for adjacent commands; adjacent_scope scans both ledgers forward from the scope start; start positions increase and the first successful one returns (blocks in command-line order); '
   '`.adjacent()` turns failfast on. Does NOT decide which vectors are accepted for a shape: that is index arithmetic over run-time ledgers, outside static reach.', 'DESIGN.md sections 0, 5 and Appendix E, C19'),
 'C20': C('differential MIR between feature configurations (span-aligned statement multisets) + abstract evaluation under the assumption "completion is off" + inertness summaries of the completion family',
   'Decides: every analysed configuration builds; batteries/docgen(/derive) only add items (listed carried-data sites); colour features differ only at print-only sites and at render_console push sites that '
   'correspond one-to-one to Color::push_str, whose Monochrome arm is a verbatim push_str; every autocomplete-only statement that is live with completion off is a family call, a pure call or a write to an '
   'autocomplete-only local (nothing autocomplete-only writes the result, the State or a shared local); each family member returns a constant and writes only `comp` when completion is off; check_next is inert '
   'without the marker; cfg(not) arms agree with the feature arm under the assumption (fixed a3af15e, efd14f3). Trusted: the analyser summaries.', 'DESIGN.md sections 0, 5 and Appendix E, C20'),
}

NA_REASON = {
}

checks = []
for p in props:
    if p in CLAIMED:
        c = CLAIMED[p]
        checks.append({
            'property_id': p,
            'quick_cmd': './check %s --tier quick' % p,
            'thorough_cmd': './check %s --tier thorough' % p,
            'evidence_file': '/verif/evidence/%s.json' % p,
            'replay_cmd_template': './check %s --replay {path}' % p,
            'engine': 'mirfacts+rules',
            'level_claimed': {'category': c.get('category', 'other'), 'text': c['text'], 'design_ref': c['ref']},
            'level_note': c['note'],
            'technique': c['technique'],
        })
na = []
for p in props:
    if p not in CLAIMED:
        na.append({'property_id': p, 'reason': NA_REASON.get(p, 'check not built yet at this commit (DESIGN.md build order); nothing is claimed ahead of its check')})

m = {
 'version': 1,
 'setup_cmd': 'cd /verif/tools/mirfacts && CARGO_NET_OFFLINE=true cargo build --offline 2>&1 | tail -3',
 'hooks': {
   'guard': 'pacak_bpaf_verif',
   'enable': 'no hooks or instrumentation are used: the analysis reads the unmodified source through the compiler (the guard name is reserved, no source commit uses it)',
   'baseline_off_cmd': '/verif/tools/run_baseline.sh',
   'source_commits': [],
   'add_only': True,
 },
 'engines': [
   {'name': 'mirfacts', 'path': 'tools/mirfacts', 'serves_properties': sorted(CLAIMED),
    'kind_free_text': 'rustc_private driver (RUSTC_WORKSPACE_WRAPPER) dumping type-checked MIR, resolved callees, decoded constants, ADT/impl tables as JSON per feature configuration'},
   {'name': 'rules', 'path': 'rules', 'serves_properties': sorted(CLAIMED),
    'kind_free_text': 'Python rule library: CFG, dominators, control dependence, reaching definitions, provenance, fmt-template decoding, per-property rule modules'},
 ],
 'checks': checks,
 'not_applicable': na,
 'notes': 'Static analysis only: no check runs bpaf code. exit 0 = every decided structural clause holds on the current tree; see DESIGN.md for the undecided remainder of each property. fix: commits in /repo are listed in known_findings.json (fixed).',
}
json.dump(m, open(os.path.join(HERE, 'MANIFEST.json'), 'w'), indent=1)
print('claimed', sorted(CLAIMED), 'not_applicable', len(na))
