#!/usr/bin/env python3
"""Regenerates MANIFEST.json from the table below (claimed checks) and properties.jsonl."""
import json, os, sys
HERE = os.path.dirname(os.path.dirname(os.path.abspath(__file__)))
props = [json.loads(l)['id'] for l in open(os.path.join(HERE, 'properties.jsonl'))]

TRUST = ('trusted base: rustc nightly type-checked MIR (mir-opt-level=0) of /repo as dumped by tools/mirfacts, and the Python '
         'rule library under rules/; user closures, FromStr impls and third-party Parser impls are assumptions. ')

CLAIMED = {
 'C15': dict(
   technique='typed taint + template/CFG rules over type-checked MIR (custom rustc_private driver)',
   text=('Decides structural necessary conditions on every autocomplete configuration: every fmt argument render_zsh/render_bash '
         'write has the quoting newtype Shell as its resolved Display type (constants, integers and developer-supplied Raw strings '
         'excepted), every directive template ends in a newline, the accumulator is what is returned once written to, every return '
         'has iterated or size-tested both inputs (items, ops), the Shell escaper opens/closes/escapes, revision->renderer dispatch '
         'and the stub revision constants agree. Holds for all inputs at once because it is a property of the code shape; does NOT '
         'decide what a real shell does with the text. Right level: the property is a taint/format discipline.'),
   note=TRUST + 'Known findings (render_fish / render_simple never emit requested shell completers) are listed in known_findings.json.',
   ref='DESIGN.md section 5 C15'),
}

NA_REASON = {
 'C19': ('contiguity of adjacent blocks is index arithmetic over the run-time consumption ledger (adjacent_scope, '
         'adjacently_available_from, the start-position scan); its only shape-of-code clauses (inner parser on a narrowed clone, '
         'scope restored on success) are decided under C05; no other structural necessary condition exists, so static analysis '
         'gives no verdict on this property'),
}

checks = []
for p in props:
    if p in CLAIMED:
        c = CLAIMED[p]
        checks.append({
            'property_id': p,
            'quick_cmd': './check %s --tier quick' % p,
            'thorough_cmd': './check %s --tier thorough' % p,
            'evidence_file': '/verif/evidence/%s.json' % p,
            'replay_cmd_template': './check %s --replay {path}' % p,
            'engine': 'mirfacts+rules',
            'level_claimed': {'category': c.get('category', 'other'), 'text': c['text'], 'design_ref': c['ref']},
            'level_note': c['note'],
            'technique': c['technique'],
        })
na = []
for p in props:
    if p not in CLAIMED:
        na.append({'property_id': p, 'reason': NA_REASON.get(p, 'check not built yet at this commit (DESIGN.md build order); nothing is claimed ahead of its check')})

m = {
 'version': 1,
 'setup_cmd': 'cd /verif/tools/mirfacts && CARGO_NET_OFFLINE=true cargo build --offline 2>&1 | tail -3',
 'hooks': {
   'guard': 'pacak_bpaf_verif',
   'enable': 'no hooks or instrumentation are used: the analysis reads the unmodified source through the compiler (the guard name is reserved, no source commit uses it)',
   'baseline_off_cmd': '/verif/tools/run_baseline.sh',
   'source_commits': [],
   'add_only': True,
 },
 'engines': [
   {'name': 'mirfacts', 'path': 'tools/mirfacts', 'serves_properties': sorted(CLAIMED),
    'kind_free_text': 'rustc_private driver (RUSTC_WORKSPACE_WRAPPER) dumping type-checked MIR, resolved callees, decoded constants, ADT/impl tables as JSON per feature configuration'},
   {'name': 'rules', 'path': 'rules', 'serves_properties': sorted(CLAIMED),
    'kind_free_text': 'Python rule library: CFG, dominators, control dependence, reaching definitions, provenance, fmt-template decoding, per-property rule modules'},
 ],
 'checks': checks,
 'not_applicable': na,
 'notes': 'Static analysis only: no check runs bpaf code. exit 0 = every decided structural clause holds on the current tree; see DESIGN.md for the undecided remainder of each property. fix: commits in /repo are listed in known_findings.json (fixed).',
}
json.dump(m, open(os.path.join(HERE, 'MANIFEST.json'), 'w'), indent=1)
print('claimed', sorted(CLAIMED), 'not_applicable', len(na))
