#!/bin/bash
# xall.sh <patch>: apply to a scratch copy and list, per check, the first two violations (cross-check a seed against every property)
p=$(realpath "$1")
/verif/tools/scratch.sh "$p" >/dev/null || { echo "patch does not apply"; exit 3; }
for i in $(seq -w 1 20); do
  out=$(VERIF_REPO=/tmp/scr/repo VERIF_EVIDENCE_DIR=/tmp/scr/ev /verif/check C$i 2>&1 | grep '^VIOLATION\|^CHECK-BROKEN' | sed 's/.*replay\/C..\///; s/\.json$//' | head -${N:-2} | tr '\n' ' ')
  [ -n "$out" ] && echo "  C$i: $out" | cut -c1-${COLS:-260}
done
