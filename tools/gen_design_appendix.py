#!/usr/bin/env python3
"""gen_design_appendix.py: rewrite the generated appendices of DESIGN.md from seeded/MATRIX.json, refactors/MATRIX.json, the
rule module docstrings and the evidence files of the last run on the unchanged tree."""
import json, os, re, sys, glob, importlib
V = '/verif'
sys.path.insert(0, V + '/rules')
def block(s, name, body):
    a = '<!-- BEGIN GENERATED:%s -->' % name; b = '<!-- END GENERATED:%s -->' % name
    i = s.index(a) + len(a); j = s.index(b)
    return s[:i] + '\n' + body.rstrip() + '\n' + s[j:]
s = open(V + '/DESIGN.md').read()
# ---- C
m = json.load(open(V + '/seeded/MATRIX.json'))
rows = []; own_hit = 0; n = 0; undetected = []
for k in sorted(m):
    v = m[k]
    if 'detected_by' not in v: rows.append('| %s | (patch does not apply to the current tree) | | |' % k); continue
    meta = json.load(open('%s/seeded/%s/meta.json' % (V, k)))
    pid = meta.get('property', k.split('-')[0]); n += 1
    own = pid in v['detected_by']; own_hit += own
    if not v['detected_by']: undetected.append(k)
    rules = sorted({x.split('_')[0] for x in v['detail'].get(pid, [])})
    summ = re.sub(r'\s+', ' ', meta.get('summary', ''))[:150].replace('|', '/')
    rows.append('| %s | %s | %s | %s | %s |' % (k, summ, 'yes' if own else '**no**', ', '.join(rules), ', '.join(c for c in v['detected_by'] if c != pid)))
body = ('%d confirmed seeded changes; %d are reported by the check of the property they were written against, %d by no check.\n'
        'Columns: seed, what was changed (from the seeding agent\'s summary), reported by its own check, rule groups of that check that fire, other checks that also report it '
        '(shared rules: a change that breaks one clause usually breaks every property that relies on it).\n\n'
        '| seed | change | own check | rule groups | also reported by |\n|---|---|---|---|---|\n' % (n, own_hit, len(undetected))) + '\n'.join(rows)
broken = {k: v['broken'] for k, v in m.items() if v.get('broken')}
if broken:
    body += '\n\nChecks that ended with exit 2 (check broken) on a seeded tree: %s' % json.dumps(broken)
s = block(s, 'APPENDIX-C', body)
# ---- D
m = json.load(open(V + '/refactors/MATRIX.json'))
rows = []; alarms = 0; total = 0
def key(k):
    a, b = k.split('/'); return (int(a[1:]), b)
for k in sorted(m, key=key):
    v = m[k]
    if 'alarms' not in v: rows.append('| %s | patch does not apply to the current tree | |' % k); continue
    total += 1
    notes = {}
    nf = '%s/refactors/%s/notes.json' % (V, k.split('/')[0])
    if os.path.exists(nf):
        try:
            for e in json.load(open(nf)):
                notes[e.get('patch')] = e.get('what', '')
        except Exception: pass
    what = re.sub(r'\s+', ' ', notes.get(k.split('/')[1], ''))[:140].replace('|', '/')
    al = sorted(v['alarms']); br = sorted(v['broken'])
    alarms += bool(al or br)
    rows.append('| %s | %s | %s |' % (k, what, ('alarm: ' + ', '.join(al) if al else '') + (' broken: ' + ', '.join(br) if br else '') or 'silent'))
body = '%d patches applied one at a time to a scratch copy of /repo; all %d claimed checks run against each. %d patch(es) still produce an alarm or a broken check.\n\n| patch | what it does | result |\n|---|---|---|\n' % (total, 20, alarms) + '\n'.join(rows)
s = block(s, 'APPENDIX-D', body)
# ---- E
out = []
for i in list(range(1, 21)):
    pid = 'C%02d' % i
    try:
        mod = importlib.import_module(pid.lower())
    except Exception as e:
        continue
    ev = {}
    p = '%s/evidence/%s.json' % (V, pid)
    if os.path.exists(p): ev = json.load(open(p))
    out.append('### %s\n\n```\n%s\n```\n' % (pid, (mod.__doc__ or '').strip()))
    pr = ev.get('coverage', {}).get('per_rule', {})
    if pr:
        out.append('Rule instances on the current tree (%s tier, configurations %s): ' % (ev.get('tier'), ', '.join(ev['coverage'].get('configs_analysed', []))) +
                   '; '.join('%s %d%s' % (r, d['instances'], (' (%d known finding)' % d['violated']) if d['violated'] else '') for r, d in sorted(pr.items())) + '.\n')
s = block(s, 'APPENDIX-E', '\n'.join(out))
open(V + '/DESIGN.md', 'w').write(s)
print('appendices written')
