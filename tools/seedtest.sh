#!/bin/bash
# seedtest.sh <patch.diff> <ID> [<ID>...]  -- apply a seeded change to /repo, run the checks, undo.
P=$1; shift
cd /repo || exit 2
if [ -n "$(git status --porcelain -- src bpaf_derive Cargo.toml)" ]; then echo "repo not clean"; exit 2; fi
git apply "$P" || { echo "patch does not apply"; exit 2; }
for id in "$@"; do
  ( cd /verif && ./check "$id" --tier ${SEED_TIER:-quick} 2>&1 | grep -E "^(VIOLATION|KNOWN|property=|CHECK-BROKEN|  rule|  at)" | sed "s/^/[$id] /" )
done
git checkout -- . 
