#!/bin/bash
# try.sh <patch> <ID>...: apply the patch to a scratch copy of /repo and run the given checks against it
p=$(realpath "$1"); shift
/verif/tools/scratch.sh "$p" >/dev/null || { echo "patch does not apply"; exit 3; }
for c in "$@"; do VERIF_REPO=/tmp/scr/repo VERIF_EVIDENCE_DIR=/tmp/scr/ev /verif/check $c | grep -v "^KNOWN" | tail -${TAIL:-3} | cut -c1-${COLS:-300}; done
