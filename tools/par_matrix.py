#!/usr/bin/env python3
"""par_matrix.py seed|refactor <jobs> [items...]: run the seed / refactor matrix with several workers side by side (each
worker has its own scratch copy of /repo; MATRIX.json is merged under a file lock)."""
import glob, os, subprocess, sys
V = '/verif'
kind = sys.argv[1]; jobs = int(sys.argv[2]); items = sys.argv[3:]
if kind == 'seed':
    items = items or sorted(os.path.basename(d) for d in glob.glob(V + '/seeded/C*'))
    tool = V + '/tools/seed_' + 'matrix.py'
else:
    items = items or sorted(glob.glob(V + '/refactors/R*/p*.diff'), key=lambda p: (int(p.split('/R')[-1].split('/')[0]), p))
    tool = V + '/tools/refactor_' + 'matrix.py'
groups = [items[i::jobs] for i in range(jobs)]
procs = []
for i, g in enumerate(groups):
    if not g: continue
    log = open('/tmp/par_%s_%d.log' % (kind, i), 'w')
    procs.append(subprocess.Popen([sys.executable, tool] + g, stdout=log, stderr=subprocess.STDOUT, env=os.environ))
rc = [p.wait() for p in procs]
print('workers done', rc)
