#!/usr/bin/env python3
"""lint_rules.py: names used in rules/*.py that are defined nowhere (a NameError waiting in a branch that only a changed tree reaches).
Resolves `from m import *` by importing m; function-local assignments, parameters, comprehension variables and imports count."""
import ast, builtins, importlib, os, sys
R = os.path.join(os.path.dirname(os.path.dirname(os.path.abspath(__file__))), 'rules')
sys.path.insert(0, R)
bad = 0
for fn in sorted(os.listdir(R)):
    if not fn.endswith('.py'): continue
    src = open(os.path.join(R, fn)).read()
    tree = ast.parse(src)
    glob = set(dir(builtins)) | {'__file__', '__name__', '__doc__'}
    for n in ast.walk(tree):
        if isinstance(n, ast.ImportFrom):
            if any(a.name == '*' for a in n.names):
                try:
                    m = importlib.import_module(n.module)
                    glob |= {k for k in dir(m) if not k.startswith('__')}
                except Exception as e:
                    print('%s: cannot import %s (%s)' % (fn, n.module, e))
            else:
                glob |= {a.asname or a.name for a in n.names}
        elif isinstance(n, ast.Import):
            glob |= {(a.asname or a.name).split('.')[0] for a in n.names}
        elif isinstance(n, (ast.FunctionDef, ast.ClassDef)):
            glob.add(n.name)
            if isinstance(n, ast.FunctionDef):
                for a in n.args.args + n.args.kwonlyargs + ([n.args.vararg] if n.args.vararg else []) + ([n.args.kwarg] if n.args.kwarg else []):
                    glob.add(a.arg)
        elif isinstance(n, ast.Lambda):
            for a in n.args.args: glob.add(a.arg)
        elif isinstance(n, ast.Name) and isinstance(n.ctx, (ast.Store, ast.Del)):
            glob.add(n.id)
        elif isinstance(n, ast.ExceptHandler) and n.name:
            glob.add(n.name)
    for n in ast.walk(tree):
        if isinstance(n, ast.Name) and isinstance(n.ctx, ast.Load) and n.id not in glob:
            print('%s:%d: undefined name %s' % (fn, n.lineno, n.id)); bad += 1
sys.exit(1 if bad else 0)
