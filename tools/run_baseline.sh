#!/bin/bash
# Run the repository's own test suite on a scratch worktree of /repo HEAD (never in /repo:
# docs2/build.rs rewrites tracked files) and compare with /root/.vp/BASELINE.json.
set -u
D=$(mktemp -d /tmp/bpaf_baseline.XXXXXX)
git -C /repo worktree add -q "$D/wt" HEAD || exit 2
cd "$D/wt"
CARGO_TARGET_DIR="$D/target" cargo test --workspace --no-fail-fast --offline > "$D/log" 2>&1
python3 - "$D/log" <<'PY'
import json,re,sys
log=open(sys.argv[1]).read()
base=json.load(open('/root/.vp/BASELINE.json'))
stable=set(base['stable_pass']); always=set(base['always_fail'])
crate=None; mod=None
passed=set(); failed=set()
for line in log.splitlines():
    m=re.match(r'\s*Running (unittests )?(\S+) \(.*/deps/([a-zA-Z0-9_]+)-[0-9a-f]+\)',line)
    if m:
        path=m.group(2); binname=m.group(3)
        if m.group(1):
            crate=None; mod=None
            # unit tests: crate = binname
            crate=binname; mod=None
        else:
            # integration test: crate from path
            parts=path.split('/')
            mod=binname
            if parts[0]=='tests': crate='bpaf'
            else: crate=parts[0]
        continue
    m=re.match(r'\s*Doc-tests',line)
    if m: crate=None; continue
    m=re.match(r'test (\S+)(?: - should panic)? \.\.\. (ok|FAILED|ignored)',line)
    if m and crate:
        name=m.group(1)
        full='::'.join([x for x in (crate,mod,name) if x])
        (passed if m.group(2)=='ok' else failed if m.group(2)=='FAILED' else set()).add(full)
missing=sorted(stable-passed)
newfail=sorted(f for f in failed if f in stable)
print(f"passed={len(passed)} failed={len(failed)} stable_expected={len(stable)} stable_missing={len(missing)}")
for x in missing[:40]: print("  MISSING/FAILED:",x)
sys.exit(1 if missing else 0)
PY
rc=$?
cd /
git -C /repo worktree remove --force "$D/wt"
rm -rf "$D"
exit $rc
