#!/usr/bin/env python3
"""seed_matrix.py [seed dirs...]: apply every confirmed seeded change (seeded/<ID>-<X>/patch.diff) to a scratch copy
of /repo and run every claimed check against that copy; writes seeded/MATRIX.json (which check reports a VIOLATION
for which seed).  /repo itself is not touched; evidence of these runs goes to a scratch directory."""
import json, os, subprocess, sys, shutil, glob, tempfile, fcntl, time
V = '/verif'
man = json.load(open(V + '/MANIFEST.json'))
checks = [c['property_id'] for c in man['checks']]
partial = bool(os.environ.get('CHECKS'))
if partial:
    checks = os.environ['CHECKS'].split(',')
seeds = sorted(sys.argv[1:] or [os.path.basename(d) for d in glob.glob(V + '/seeded/C*')])
work = tempfile.mkdtemp(prefix='seedmatrix_')
repo = work + '/repo'
subprocess.check_call(['rsync', '-a', '--exclude', 'target', '--exclude', '.git', '/repo/', repo + '/'])
subprocess.check_call('cd %s && git init -q && git add -A && git commit -qm base' % repo, shell=True)
out_path = V + '/seeded/MATRIX.json'
res = json.load(open(out_path)) if os.path.exists(out_path) else {}
env = dict(os.environ, VERIF_REPO=repo, VERIF_EVIDENCE_DIR=work + '/evidence')
head = subprocess.check_output('git -C /repo rev-parse --short HEAD', shell=True).decode().strip()
done_here = set()
for s in seeds:
    done_here.add(s)
    patch = '%s/seeded/%s/patch.diff' % (V, s)
    subprocess.check_call('cd %s && git checkout -q -- . && git clean -fdq' % repo, shell=True)
    r = subprocess.run('cd %s && git apply %s' % (repo, patch), shell=True, stdout=subprocess.PIPE, stderr=subprocess.STDOUT)
    if r.returncode != 0:
        res[s] = {'error': 'patch does not apply to /repo %s: %s' % (head, r.stdout.decode()[-200:])}
        continue
    row = {}
    for c in checks:
        t0 = time.time()
        p = subprocess.run([V + '/check', c], env=env, cwd=V, stdout=subprocess.PIPE, stderr=subprocess.STDOUT)
        outp = p.stdout.decode(errors='replace')
        viol = [l.split('replay=')[1].split('/')[-1].replace('.json', '') for l in outp.splitlines() if l.startswith('VIOLATION')]
        row[c] = {'rc': p.returncode, 'violations': viol[:6] if p.returncode in (0, 1) else outp.splitlines()[-14:]}
    if partial and s in res and 'detected_by' in res[s]:
        old = res[s]
        for c in checks:
            for fld in ('detected_by', 'broken'):
                if c in old[fld]: old[fld].remove(c)
            old['detail'].pop(c, None)
            if row[c]['rc'] == 1: old['detected_by'].append(c)
            elif row[c]['rc'] != 0: old['broken'].append(c)
            if row[c]['violations']: old['detail'][c] = row[c]['violations']
        old['detected_by'].sort(); old['broken'].sort()
        print(s, 'partial', {c: row[c]['rc'] for c in checks}, flush=True)
        with open(out_path + '.lock', 'w') as lk:
            fcntl.flock(lk, fcntl.LOCK_EX)
            cur = json.load(open(out_path)) if os.path.exists(out_path) else {}
            cur.update({k: v for k, v in res.items() if k in done_here})
            json.dump(cur, open(out_path, 'w'), indent=1, sort_keys=True)
        continue
    res[s] = {'repo_head': head, 'detected_by': sorted(c for c, v in row.items() if v['rc'] == 1), 'broken': sorted(c for c, v in row.items() if v['rc'] not in (0, 1)), 'detail': {c: v['violations'] for c, v in row.items() if v['violations']}}
    print(s, 'detected by', res[s]['detected_by'], 'broken', res[s]['broken'], flush=True)
    with open(out_path + '.lock', 'w') as lk:
        fcntl.flock(lk, fcntl.LOCK_EX)
        cur = json.load(open(out_path)) if os.path.exists(out_path) else {}
        cur.update({k: v for k, v in res.items() if k in done_here})
        json.dump(cur, open(out_path, 'w'), indent=1, sort_keys=True)
shutil.rmtree(work, ignore_errors=True)
