#!/usr/bin/env python3
"""mk_seed_round.py <root> <X> <Y> [ID...]: prepare a round of seeding agents: for every property (or the given IDs) a scratch
worktree <root>/<ID>/wt of /repo HEAD, property.txt and prompt.md (tools/prompts/SEED_PROMPT.md with the two letters and the list
of sites earlier rounds used, read from seeded/<ID>-*/meta.json).  Agents get nothing from /verif but the property text."""
import glob, json, os, re, subprocess, sys
V = '/verif'
root, X, Y = sys.argv[1], sys.argv[2], sys.argv[3]
ids = sys.argv[4:]
props = [json.loads(l) for l in open(V + '/properties.jsonl') if l.strip()]
tmpl = open(V + '/tools/prompts/SEED_PROMPT.md').read()
for p in props:
    pid = p['id']
    if ids and pid not in ids: continue
    d = '%s/%s' % (root, pid)
    os.makedirs(d + '/out', exist_ok=True)
    subprocess.run(['git', '-C', '/repo', 'worktree', 'add', '--detach', d + '/wt', 'HEAD', '-q'], check=True)
    text = json.dumps(p, indent=1, ensure_ascii=False)
    open(d + '/property.txt', 'w').write(text)
    avoid = []
    for m in sorted(glob.glob('%s/seeded/%s-*/meta.json' % (V, pid))):
        letter = os.path.basename(os.path.dirname(m)).split('-')[1]
        s = json.load(open(m)).get('summary', '')
        avoid.append('   - (%s) %s' % (letter, s[:420].replace('\n', ' ')))
    t = tmpl.replace('/tmp/seed2', root).replace('__ID__', pid).replace('__PROPERTY__', text).replace('__AVOID__', '\n' + '\n'.join(avoid))
    t = t.replace('(call them C and D)', '(call them %s and %s)' % (X, Y)).replace('C and D must', '%s and %s must' % (X, Y)).replace('summary of C and D', 'summary of %s and %s' % (X, Y))
    for a, b in (('C', X), ('D', Y)):
        t = t.replace('%s.patch.diff' % a, '%s.patch.diff' % b).replace('%s.demo.rs' % a, '%s.demo.rs' % b).replace('%s.meta.json' % a, '%s.meta.json' % b)
        t = t.replace('seed_demo_%s.rs' % a.lower(), 'seed_demo_%s.rs' % b.lower()).replace('%s.demo.sh' % a, '%s.demo.sh' % b)
    open(d + '/prompt.md', 'w').write(t)
    print(pid, len(avoid), 'earlier sites')
