#!/bin/bash
# extract.sh <outdir> <package> <features-comma-list|-> [srcdir]
# Runs the mirfacts driver over one package/feature configuration of the repository and leaves
# <outdir>/<crate>.<pid>.json. A fresh target dir is used every time (cargo's freshness cache
# would otherwise skip the wrapper) and removed afterwards.
set -eu
OUT=$1; PKG=$2; FEATS=$3; SRC=${4:-/repo}
DRV=/verif/tools/mirfacts/target/debug/mirfacts
[ -x "$DRV" ] || { echo "mirfacts driver not built (run MANIFEST.setup_cmd)" >&2; exit 2; }
mkdir -p "$OUT"
T=$(mktemp -d /tmp/mirfacts_target.XXXXXX)
trap 'rm -rf "$T"' EXIT
SYSROOT=$(rustc +nightly --print sysroot)
FA=()
if [ "$FEATS" != "-" ] && [ -n "$FEATS" ]; then FA=(--features "$FEATS"); fi
cd "$SRC"
CARGO_NET_OFFLINE=true LD_LIBRARY_PATH="$SYSROOT/lib" \
RUSTFLAGS="-Zmir-opt-level=0 -Coverflow-checks=on -Cdebug-assertions=off -Awarnings" \
RUSTC_WORKSPACE_WRAPPER="$DRV" MIRFACTS_OUT="$OUT" MIRFACTS_CRATES="${MIRFACTS_CRATES:-bpaf}" \
CARGO_TARGET_DIR="$T" cargo +nightly check --offline -q -p "$PKG" --lib "${FA[@]}" 2>"$OUT/cargo.$$.log" || { cat "$OUT/cargo.$$.log" >&2; exit 2; }
