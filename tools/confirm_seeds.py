#!/usr/bin/env python3
"""confirm_seeds.py <ID>:<X> ...   e.g. C15:A C15:B
For each seeded change delivered by a sub-agent under /tmp/seed/<ID>/out/, confirm in a scratch
worktree of /repo HEAD: (1) the unedited suite still passes with the change (same stable-pass set as
BASELINE.json), (2) the demonstration fails with the change, (3) passes without it.  Confirmed seeds
are copied to /verif/seeded/<ID>-<X>/ with a meta.json recording what was run."""
import json, os, re, shutil, subprocess, sys, time
ROOT = os.environ.get('CONFIRM_ROOT', '/tmp/confirm')
SEEDROOT = os.environ.get('SEED_ROOT', '/tmp/seed')
WT = ROOT + '/wt'
TARGET = ROOT + '/target'
BASE = json.load(open('/root/.vp/BASELINE.json'))
STABLE = set(BASE['stable_pass'])

def sh(cmd, cwd=None, env=None, timeout=3600):
    e = dict(os.environ); e['CARGO_TARGET_DIR'] = TARGET; e['CARGO_NET_OFFLINE'] = 'true'
    if env: e.update(env)
    p = subprocess.run(cmd, shell=True, cwd=cwd, env=e, stdout=subprocess.PIPE, stderr=subprocess.STDOUT, timeout=timeout)
    return p.returncode, p.stdout.decode(errors='replace')

def suite(cwd):
    rc, log = sh('cargo test --workspace --no-fail-fast --offline', cwd)
    crate = None; mod = None; passed = set(); failed = set()
    for line in log.splitlines():
        m = re.match(r'\s*Running (unittests )?(\S+) \(.*/deps/([a-zA-Z0-9_]+)-[0-9a-f]+\)', line)
        if m:
            path = m.group(2); binname = m.group(3)
            if m.group(1):
                crate = binname; mod = None
            else:
                parts = path.split('/'); mod = binname
                crate = 'bpaf' if parts[0] == 'tests' else parts[0]
            continue
        if re.match(r'\s*Doc-tests', line):
            crate = None; continue
        m = re.match(r'test (\S+)(?: - should panic)? \.\.\. (ok|FAILED|ignored)', line)
        if m and crate:
            full = '::'.join(x for x in (crate, mod, m.group(1)) if x)
            if m.group(2) == 'ok': passed.add(full)
            elif m.group(2) == 'FAILED': failed.add(full)
    missing = sorted(STABLE - passed)
    return missing, len(passed), len(failed), log

def fresh_wt():
    subprocess.run('git -C /repo worktree remove --force %s' % WT, shell=True, stdout=subprocess.DEVNULL, stderr=subprocess.DEVNULL)
    shutil.rmtree(WT, ignore_errors=True)
    os.makedirs(ROOT, exist_ok=True)
    subprocess.check_call('git -C /repo worktree add -q --detach %s HEAD' % WT, shell=True)

def clean_wt():
    sh('git checkout -- . && git clean -fdq tests/ src/ bpaf_derive/ examples/', WT)

def run_demo(pid, x, out):
    rs = out + '/%s.demo.rs' % x
    shf = out + '/%s.demo.sh' % x
    if os.path.exists(rs) and not os.path.exists(shf):
        name = 'seed_demo_%s' % x.lower()
        shutil.copy(rs, WT + '/tests/%s.rs' % name)
        rc, log = sh('cargo test --offline --test %s' % name, WT, timeout=1800)
        os.remove(WT + '/tests/%s.rs' % name)
        return rc, log, 'cp %s.demo.rs tests/%s.rs && cargo test --offline --test %s' % (x, name, name)
    if os.path.exists(shf):
        # scripts were written for the agent's own worktree path: point them at ours
        txt = open(shf).read().replace('%s/%s/wt' % (SEEDROOT, pid), WT).replace('%s/%s/target' % (SEEDROOT, pid), TARGET + '_demo')
        p = ROOT + '/demo.sh'
        open(p, 'w').write(txt); os.chmod(p, 0o755)
        rc, log = sh('bash %s %s' % (p, rs if os.path.exists(rs) else ''), WT, env={'CARGO_TARGET_DIR': TARGET + '_demo'}, timeout=1800)
        return rc, log, 'bash %s.demo.sh (run from the worktree root)' % x
    return None, 'no demo found', ''

def main():
    res_path = ROOT + '/results.json'
    os.makedirs(ROOT, exist_ok=True)
    results = json.load(open(res_path)) if os.path.exists(res_path) else {}
    fresh_wt()
    head = subprocess.check_output('git -C /repo rev-parse --short HEAD', shell=True).decode().strip()
    for spec in sys.argv[1:]:
        pid, x = spec.split(':')
        out = '%s/%s/out' % (SEEDROOT, pid)
        patch = '%s/%s.patch.diff' % (out, x)
        r = {'seed': spec, 'repo_head': head}
        if not os.path.exists(patch):
            r['error'] = 'no patch'; results[spec] = r; continue
        clean_wt()
        rc, log = sh('git apply %s' % patch, WT)
        if rc != 0:
            r['error'] = 'patch does not apply: ' + log[-500:]; results[spec] = r
            json.dump(results, open(res_path, 'w'), indent=1); continue
        missing, np, nf, log = suite(WT)
        r['suite_with_change'] = {'stable_missing': missing, 'passed': np, 'failed': nf}
        sh('git checkout -- src/docs2', WT)
        rc1, log1, cmd = run_demo(pid, x, out)
        r['demo_with_change'] = {'rc': rc1, 'tail': log1[-1500:]}
        sh('git apply -R %s' % patch, WT)
        rc2, log2, _ = run_demo(pid, x, out)
        r['demo_without_change'] = {'rc': rc2, 'tail': log2[-600:]}
        r['demo_cmd'] = cmd
        ok = (not missing) and rc1 not in (0, None) and rc2 == 0
        r['confirmed'] = ok
        results[spec] = r
        json.dump(results, open(res_path, 'w'), indent=1)
        print(spec, 'confirmed' if ok else 'NOT CONFIRMED', 'missing=%d demo_with=%s demo_without=%s' % (len(missing), rc1, rc2), flush=True)
        if ok:
            d = '/verif/seeded/%s-%s' % (pid, x)
            os.makedirs(d, exist_ok=True)
            shutil.copy(patch, d + '/patch.diff')
            for ext in ('rs', 'sh'):
                f = '%s/%s.demo.%s' % (out, x, ext)
                if os.path.exists(f): shutil.copy(f, d + '/demo.' + ext)
            meta = json.load(open('%s/%s.meta.json' % (out, x))) if os.path.exists('%s/%s.meta.json' % (out, x)) else {}
            meta.pop('verified', None)
            meta.update({
                'property': pid,
                'confirmed_by': 'tools/confirm_seeds.py in a scratch worktree of /repo %s' % head,
                'what_i_ran': ['git apply patch.diff', 'cargo test --workspace --no-fail-fast --offline (all %d BASELINE stable tests pass)' % len(STABLE),
                               cmd + ' -> fails (rc=%s) with the change' % rc1, 'git apply -R patch.diff; same command -> passes'],
            })
            json.dump(meta, open(d + '/meta.json', 'w'), indent=1)
    clean_wt()
    subprocess.run('git -C /repo worktree remove --force %s' % WT, shell=True)
    shutil.rmtree(TARGET + '_demo', ignore_errors=True)

main()
