#!/bin/bash
# run every quick check on the unchanged tree; print one line per check that does not exit 0 (plus: undefined names in the rule modules)
cd /verif; rc=0
python3 tools/lint_rules.py || rc=1
for i in 01 02 03 04 05 06 07 08 09 10 11 12 13 14 15 16 17 18 19 20; do ./check C$i >/tmp/all_quick_$i.log 2>&1 || { echo "FAIL C$i: $(grep -v '^KNOWN' /tmp/all_quick_$i.log | tail -n 2 | head -n 1 | cut -c1-200)"; rc=1; }; done
[ $rc = 0 ] && echo "all 20 quick checks pass"
exit $rc
