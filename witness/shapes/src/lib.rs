//! Witness crate: every documented form of `construct!`, expanded by the macro as it currently is in
//! /repo/src/lib.rs.  Compiled (never executed) under the mirfacts driver; rules/shapes.py checks the
//! shape of each expansion.  Function names encode the expected field order: `<kind>__<f1>_<f2>...`.
#![allow(clippy::all, dead_code)]
use bpaf::*;

pub struct N3 { pub a: u32, pub b: bool, pub c: String }
pub struct P2(pub u32, pub bool);
#[derive(Clone)]
pub enum E { V { a: u32, b: bool }, T(u32, String), U }
pub struct N5 { pub a: u32, pub b: bool, pub c: String, pub d: Option<u32>, pub e: Vec<String> }

fn pa() -> impl Parser<u32> { short('a').argument::<u32>("A") }
fn pb() -> impl Parser<bool> { short('b').switch() }
fn pc() -> impl Parser<String> { positional::<String>("C") }
fn pd() -> impl Parser<Option<u32>> { short('d').argument::<u32>("D").optional() }
fn pe() -> impl Parser<Vec<String>> { long("e").argument::<String>("E").many() }

pub fn named__a_b_c() -> impl Parser<N3> {
    let a = pa(); let b = pb(); let c = pc();
    construct!(N3 { a, b, c })
}
pub fn named__a_b_c_d_e() -> impl Parser<N5> {
    let a = pa(); let b = pb(); let c = pc(); let d = pd(); let e = pe();
    construct!(N5 { a, b, c, d, e })
}
pub fn pos__a_b() -> impl Parser<P2> {
    let a = pa(); let b = pb();
    construct!(P2(a, b))
}
pub fn tuple__a_b() -> impl Parser<(u32, bool)> {
    let a = pa(); let b = pb();
    construct!(a, b)
}
pub fn tuple__b_a_c() -> impl Parser<(bool, u32, String)> {
    let a = pa(); let b = pb(); let c = pc();
    construct!(b, a, c)
}
pub fn variant_named__a_b() -> impl Parser<E> {
    let a = pa(); let b = pb();
    construct!(E::V { a, b })
}
pub fn variant_pos__a_c() -> impl Parser<E> {
    let a = pa(); let c = pc();
    construct!(E::T(a, c))
}
pub fn callform__pa_pb() -> impl Parser<(u32, bool)> {
    construct!(pa(), pb())
}
pub fn exprform__a_b_c() -> impl Parser<N3> {
    construct!(N3 { a(short('a').argument::<u32>("A")), b(pb()), c(positional::<String>("C")) })
}
pub fn tuple12__f1_f2_f3_f4_f5_f6_f7_f8_f9_f10_f11_f12() -> impl Parser<(u32, u32, u32, u32, u32, u32, u32, u32, u32, u32, u32, u32)> {
    let f1 = pa(); let f2 = pa(); let f3 = pa(); let f4 = pa(); let f5 = pa(); let f6 = pa();
    let f7 = pa(); let f8 = pa(); let f9 = pa(); let f10 = pa(); let f11 = pa(); let f12 = pa();
    construct!(f1, f2, f3, f4, f5, f6, f7, f8, f9, f10, f11, f12)
}
pub fn adjacent__a_b() -> impl Parser<(u32, bool)> {
    let a = pa(); let b = pb();
    construct!(a, b).adjacent()
}

// parallel composition: left-nested or_else chain in listed order
pub fn alt__x_y_z() -> impl Parser<u32> {
    let x = short('x').argument::<u32>("X");
    let y = short('y').argument::<u32>("Y");
    let z = short('z').argument::<u32>("Z");
    construct!([x, y, z])
}
pub fn alt__y_x() -> impl Parser<u32> {
    let x = short('x').argument::<u32>("X");
    let y = short('y').argument::<u32>("Y");
    construct!([y, x])
}
pub fn single__a() -> Box<dyn Parser<u32>> {
    let a = pa();
    construct!(a)
}
pub fn unit__() -> impl Parser<E> {
    construct!(E::U {})
}
